# C07 — rendering is a pure, deterministic function of template and data.
#
# Every generated (template, data) pair is rendered by the real engine in processes of its own: in one
# process as the very first render, again on the same engine, on a second engine, then - after a HISTORY
# of other renders (other templates, the same template with other data, on any of three engine
# instances) - on a third engine, with freshly built equal data, and on an engine created only then; and
# once in each of three more processes that render nothing else (own map hash seeds).  The harness
# deep-compares the caller's data with a pristine copy after the renders.  The judge (Run/Judge_C07.v)
# demands that all outputs are byte-identical and the data untouched, and - where a model covers the
# template - that they equal its prediction: Models/Purity.v for the 12 order-sensitive shapes, the
# executor model (Pug.Compile + Tmpl.Exec) for the templates given as pug trees.
#
# Template families:
#   shapes   the 12 order-sensitive sites (each / &attributes / JSON.stringify / Object.keys / ...)
#   acc      STATE BUILT DURING A RENDER: an object or array created by a literal ({} [] {zz: 1} ..) - or the
#            $global object every render starts with - is filled in loops and under conditions with keys and
#            values taken from the data, then enumerated / serialised / read at keys this render may not have set
#   free     statement lists mutating data-derived objects, literals, $global, variables read before they are
#            set, mixin definitions and calls (also a call without a definition in this template)
# The point of acc / free together with the HISTORY: whatever a render leaves behind anywhere in the process
# (engine, package-level variable, pool, cache) and a later render picks up makes r3..r5 differ from r0 and
# from the single-render processes.
# A template is stored either as raw pug AST JSON (list of nodes) or as {"tree": <tmpl.py pug tuples>};
# only the tree form is handed to the executor model.
import json
from common import *
import tmpl

FRESH_PROCESSES = 3
FULL_RENDERS = 6          # r0..r5 of harness/c07.go

# ------------------------------------------------------------------ data
# ('nil',) ('bool',b) ('int',n) ('str',bytes) ('arr',[v]) ('strs',[bytes]) ('ints',[n])
# ('map',[(k,v)]) ('smap',[(k,bytes)]) ('imap',[(k,n)]) ('nmap',[(n,bytes)])
# ('rec',{field:v}) ('prec',{field:v}) ('ptr',v)
REC_FIELDS = ["name", "count", "tags", "items", "attrs", "next"]   # declaration order of c07Rec


def d_go(v):
    t = v[0]
    if t == 'nil':
        return {"t": "nil"}
    if t == 'bool':
        return {"t": "bool", "v": v[1]}
    if t == 'int':
        return {"t": "int", "v": v[1]}
    if t == 'str':
        return {"t": "str", "v": hx(v[1])}
    if t == 'arr':
        return {"t": "arr", "v": [d_go(x) for x in v[1]]}
    if t == 'strs':
        return {"t": "strs", "v": [hx(x) for x in v[1]]}
    if t == 'ints':
        return {"t": "ints", "v": list(v[1])}
    if t == 'map':
        return {"t": "map", "v": [[hx(k), d_go(x)] for k, x in v[1]]}
    if t == 'smap':
        return {"t": "smap", "v": [[hx(k), d_go(('str', x))] for k, x in v[1]]}
    if t == 'imap':
        return {"t": "imap", "v": [[hx(k), d_go(('int', x))] for k, x in v[1]]}
    if t == 'nmap':
        return {"t": "nmap", "v": [[k, hx(x)] for k, x in v[1]]}
    if t in ('rec', 'prec'):
        return {"t": t, "v": [[hx(k), d_go(x)] for k, x in v[1].items()]}
    if t == 'ptr':
        return {"t": "ptr", "v": d_go(v[1])}
    raise ValueError(v)


def ckey(k):
    return b"(KStr " + cq_bytes(k) + b")"


def d_coq(v):
    t = v[0]
    if t == 'nil':
        return b"GNil"
    if t == 'bool':
        return b"(GBool " + cq_bool(v[1]) + b")"
    if t == 'int':
        return b"(GInt " + cq_Z(v[1]) + b")"
    if t == 'str':
        return b"(GStr " + cq_bytes(v[1]) + b")"
    if t == 'arr':
        return b"(GArr " + cq_list([d_coq(x) for x in v[1]]) + b")"
    if t == 'strs':
        return b"(GArr " + cq_list([d_coq(('str', x)) for x in v[1]]) + b")"
    if t == 'ints':
        return b"(GArr " + cq_list([d_coq(('int', x)) for x in v[1]]) + b")"
    if t == 'map':
        return b"(GMap " + cq_list([cq_pair(ckey(k), d_coq(x)) for k, x in v[1]]) + b")"
    if t == 'smap':
        return b"(GMap " + cq_list([cq_pair(ckey(k), d_coq(('str', x))) for k, x in v[1]]) + b")"
    if t == 'imap':
        return b"(GMap " + cq_list([cq_pair(ckey(k), d_coq(('int', x))) for k, x in v[1]]) + b")"
    if t == 'nmap':
        return b"(GMap " + cq_list([cq_pair(b"(KInt " + cq_Z(k) + b")", d_coq(('str', x))) for k, x in v[1]]) + b")"
    if t in ('rec', 'prec'):
        f = v[1]
        zero = {"name": ('str', b""), "count": ('int', 0), "tags": ('arr', []), "items": ('arr', []),
                "attrs": ('map', []), "next": None}
        fs = []
        for name in REC_FIELDS:
            x = f.get(name, zero[name])
            term = b"(GPtr None)" if x is None else d_coq(x)
            fs.append(cq_pair(cq_bytes(name[:1].upper() + name[1:]), term))
        s = b"(GStruct " + cq_list(fs) + b")"
        return b"(GPtr (Some " + s + b"))" if t == 'prec' else s
    if t == 'ptr':
        return b"(GPtr (Some " + d_coq(v[1]) + b"))"
    raise ValueError(v)


def d_plain(v):
    t = v[0]
    if t == 'nil':
        return None
    if t in ('bool', 'int'):
        return v[1]
    if t == 'str':
        return v[1].decode('utf-8', 'replace')
    if t == 'arr':
        return [d_plain(x) for x in v[1]]
    if t == 'strs':
        return [x.decode('utf-8', 'replace') for x in v[1]]
    if t == 'ints':
        return list(v[1])
    if t == 'map':
        return {"go": "map[string]interface{}", "entries": {k: d_plain(x) for k, x in v[1]}}
    if t == 'smap':
        return {"go": "map[string]string", "entries": {k: x.decode('utf-8', 'replace') for k, x in v[1]}}
    if t == 'imap':
        return {"go": "map[string]int", "entries": dict(v[1])}
    if t == 'nmap':
        return {"go": "map[int]string", "entries": {str(k): x.decode('utf-8', 'replace') for k, x in v[1]}}
    if t in ('rec', 'prec'):
        return {"go": "struct" if t == 'rec' else "*struct", "fields": {k: d_plain(x) for k, x in v[1].items()}}
    if t == 'ptr':
        return {"go": "pointer", "to": d_plain(v[1])}
    raise ValueError(v)


def d_kinds(v, acc):
    acc.add(v[0])
    t = v[0]
    if t == 'arr':
        for x in v[1]:
            d_kinds(x, acc)
    elif t == 'map':
        for _, x in v[1]:
            d_kinds(x, acc)
    elif t in ('rec', 'prec'):
        for x in v[1].values():
            d_kinds(x, acc)
    elif t == 'ptr':
        d_kinds(v[1], acc)
    return acc


KEYS = ["a", "b", "c", "d", "e", "f", "g", "h", "A", "B", "Ab", "ab", "aB", "id", "ID", "Id", "url", "k", "K",
        "zz", "Zz", "class", "title", "Title", "x1", "x2", "x10", "data-x", "aria-label", "href", "n", "N",
        "key", "Key", "_u", "z9", "alt", "Alt", "m1", "m2", "q", "Q", "r", "s", "t", "u", "v", "w"]
STR_ALPHABET = ["a", "b", "c", "X", "Y", "0", "1", "9", " ", " ", "<", ">", "&", '"', "'", "/", "\\", "é", "-",
                "_", ".", ",", "=", "\n", "\t", "ü", "{", "}"]
TOP_EXTRA = ["foo", "Foo", "bar", "Bar", "title", "Title", "n", "N", "count", "Count", "M", "O", "Items", "q", "zeta"]


def g_str(rng, maxlen=8):
    return "".join(rng.choice(STR_ALPHABET) for _ in range(rng.choice([0, 1, 2, 3, 5, maxlen]))).encode()


def g_int(rng):
    r = rng.random()
    if r < 0.7:
        return rng.randint(-20, 120)
    if r < 0.997:
        return rng.randint(-10 ** 9, 10 ** 9)
    return rng.choice([10 ** 10, 2 ** 40, -(10 ** 12)])       # Number.String() leaves plain decimal: unmodelled


def g_scalar(rng):
    r = rng.random()
    if r < 0.45:
        return ('str', g_str(rng))
    if r < 0.75:
        return ('int', g_int(rng))
    if r < 0.9:
        return ('bool', rng.random() < 0.5)
    return ('nil',)


def g_keys(rng, n):
    return rng.sample(KEYS, min(n, len(KEYS)))


def g_size(rng, tier):
    r = rng.random()
    if r < 0.08:
        return rng.choice([0, 1])
    if r < 0.75:
        return rng.randint(2, 7)
    if r < 0.95:
        return rng.randint(8, 14)           # more than one bucket: not only rotations of one order
    return rng.randint(15, 30 if tier == "quick" else 48)


def g_value(rng, depth, tier):
    r = rng.random()
    if depth <= 0 or r < 0.6:
        return g_scalar(rng)
    if r < 0.72:
        return ('arr', [g_value(rng, depth - 1, tier) for _ in range(rng.randint(0, 4))])
    if r < 0.78:
        return ('strs', [g_str(rng) for _ in range(rng.randint(0, 4))])
    if r < 0.82:
        return ('ints', [g_int(rng) for _ in range(rng.randint(0, 4))])
    if r < 0.94:
        return g_maplike(rng, depth - 1, tier, small=True)
    return g_rec(rng, depth - 1, tier)


def g_rec(rng, depth, tier):
    f = {}
    if rng.random() < 0.8:
        f["name"] = ('str', g_str(rng))
    if rng.random() < 0.7:
        f["count"] = ('int', g_int(rng))
    if rng.random() < 0.6:
        f["tags"] = ('strs', [g_str(rng, 4) for _ in range(rng.randint(0, 4))])
    if rng.random() < 0.5:
        f["items"] = ('arr', [g_scalar(rng) for _ in range(rng.randint(0, 4))])
    if rng.random() < 0.5:
        f["attrs"] = ('map', [(k, g_scalar(rng)) for k in g_keys(rng, rng.randint(0, 5))])
    if depth > 0 and rng.random() < 0.3:
        f["next"] = g_rec(rng, depth - 1, tier)
        f["next"] = ('prec', f["next"][1])
    return (rng.choice(['rec', 'prec']), f)


def g_maplike(rng, depth, tier, small=False):
    n = rng.randint(0, 4) if small else g_size(rng, tier)
    ks = g_keys(rng, n)
    r = rng.random()
    if r < 0.55:
        return ('map', [(k, g_value(rng, depth, tier)) for k in ks])
    if r < 0.68:
        return ('smap', [(k, g_str(rng)) for k in ks])
    if r < 0.78:
        return ('imap', [(k, g_int(rng)) for k in ks])
    if r < 0.86:
        return ('nmap', [(i, g_str(rng)) for i in rng.sample(range(-3, 40), min(n, 12))])
    if r < 0.93:
        return ('ptr', ('map', [(k, g_value(rng, depth, tier)) for k in ks]))
    return g_rec(rng, depth, tier)


def g_items(rng, tier):
    r = rng.random()
    n = rng.choice([0, 1, 2, 3, 5, 8])
    if r < 0.5:
        return ('arr', [g_scalar(rng) for _ in range(n)])
    if r < 0.7:
        return ('strs', [g_str(rng, 4) for _ in range(n)])
    if r < 0.85:
        return ('ints', [g_int(rng) for _ in range(n)])
    if r < 0.93:
        return ('ptr', ('arr', [g_scalar(rng) for _ in range(n)]))
    return ('arr', [g_value(rng, 1, tier) for _ in range(n)])


def g_data(rng, tier):
    top = [("m", g_maplike(rng, 2, tier)), ("o", g_maplike(rng, 1, tier, small=rng.random() < 0.6)),
           ("items", g_items(rng, tier))]
    for k in rng.sample(TOP_EXTRA, rng.randint(0, 6)):
        top.append((k, g_value(rng, 1, tier)))
    rng.shuffle(top)
    d = ('map', top)
    if rng.random() < 0.08:
        d = ('ptr', d)
    return d


def lower_nested(v, top=True):
    """the same data with every map key below the top level starting in lower case (entries whose lowered key
    is already taken are dropped): no object of such data holds two keys that differ only in the case of the
    first letter, whatever a template merges - the executor model's domain (Run/Judge_C07.v fold_clash)"""
    t = v[0]
    if t == 'arr':
        return ('arr', [lower_nested(x, False) for x in v[1]])
    if t in ('map', 'smap', 'imap'):
        out, seen = [], set()
        for k, x in v[1]:
            k2 = k if top else k[:1].lower() + k[1:]
            if k2 in seen:
                continue
            seen.add(k2)
            out.append((k2, lower_nested(x, False) if t == 'map' else x))
        return (t, out)
    if t in ('rec', 'prec'):
        return (t, {k: lower_nested(x, False) for k, x in v[1].items()})
    if t == 'ptr':
        return ('ptr', lower_nested(v[1], top))
    return v


# ------------------------------------------------------------------ templates
def code(src, buffer=False, esc=True, inline=False):
    return {"type": "Code", "val": src, "buffer": buffer, "mustEscape": esc, "isInline": inline}


def text(s):
    return {"type": "Text", "val": s}


def block(nodes):
    return {"type": "Block", "nodes": nodes}


def each(obj, body, val="v", key="k"):
    return {"type": "Each", "obj": obj, "val": val, "key": key, "block": block(body)}


def tag(name, attrs=(), ablocks=(), body=()):
    return {"type": "Tag", "name": name, "isInline": False, "selfClosing": False,
            "attrs": [{"name": a, "val": v, "mustEscape": True} for a, v in attrs],
            "attributeBlocks": [{"type": "AttributeBlock", "val": a} for a in ablocks], "block": block(list(body))}


def each_kv(obj):
    return each(obj, [text("["), code("k", True, True, True), text("="), code("v", True, True, True), text("]")])


def shape_nodes(sh):
    k = sh[0]
    if k == "each":
        return [each_kv("m")]
    if k == "attrs":
        return [tag("div", ablocks=["m"])]
    if k == "json":
        return [code("JSON.stringify(m)", True, False)]
    if k == "keys":
        return [code("Object.keys(m).join(',')", True, True)]
    if k == "forin":
        return [code("for (k in m) { k }")]
    if k == "var":
        return [code(sh[1], True, True)]
    if k == "keys_each":
        return [code("var ks = Object.keys(m)"), each_kv("m")]
    if k == "assign_each":
        return [code("var t = {zz: 1}"), code("var u = Object.assign(t, m)"), each_kv("t")]
    if k == "push":
        return [code("items.push(9)"), code("items.join(',')", True, True), code("JSON.stringify(items)", True, False)]
    if k == "sort":
        return [code("items.sort()"), code("items.join(',')", True, True)]
    if k == "setkey":
        return [code("m.k = 1"), code("JSON.stringify(m)", True, False)]
    if k == "objassign":
        return [code("var u = Object.assign(m, o)"), code("JSON.stringify(m)", True, False)]
    raise ValueError(sh)


def shape_coq(sh):
    k = sh[0]
    names = {"each": b"ShEach", "attrs": b"ShAttrs", "json": b"ShJson", "keys": b"ShKeys", "forin": b"ShForIn",
             "keys_each": b"ShKeysEach", "assign_each": b"ShAssignEach", "push": b"ShPush", "sort": b"ShSort",
             "setkey": b"ShSetKey", "objassign": b"ShObjAssign"}
    if k == "var":
        return b"(Some (ShVar " + cq_bytes(sh[1]) + b"))"
    if k in ("free", "acc"):
        return b"None"
    return b"(Some " + names[k] + b")"


# ---- pug trees (tmpl.py tuple forms; only str / int / bool / None / lists inside, so that a tree
# ---- survives the JSON round trip of replays and corpus files unchanged)
def I(x):
    return ('id', x)


def D(e, *names):
    for n in names:
        e = ('dot', e, n)
    return e


def CALL(f, *args):
    return ('call', f, list(args))


def MC(obj, meth, *args):
    return CALL(D(obj, meth), *args)


def N(n):
    return ('num', n)


def S(x):
    return ('str', x)


def ASG(l, r):
    return ('expr', ('assign', l, r))


def VAR(x, e):
    return ('vars', [('var', x, e)])


def EX(e):
    return ('expr', e)


def t_stmt(st):
    """- <statement>"""
    return ('code', [st], True, False)


def t_print(e, esc=True, inline=False):
    """= e  /  != e"""
    return ('code', [('expr', e)], esc, inline)


def t_text(x):
    return ('text', x)


def t_each_kv(obj):
    return ('each', 'v', 'k', obj, [t_text("["), t_print(I('k'), True, True), t_text("="), t_print(I('v'), True, True),
                                    t_text("]")])


def t_tag(name, attrs=(), ablocks=(), body=()):
    return ('tag', name, False, [(a, v, True) for a, v in attrs], list(ablocks), list(body))


def t_if(test, body):
    return ('cond', test, list(body), None)


def JSONS(e):
    return MC(I('JSON'), 'stringify', e)


def OKEYS(e):
    return MC(I('Object'), 'keys', e)


def OASSIGN(*a):
    return MC(I('Object'), 'assign', *a)


# statements for the free-form mutation-heavy templates
# (no statement may close a reference cycle - items never refers to a map, m never to o, a literal never
#  to itself: printing a cyclic object recurses until the Go runtime kills the process with a stack overflow)
m_, o_, items_ = I('m'), I('o'), I('items')
FREE_STMTS = [
    EX(MC(items_, 'push', N(9))), EX(MC(items_, 'sort')), EX(MC(items_, 'pop')), EX(MC(items_, 'shift')),
    EX(MC(items_, 'unshift', S('u'))), VAR('sp', MC(items_, 'splice', N(1))), VAR('sl', MC(items_, 'slice', N(1))),
    ASG(D(m_, 'k'), N(1)), ASG(D(m_, 'a'), items_), ASG(D(o_, 'z'), items_), VAR('u', OASSIGN(m_, o_)),
    VAR('u2', OASSIGN(o_, m_)), VAR('ks', OKEYS(m_)), VAR('ko', OKEYS(o_)), ASG(D(m_, 'zz'), S('w')),
    VAR('g', ('obj', [('x', N(1)), ('y', items_)])), VAR('u3', OASSIGN(I('g'), m_)), EX(MC(items_, 'push', S('s'))),
    ASG(I('foo'), N(1)), VAR('foo', S('shadow')), ASG(I('title'), items_), ASG(D(o_, 'items'), items_),
    VAR('x', D(m_, 'a')), VAR('y', D(m_, 'attrs')), ASG(D(I('y'), 'q'), N(1)), VAR('tg', D(m_, 'tags')),
    EX(MC(I('tg'), 'sort')), EX(MC(I('tg'), 'push', S('t'))), VAR('it', D(m_, 'items')), EX(MC(I('it'), 'push', N(1))),
    EX(MC(I('it'), 'sort')), ASG(D(m_, 'name'), S('nn')), ASG(D(I('global'), 'c'), N(1)),
    ASG(D(I('global'), 'it'), items_),
    # objects and arrays created by literals, filled from the data
    VAR('e', ('obj', [])), VAR('e', ('obj', [])), VAR('l', ('arr', [])), ASG(D(I('e'), 'k'), D(m_, 'a')),
    ASG(('idx', I('e'), D(m_, 'name')), N(1)), ASG(('idx', I('e'), ('idx', items_, N(0))), S('i0')),
    ASG(D(I('e'), 'its'), items_), EX(MC(I('l'), 'push', D(o_, 'a'))), EX(MC(I('l'), 'push', D(items_, 'length'))),
    VAR('e2', OASSIGN(('obj', []), o_)), ASG(D(I('global'), 'e'), I('e')),
]
FREE_PRINTS = [
    t_print(JSONS(m_), False), t_print(JSONS(o_), False), t_print(JSONS(items_), False),
    t_print(MC(items_, 'join', S(','))), t_print(m_), t_print(o_), t_print(MC(OKEYS(m_), 'join', S(','))),
    t_print(I('foo')), t_print(I('title')), t_print(D(items_, 'length')), t_print(MC(OKEYS(o_), 'join', S('|'))),
    t_print(JSONS(I('e')), False), t_print(JSONS(I('l')), False), t_print(D(I('global'), 'c')),
    t_print(JSONS(I('e2')), False), t_print(D(I('e'), 'k')),
]


def free_nodes(rng):
    nodes = []
    for _ in range(rng.randint(1, 7)):
        r = rng.random()
        if r < 0.57:
            nodes.append(t_stmt(rng.choice(FREE_STMTS)))
        elif r < 0.77:
            nodes.append(rng.choice(FREE_PRINTS))
        elif r < 0.88:
            nodes.append(t_each_kv(rng.choice([m_, o_, I('e')])))
        elif r < 0.95:
            nodes.append(t_tag("p", attrs=[("x", S('1'))], ablocks=[rng.choice(["m", "o"])]))
        else:
            # a mixin definition and a call of it - or only one of the two: a call without a definition renders
            # nothing, whatever other templates and earlier renders have defined under that name
            names = rng.sample(["a", "b", "c", "d", "e", "f", "g"], rng.randint(2, 6))
            which = rng.random()
            if which < 0.75:
                body = [t_tag("i", ablocks=["attributes"])] if rng.random() < 0.7 else [t_text("M"), t_print(JSONS(m_), False)]
                nodes.append(('mixin', 'mx', [], body))
            if which > 0.25:
                nodes.append(('call', 'mx', [], [(a, S(str(i)), True) for i, a in enumerate(names)], []))
    for _ in range(rng.randint(1, 3)):
        nodes.append(rng.choice(FREE_PRINTS))
    # `e[i] = x` on a variable that is not set yet makes Go print the failed action as text (deterministic, but no
    # model covers it): most of the time the literal comes first
    first = [i for i, n in enumerate(nodes) if n[0] == 'code' and n[1][0][0] == 'expr' and n[1][0][1][0] == 'assign'
             and n[1][0][1][1][0] == 'idx']
    if first and rng.random() < 0.9:
        nodes.insert(rng.randint(0, first[0]), t_stmt(VAR('e', ('obj', []))))
    return nodes


# ---- acc: state built during one render.  Whatever such a template prints is determined by the literal it
# ---- starts from and by the data of THIS render; anything a render leaves behind in an object that a later
# ---- literal evaluates to, or in any other place that outlives the render, shows up here.
def acc_nodes(rng):
    acc = I('acc')
    r = rng.random()
    kind = 'map'
    if r < 0.45:
        lit = ('obj', [])
    elif r < 0.55:
        lit = ('obj', [('zz', N(1))])
    elif r < 0.62:
        lit = ('obj', [('a', S('x')), ('k', N(2))])
    elif r < 0.72:
        lit = OASSIGN(('obj', []), o_)
    elif r < 0.92:
        lit, kind = ('arr', []), 'arr'
    else:
        lit, kind = ('arr', [S('u')]), 'arr'
    nodes = [t_stmt(VAR('acc', lit))]
    if kind == 'map' and rng.random() < 0.2:
        # the per-render object every template starts with: $global
        acc, nodes = I('global'), []
    v, k = I('v'), I('k')
    for _ in range(rng.choice([1, 1, 1, 2])):
        src = rng.choice([items_, items_, m_, o_, OKEYS(m_)])
        body = []
        for _ in range(rng.choice([1, 1, 2])):
            if kind == 'map':
                # (pugjs cannot load `x[i] = y` with a bare identifier on the right: the right-hand sides are
                #  literals and compound expressions)
                st = rng.choice([ASG(('idx', acc, v), ('bool', True)), ASG(('idx', acc, v), ('bin', '+', k, S(''))),
                                 ASG(('idx', acc, k), ('arr', [v])), ASG(('idx', acc, k), ('cond', v, v, N(0))),
                                 ASG(('idx', acc, ('bin', '+', S('p'), v)), N(1)),
                                 ASG(('idx', acc, v), D(items_, 'length')), ASG(('idx', acc, v), N(1)),
                                 ASG(D(acc, 'last'), v)])
            else:
                st = rng.choice([EX(MC(acc, 'push', v)), EX(MC(acc, 'push', k)), EX(MC(acc, 'unshift', v)),
                                 EX(MC(acc, 'push', v))])
            if rng.random() < 0.25:
                test = rng.choice([v, ('bin', '==', v, S('a')), ('bin', '>', k, N(0)), ('un', '!', v)])
                body.append(t_if(test, [t_stmt(st)]))
            else:
                body.append(t_stmt(st))
        nodes.append(('each', 'v', 'k', src, body))
    if rng.random() < 0.4:
        test = rng.choice([I('foo'), I('title'), I('n'), I('count'), D(m_, 'a'), D(items_, 'length'), D(o_, 'k'),
                           ('bin', '>', D(items_, 'length'), N(2))])
        st = ASG(D(acc, 'flag'), N(1)) if kind == 'map' else EX(MC(acc, 'push', S('f')))
        nodes.append(t_if(test, [t_stmt(st)]))
    if rng.random() < 0.2:
        nodes.append(t_stmt(VAR('b', ('obj', []))))
        nodes.append(t_stmt(ASG(D(I('b'), 'inner'), acc)))
        nodes.append(t_print(JSONS(I('b')), False))
    if kind == 'map':
        prints = [t_each_kv(acc), t_print(JSONS(acc), False), t_print(MC(OKEYS(acc), 'join', S(','))),
                  t_print(D(acc, 'zz')), t_print(D(acc, 'flag')), t_print(D(acc, 'a')), t_print(acc),
                  t_each_kv(acc), t_print(JSONS(acc), False)]
    else:
        prints = [t_print(MC(acc, 'join', S(','))), t_print(JSONS(acc), False), t_print(D(acc, 'length')),
                  t_each_kv(acc), t_print(JSONS(acc), False)]
    for p_ in rng.sample(prints, rng.randint(1, 3)):
        nodes.append(p_)
    return nodes


SHAPES = ["each", "attrs", "json", "keys", "forin", "var", "keys_each", "assign_each", "push", "sort", "setkey",
          "objassign"]
TREE_FAMILIES = ("acc", "free")


def ast(nodes):
    return json.dumps(block(nodes)).encode()


def tpl_ast(entry):
    """pug AST JSON nodes of a stored template"""
    if isinstance(entry, dict):
        return [tmpl.pug_json(n) for n in entry["tree"]]
    return entry


def tpl_tree(entry):
    return entry["tree"] if isinstance(entry, dict) else None


def top_names(data):
    d = data[1] if data[0] == 'ptr' else data
    return [k for k, _ in d[1]]


def g_other(rng):
    r = rng.random()
    if r < 0.4:
        return {"tree": acc_nodes(rng)}
    if r < 0.8:
        return {"tree": free_nodes(rng)}
    return shape_nodes((rng.choice(["each", "attrs", "json", "keys_each", "assign_each", "push", "sort", "setkey",
                                    "objassign"]),))


def g_history(rng, tier, data, others, stateful):
    """the renders that happen in the process between the first and the later renders of the pair: other
    templates and the SAME template with OTHER data, each on any of the process' three engine instances"""
    r = rng.random()
    if stateful:
        n = 0 if r < 0.1 else rng.randint(1, 4) if r < 0.78 else rng.randint(5, 12) if r < 0.95 else \
            rng.randint(15, 25 if tier == "quick" else 60)
    else:
        n = 0 if (r < 0.3 or not others and r < 0.5) else rng.randint(1, 4) if r < 0.95 else rng.randint(5, 12)
    hist = []
    for _ in range(n):
        name = "t" if (not others or rng.random() < (0.5 if stateful else 0.25)) else rng.choice(sorted(others))
        pdata = data if rng.random() < (0.2 if stateful else 0.5) else g_data(rng, tier)
        hist.append({"render": name, "data": pdata, "on": rng.randint(0, 2)})
    return hist


def g_case(rng, tier):
    data = g_data(rng, tier)
    r = rng.random()
    if r < 0.52:
        k = rng.choice(SHAPES)
        if k == "var":
            names = top_names(data)
            x = rng.choice(names)
            if rng.random() < 0.5:
                x = x[:1].lower() + x[1:]
            sh = ("var", x)
        else:
            sh = (k,)
        entry = shape_nodes(sh)
    elif r < 0.80:
        sh = ("acc",)
        entry = {"tree": acc_nodes(rng)}
    else:
        sh = ("free",)
        entry = {"tree": free_nodes(rng)}
    if sh[0] in TREE_FAMILIES and rng.random() < 0.85:
        data = lower_nested(data)
    files = {"t": entry}
    # other templates for the history renders: state-building, mutation-heavy and key-caching ones over the same names
    others = {}
    for i in range(rng.randint(0, 3)):
        others["p%d" % i] = g_other(rng)
    prefix = g_history(rng, tier, data, others, sh[0] in TREE_FAMILIES)
    files.update(others)
    return {"shape": list(sh), "nodes": files, "data": data, "prefix": prefix}


def to_harness(case):
    return {"files": {hx(n): hx(ast(tpl_ast(v))) for n, v in case["nodes"].items()}, "render": hx("t"),
            "data": d_go(tuplify(case["data"])), "single": False, "fresh": FRESH_PROCESSES,
            "prefix": [{"render": hx(p["render"]), "data": d_go(tuplify(p["data"])), "on": p.get("on", 2)}
                       for p in case["prefix"]]}


def tuplify(v):
    """cases travel through JSON in replays/corpus: bring lists back to the tuple form"""
    if isinstance(v, tuple):
        v = list(v)
    t = v[0]
    if t == 'nil':
        return ('nil',)
    if t in ('bool', 'int'):
        return (t, v[1])
    if t == 'str':
        return ('str', tob(v[1]))
    if t == 'arr':
        return ('arr', [tuplify(x) for x in v[1]])
    if t == 'strs':
        return ('strs', [tob(x) for x in v[1]])
    if t == 'ints':
        return ('ints', list(v[1]))
    if t == 'map':
        return ('map', [(k, tuplify(x)) for k, x in v[1]])
    if t == 'smap':
        return ('smap', [(k, tob(x)) for k, x in v[1]])
    if t == 'imap':
        return ('imap', [(k, x) for k, x in v[1]])
    if t == 'nmap':
        return ('nmap', [(k, tob(x)) for k, x in v[1]])
    if t in ('rec', 'prec'):
        return (t, {k: tuplify(x) for k, x in v[1].items()})
    if t == 'ptr':
        return ('ptr', tuplify(v[1]))
    raise ValueError(v)


def tob(x):
    if isinstance(x, bytes):
        return x
    if isinstance(x, dict):          # {"hex": ...} form used in JSON files
        return unhx(x["hex"])
    return x.encode('utf-8')


def jsonable(v):
    """tuple form -> JSON-friendly form (bytes as {"hex":..}) for replays and corpus"""
    t = v[0]
    hb = lambda b_: {"hex": hx(b_)}
    if t == 'nil':
        return ['nil']
    if t in ('bool', 'int'):
        return [t, v[1]]
    if t == 'str':
        return ['str', hb(v[1])]
    if t == 'arr':
        return ['arr', [jsonable(x) for x in v[1]]]
    if t == 'strs':
        return ['strs', [hb(x) for x in v[1]]]
    if t == 'ints':
        return ['ints', list(v[1])]
    if t == 'map':
        return ['map', [[k, jsonable(x)] for k, x in v[1]]]
    if t == 'smap':
        return ['smap', [[k, hb(x)] for k, x in v[1]]]
    if t == 'imap':
        return ['imap', [[k, x] for k, x in v[1]]]
    if t == 'nmap':
        return ['nmap', [[k, hb(x)] for k, x in v[1]]]
    if t in ('rec', 'prec'):
        return [t, {k: jsonable(x) for k, x in v[1].items()}]
    if t == 'ptr':
        return ['ptr', jsonable(v[1])]
    raise ValueError(v)


def case_json(case):
    c = {"shape": case["shape"], "nodes": case["nodes"], "data": jsonable(tuplify(case["data"])),
         "prefix": [{"render": p["render"], "data": jsonable(tuplify(p["data"])), "on": p.get("on", 2)}
                    for p in case["prefix"]]}
    return json.loads(json.dumps(c))      # exactly what a replay file holds (tuples become lists)


def shrink_tree(nodes):
    """smaller pug trees: drop a top-level node, unwrap / thin out the body of an each or a conditional"""
    for i in range(len(nodes)):
        yield nodes[:i] + nodes[i + 1:]
    for i, n in enumerate(nodes):
        if n[0] == 'each':
            body = n[4]
            for j in range(len(body)):
                if len(body) > 1:
                    yield nodes[:i] + [list(n[:4]) + [body[:j] + body[j + 1:]]] + nodes[i + 1:]
            for j, x in enumerate(body):
                if x[0] == 'cond':
                    yield nodes[:i] + [list(n[:4]) + [body[:j] + list(x[2]) + body[j + 1:]]] + nodes[i + 1:]
        elif n[0] == 'cond':
            yield nodes[:i] + list(n[2]) + nodes[i + 1:]


class C07(Prop):
    id = "C07"
    engine = "C07"
    judge_module = "Run.Judge_C07"
    prop_module = "Props.C07"
    prop_file = "Props/C07.v"
    coq_targets = ["Props/C07.vo", "Run/Judge_C07.vo"]
    sizes = {"quick": 300, "thorough": 5000}
    shard = 100
    design_ref = "DESIGN.md section 6 C07, section 7 F-C05-c / F-C07-b"
    rule = ("(template, data) pairs. Templates: 52% one of 12 order-sensitive shapes modelled by Models/Purity.v (each k,v / "
            "&attributes / JSON.stringify / Object.keys / for-in / top-level name / Object.keys then each / Object.assign "
            "into an ordered literal then each / push / sort / x.k = v / Object.assign); 28% 'acc' = state built during "
            "the render: an object or array created by a literal ({} / {zz: 1} / {a: 'x', k: 2} / Object.assign({}, o) / "
            "[] / ['u'], or - 14% of acc - the $global object every render starts with) is filled inside 1-2 each-loops over items / m / o / Object.keys(m) (acc[v] = true, acc[v] = k + '', "
            "acc[k] = [v], acc[k] = v ? v : 0, acc['p' + v] = 1, acc.last = v, acc.push(v), acc.unshift(v), 25% under a "
            "condition on v or k) and under a condition on the data, optionally "
            "nested into a second literal, then enumerated (each k,v), serialised (JSON.stringify, String()), listed "
            "(Object.keys / join / length) or read at keys the render may not have set (acc.zz, acc.flag, acc.a); 20% "
            "'free' statement lists (push, pop, shift, unshift, sort, splice, slice, member and index assignment, "
            "Object.assign, literals {} [] filled from the data, $global, variable shadowing, mixin attributes). acc and "
            "free are pug trees judged by the oracle and predicted by the executor model (Pug.Compile + Tmpl.Exec; it "
            "declines use-before-definition, execution errors and data in which two key names differ only in the case "
            "of the first letter - for 85% of the acc/free cases the keys below the top level are lower-cased). "
            "Data: Go map[string]interface{}, map[string]string, map[string]int, map[int]string, []interface{}, "
            "[]string, []int, structs, pointers to structs, slices and maps, 0-48 keys (more than 8: several hash "
            "buckets), first-letter case collisions among keys (Foo/foo, A/a, Key/key). Every case runs in 4 processes "
            "of its own (the harness re-executes itself per case: nothing is shared between cases, a replay is "
            "self-contained): process 1 renders the pair 6 times - r0 as the first render of the process' life, r1 again "
            "on the same engine, r2 on a second engine instance, then the HISTORY, r3 on a third engine, r4 with freshly "
            "built equal data on the first engine, r5 on an engine created only then; processes 2-4 render the pair "
            "exactly once. HISTORY = 0-60 renders (acc/free: 10% none, 68% 1-4, 17% 5-12, 5% 15-25 quick / 15-60 "
            "thorough; shapes: 0-12) of the same template with OTHER data (acc/free: half of the entries, 80% of those "
            "with fresh random data) or of 0-3 other templates (40% acc, 40% free, 20% shapes) over the same variable "
            "names, each on a randomly chosen one of the three engine instances. A process the Go runtime kills (stack "
            "exhaustion on a self-referential object, ...) is observed as class 'crash' for each of its renders. non-trivial = acc / free / mutating "
            "shape, or the rendered map-like value has at least 2 keys; distinct by SHA-1 of the case")
    trusted = [
        "the Go map iteration oracle pi of the theorems is an arbitrary function returning a permutation of the "
        "entries it is given (Section hypothesis perm_oracle); the runtime's real iteration orders are sampled by "
        "the correspondence check (9 renders per case, 4 processes)",
        "Template.execute / state.walk enter the history theorems as Section variables (new_exec, run_exec, output: "
        "arbitrary functions of the template and the converted data ALONE); that a render reads nothing else - no "
        "engine field, no package-level variable, pool or cache written by an earlier render in the process - is not "
        "proved but checked by the correspondence renders: r0 (nothing rendered before in the process) and the three "
        "single-render processes against r1..r5 (after renders of the same and other templates with the same and "
        "other data on the same and other engine instances), on templates whose output exposes per-render state "
        "(objects built from literals, $global, variables, mixin attributes)",
        "the executor model Pug.Compile + Tmpl.Exec (shared with C01-C06) predicts the acc / free templates from the "
        "template and the data alone; it starts every render from a heap holding only the converted data and an "
        "empty $global, and every literal allocates a new heap cell; `x[i] = e` is run as the call x.__assign(i, e) "
        "(the action text pugjs emits for both, Run/Judge_C07.v rw_node); its panics are not used as predictions",
        "reflect.DeepEqual against a second, independently built copy of the data is the harness's oracle for "
        "'input untouched'",
        "lowerFirst is modelled on an ASCII first byte (generators use ASCII first letters)",
        "process isolation: the harness binary re-executes itself (os/exec) once per case and per single render",
    ]
    assumptions = ["perm_oracle pi: every map range visits each entry exactly once, in some order",
                   "a render's execution state is a function of (template, converted data) - Section variables "
                   "new_exec / run_exec / output of C07_history_independent, C07_engine_independent, "
                   "C07_process_history_independent; sampled, not proved (see trusted)"]
    not_yet_proved = [
        "that the Go executor keeps no state between renders (package-level variables, pools, caches) is outside "
        "the Coq development: the theorems quantify over an executor that is a function of template and data; the "
        "correspondence check samples it with histories of up to 60 renders per case",
        "concurrent renders (two goroutines rendering at the same time) are not part of this check",
    ]

    def generate(self, rng, n, tier):
        return [case_json(g_case(rng, tier)) for _ in range(n)]

    # the harness gives every case processes of its own: 1 full sequence + FRESH_PROCESSES single renders
    def run(self, binary, cases, tmp, tier):
        obss = run_harness(binary, self.engine, [to_harness(c) for c in cases])
        for i, o in enumerate(obss):
            if o["load"] != "ok":
                raise BuildError("generated template does not load (case %d)" % i,
                                 json.dumps(cases[i])[:3000] + "\n" + o.get("msg", ""))
            if len(o["r"]) != FULL_RENDERS or len(o["fresh"]) != FRESH_PROCESSES:
                raise BuildError("harness returned %d+%d renders (case %d)" % (len(o["r"]), len(o["fresh"]), i), "")
        return obss

    @staticmethod
    def outs(obs):
        return list(obs["r"]) + list(obs["fresh"])

    def emit(self, case, obs):
        outs = [cq_opt(cq_bytes(unhx(r["out"]))) if r["class"] == "ok" else b"None" for r in self.outs(obs)]
        untouched = obs["untouched"] and obs["prefix_untouched"] and obs["fresh_untouched"]
        tree = tpl_tree(case["nodes"]["t"])
        return (b"{| c_shape := " + shape_coq(tuple(case["shape"])) +
                b"; c_tmpl := " + cq_opt(None if tree is None else cq_list([tmpl.pug_coq(n) for n in tree])) +
                b"; c_data := " + d_coq(tuplify(case["data"])) +
                b"; c_outs := " + cq_list(outs) + b"; c_untouched := " + cq_bool(untouched) + b" |}")

    def nontrivial(self, case, obs):
        d = tuplify(case["data"])
        if d[0] == 'ptr':
            d = d[1]
        m = dict(d[1]).get("m")
        if case["shape"][0] in ("free", "acc", "push", "sort", "setkey", "objassign", "assign_each"):
            return True
        if m is None:
            return False
        if m[0] == 'ptr':
            m = m[1]
        return m[0] in ('rec', 'prec') or len(m[1]) >= 2

    def sample(self, case, obs):
        outs = self.outs(obs)
        return {"shape": case["shape"], "template": tpl_ast(case["nodes"]["t"]), "data": d_plain(tuplify(case["data"])),
                "history": [{"render": p["render"], "engine": p.get("on", 2),
                             "data": "same" if p["data"] == case["data"] else "other"} for p in case["prefix"]],
                "go_outputs_distinct": len({(r["class"], r["out"]) for r in outs}), "renders": len(outs),
                "go_output": unhx(outs[0]["out"]).decode("utf-8", "replace")[:300] if outs[0]["class"] == "ok" else outs[0]["class"],
                "data_untouched": obs["untouched"] and obs["prefix_untouched"] and obs["fresh_untouched"]}

    def shrink(self, case):
        # shorter history, fewer other templates, smaller template, fewer top-level keys, fewer entries of m / o
        n = len(case["prefix"])
        if n > 4:
            for c_ in (case["prefix"][:n // 2], case["prefix"][n // 2:]):
                c = dict(case)
                c["prefix"] = c_
                yield c
        for i in range(n):
            c = dict(case)
            c["prefix"] = case["prefix"][:i] + case["prefix"][i + 1:]
            yield c
        used = {p["render"] for p in case["prefix"]} | {"t"}
        for n_ in case["nodes"]:
            if n_ not in used:
                c = dict(case)
                c["nodes"] = {a: b_ for a, b_ in case["nodes"].items() if a != n_}
                yield c
        for name in sorted(used):
            entry = case["nodes"].get(name)
            tree = tpl_tree(entry) if entry is not None else None
            if tree is not None and len(tree) > 1:
                for cand in shrink_tree(tree):
                    c = dict(case)
                    c["nodes"] = dict(case["nodes"])
                    c["nodes"][name] = {"tree": cand}
                    yield c
            elif name == "t" and case["shape"][0] == "free" and entry is not None and len(entry) > 1:
                for i in range(len(entry)):
                    c = dict(case)
                    c["nodes"] = dict(case["nodes"])
                    c["nodes"]["t"] = entry[:i] + entry[i + 1:]
                    yield c
        # the data of a history render: the pair's own data instead of other data is simpler
        d = case["data"]
        inner = d[1] if d[0] == 'ptr' else d
        wrap = (lambda x: ['ptr', x]) if d[0] == 'ptr' else (lambda x: x)
        if d[0] == 'ptr':
            c = dict(case)
            c["data"] = inner
            yield c
        top = inner[1]
        for i, (k, v) in enumerate(top):
            if k not in ("m", "o", "items"):
                c = dict(case)
                c["data"] = wrap(['map', top[:i] + top[i + 1:]])
                yield c
        for i, (k, v) in enumerate(top):
            if v[0] in ('map', 'smap', 'imap', 'nmap') and len(v[1]) > 0:
                for j in range(len(v[1])):
                    c = dict(case)
                    c["data"] = wrap(['map', top[:i] + [[k, [v[0], v[1][:j] + v[1][j + 1:]]]] + top[i + 1:]])
                    yield c
            elif v[0] in ('arr', 'strs', 'ints') and len(v[1]) > 0:
                for j in range(len(v[1])):
                    c = dict(case)
                    c["data"] = wrap(['map', top[:i] + [[k, [v[0], v[1][:j] + v[1][j + 1:]]]] + top[i + 1:]])
                    yield c
        # smaller data in the history renders
        for pi_, p in enumerate(case["prefix"]):
            pd = p["data"]
            if pd[0] != 'map':
                continue
            ptop = pd[1]
            for i, (k, v) in enumerate(ptop):
                cand = None
                if k not in ("m", "o", "items"):
                    cand = ptop[:i] + ptop[i + 1:]
                elif v[0] in ('map', 'smap', 'imap', 'nmap', 'arr', 'strs', 'ints') and len(v[1]) > 1:
                    cand = ptop[:i] + [[k, [v[0], v[1][:len(v[1]) // 2]]]] + ptop[i + 1:]
                if cand is not None:
                    c = dict(case)
                    c["prefix"] = list(case["prefix"])
                    c["prefix"][pi_] = dict(p, data=['map', cand])
                    yield c

    def model_expr(self):
        return "(model07 c, oracle07 c, dom_data (c_data c), c_outs c)"

    def distribution(self, cases, obss):
        d = {"shape": {}, "m_kind": {}, "m_keys": {"0-1": 0, "2-8": 0, "9+": 0}, "data_kinds": {},
             "with_history": 0, "history_renders": 0, "history_len": {"0": 0, "1-4": 0, "5-12": 0, "13+": 0},
             "history_same_template_other_data": 0, "history_other_engine": 0,
             "state_building_templates_with_history_of_same_template_other_data": 0,
             "go_exec_error": 0, "first_letter_collisions": 0,
             "renders_per_case": FULL_RENDERS + FRESH_PROCESSES, "processes_per_case": 1 + FRESH_PROCESSES}
        for c, o in zip(cases, obss):
            d["shape"][c["shape"][0]] = d["shape"].get(c["shape"][0], 0) + 1
            data = tuplify(c["data"])
            for k in d_kinds(data, set()):
                d["data_kinds"][k] = d["data_kinds"].get(k, 0) + 1
            inner = data[1] if data[0] == 'ptr' else data
            names = [k for k, _ in inner[1]]
            m = dict(inner[1]).get("m")
            if m is not None:
                mm = m[1] if m[0] == 'ptr' else m
                d["m_kind"][m[0]] = d["m_kind"].get(m[0], 0) + 1
                n = len(mm[1])
                d["m_keys"]["0-1" if n < 2 else "2-8" if n <= 8 else "9+"] += 1
                if mm[0] in ('map', 'smap', 'imap'):
                    names = names + ["m." + k for k, _ in mm[1]]
            folded = [(x.rsplit(".", 1)[0] if "." in x else "", (x.rsplit(".", 1)[-1][:1].lower() + x.rsplit(".", 1)[-1][1:]))
                      for x in names]
            d["first_letter_collisions"] += len(folded) != len(set(folded))
            h = c["prefix"]
            d["with_history"] += bool(h)
            d["history_renders"] += len(h)
            d["history_len"]["0" if not h else "1-4" if len(h) <= 4 else "5-12" if len(h) <= 12 else "13+"] += 1
            same_other = any(p["render"] == "t" and p["data"] != c["data"] for p in h)
            d["history_same_template_other_data"] += same_other
            d["history_other_engine"] += any(p.get("on", 2) != 2 for p in h)
            d["state_building_templates_with_history_of_same_template_other_data"] += (
                same_other and c["shape"][0] in TREE_FAMILIES)
            d["go_exec_error"] += any(r["class"] != "ok" for r in self.outs(o))
        return d


PROP = C07()
