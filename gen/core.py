# Shared driver half of the template-pipeline properties (C01-C04, C06, C13): TC runner cases, caseC emitter.
import json
import tmpl
import tgen
import subprocess
from common import Prop, cq_bytes, cq_list, cq_bool, cq_nat, cq_opt, cq_pair, unhx, hx, run_harness, BuildError

FUNCS = (b"Math", b"JSON", b"Object", b"stripTags", b"parseInt")
CLS = {"ok": 0, "exec_panic": 1}


def tc_case(nodes, datas, debug=False, rng=None):
    return {"files": {hx("t"): hx(tmpl.pug_file(nodes, rng))}, "render": hx("t"),
            "datas": [tmpl.data_go(d) for d in datas], "debug": debug}


def obsm_coq(m, ndatas):
    loaded = m.get("load") == "ok"
    res = m.get("res") or []
    return (b"{| o_loaded := " + cq_bool(loaded) + b"; o_code := " + cq_bytes(unhx(m.get("code", "")))
            + b"; o_res := " + cq_list([cq_pair(cq_nat(CLS.get(r.get("class", ""), 2)), cq_bytes(unhx(r.get("out", ""))))
                                        for r in res]) + b" |}")


class CoreProp(Prop):
    engine = "TC"
    judge_module = "Run.Judge_Core"
    debug_mode = False
    shard = 150

    # a case is {"nodes": <pug tuples as JSON-able lists>, "datas": [...], ...}; tuples are kept in Python form
    # inside the run and serialised with `ser` for replays/corpus.
    def harness_case(self, case):
        nodes, datas = de(case["nodes"]), [de(d) for d in case["datas"]]
        return tc_case(nodes, datas, debug=self.debug_mode)

    def run(self, binary, cases, tmp, tier):
        return self.run_hc(binary, [self.harness_case(c) for c in cases])

    def run_hc(self, binary, hcs):
        """the whole batch in one harness process; when that process dies (a fatal Go runtime error such as stack
        exhaustion cannot be recovered), bisect to the cases that kill it and report those as 'crash' observations"""
        if not hcs:
            return []
        try:
            return run_harness(binary, self.engine, hcs, timeout=600)
        except (BuildError, subprocess.TimeoutExpired):
            if len(hcs) == 1:
                return [{"prod": {"load": "crash", "code": "", "res": []}, "debug": None}]
            mid = len(hcs) // 2
            return self.run_hc(binary, hcs[:mid]) + self.run_hc(binary, hcs[mid:])

    def emit(self, case, obs):
        nodes, datas = de(case["nodes"]), [de(d) for d in case["datas"]]
        return (b"{| c_nodes := " + cq_list([tmpl.pug_coq(n) for n in nodes])
                + b"; c_datas := " + cq_list([tmpl.data_coq(d) for d in datas])
                + b"; c_funcs := " + cq_list([cq_bytes(f) for f in FUNCS])
                + b"; c_prod := " + obsm_coq(obs["prod"], len(datas))
                + b"; c_debug := " + cq_opt(obsm_coq(obs["debug"], len(datas)) if obs.get("debug") else None) + b" |}")

    def sample(self, case, obs):
        nodes = de(case["nodes"])
        return {"pug_ast": json.loads(tmpl.pug_file(nodes).decode("utf-8", "replace")),
                "data": [tmpl.data_plain(de(d)) for d in case["datas"]][:2],
                "emitted_template": unhx(obs["prod"].get("code", "")).decode("utf-8", "replace")[:600],
                "go_output": [unhx(r.get("out", "")).decode("utf-8", "replace")[:300] if r.get("class") == "ok" else r.get("class")
                              for r in (obs["prod"].get("res") or [])][:2]}

    def model_expr(self):
        return ("(match model_toks false c with Some ts => Some (string_of_list_ascii (show_toks ts)) | None => None end, "
                "map (fun d => (match model_out false c d with OOk o => (0, string_of_list_ascii o) | OPanic => (1, EmptyString) "
                "| OUnmod => (3, EmptyString) | OFuel => (4, EmptyString) end, "
                "match spec_out c d with Spec.Sem.SOut o f => (0, string_of_list_ascii o, f) | Spec.Sem.SError f => (1, EmptyString, f) "
                "| Spec.Sem.SOffDomain => (2, EmptyString, []) | Spec.Sem.SNoFuel => (4, EmptyString, []) end)) (c_datas c))")

    def shrink(self, case):
        nodes = de(case["nodes"])
        out = []
        for cand in shrink_nodes(nodes):
            out.append(dict(case, nodes=ser(cand)))
        if len(case["datas"]) > 1 and not getattr(self, "keep_datas", False):
            for i in range(len(case["datas"])):
                out.append(dict(case, datas=case["datas"][:i] + case["datas"][i + 1:]))
        return out

    def distribution(self, cases, obss):
        kinds = {}
        classes = {}
        for c, o in zip(cases, obss):
            tgen.node_kinds(de(c["nodes"]), kinds)
            for r in (o["prod"].get("res") or [{"class": "load:" + o["prod"].get("load", "?")}]):
                classes[r.get("class")] = classes.get(r.get("class"), 0) + 1
        return {"node_kinds": kinds, "go_outcome_classes": classes}


# ---- (de)serialisation of the Python tuple forms into JSON-able values (bytes -> {"b": hex}) ----
def ser(x):
    if isinstance(x, bytes):
        return {"b": x.hex()}
    if isinstance(x, tuple):
        return {"t": [ser(y) for y in x]}
    if isinstance(x, list):
        return [ser(y) for y in x]
    if isinstance(x, dict):
        return {"d": [[ser(k), ser(v)] for k, v in x.items()]}
    return x


def de(x):
    if isinstance(x, dict):
        if "b" in x:
            return bytes.fromhex(x["b"])
        if "t" in x:
            return tuple(de(y) for y in x["t"])
        if "d" in x:
            return {de(k): de(v) for k, v in x["d"]}
    if isinstance(x, list):
        return [de(y) for y in x]
    return x


# ---- shrinking pug trees ------------------------------------------------------------------------
def shrink_expr(e):
    """smaller expressions: sub-expressions of the same node, literals"""
    if not isinstance(e, tuple):
        return
    k = e[0]
    if k in ('bin',):
        yield e[2]
        yield e[3]
        for s in shrink_expr(e[2]):
            yield (k, e[1], s, e[3])
        for s in shrink_expr(e[3]):
            yield (k, e[1], e[2], s)
    elif k == 'un':
        yield e[2]
        for s in shrink_expr(e[2]):
            yield (k, e[1], s)
    elif k == 'cond':
        yield e[2]
        yield e[3]
        for i in (1, 2, 3):
            for s in shrink_expr(e[i]):
                yield e[:i] + (s,) + e[i + 1:]
    elif k == 'call':
        for i, a in enumerate(e[2]):
            for s in shrink_expr(a):
                yield (k, e[1], e[2][:i] + [s] + e[2][i + 1:])
        if e[1][0] == 'dot':
            for s in shrink_expr(e[1][1]):
                yield (k, ('dot', s, e[1][2]), e[2])
    elif k == 'arr':
        for i in range(len(e[1])):
            yield (k, e[1][:i] + e[1][i + 1:])
        for i, a in enumerate(e[1]):
            for s in shrink_expr(a):
                yield (k, e[1][:i] + [s] + e[1][i + 1:])
    elif k in ('dot', 'idx'):
        for s in shrink_expr(e[1]):
            yield (k, s) + e[2:]


def shrink_node(n):
    k = n[0]
    if k == 'tag':
        for b in shrink_nodes(n[5]):
            yield n[:5] + (b,)
    elif k == 'code':
        st = n[1]
        if len(st) == 1 and st[0][0] == 'expr':
            for s in shrink_expr(st[0][1]):
                yield (k, [('expr', s)]) + n[2:]
        if len(st) == 1 and st[0][0] == 'vars' and st[0][1][0][2] is not None:
            d = st[0][1][0]
            for s in shrink_expr(d[2]):
                yield (k, [('vars', [('var', d[1], s)])]) + n[2:]
    elif k == 'cond':
        for s in shrink_expr(n[1]):
            yield (k, s, n[2], n[3])
        for b in shrink_nodes(n[2]):
            yield (k, n[1], b, n[3])
        if n[3] is not None:
            yield (k, n[1], n[2], None)
            for a in shrink_node(n[3]):
                yield (k, n[1], n[2], a)
    elif k == 'block':
        for b in shrink_nodes(n[1]):
            yield (k, b)
    elif k == 'case':
        for i in range(len(n[2])):
            if len(n[2]) > 1:
                yield (k, n[1], n[2][:i] + n[2][i + 1:])
        for i, (w, body) in enumerate(n[2]):
            for b in shrink_nodes(body):
                yield (k, n[1], n[2][:i] + [(w, b)] + n[2][i + 1:])
    elif k in ('each',):
        for b in shrink_nodes(n[4]):
            yield n[:4] + (b,)
        for s in shrink_expr(n[3]):
            yield n[:3] + (s, n[4])
    elif k == 'while':
        for b in shrink_nodes(n[2]):
            yield (k, n[1], b)
    elif k == 'mixin':
        for b in shrink_nodes(n[3]):
            yield n[:3] + (b,)
    elif k == 'call':
        for b in shrink_nodes(n[4]):
            yield n[:4] + (b,)
        for i in range(len(n[2])):
            yield (k, n[1], n[2][:i] + n[2][i + 1:], n[3], n[4])


def shrink_nodes(nodes):
    """candidates: drop one node; replace a node by its children; shrink inside a node"""
    for i in range(len(nodes)):
        yield nodes[:i] + nodes[i + 1:]
    for i, n in enumerate(nodes):
        kids = None
        if n[0] == 'tag':
            kids = n[5]
        elif n[0] == 'cond':
            kids = n[2]
        elif n[0] in ('each',):
            kids = None
        if kids:
            yield nodes[:i] + kids + nodes[i + 1:]
    for i, n in enumerate(nodes):
        for s in shrink_node(n):
            yield nodes[:i] + [s] + nodes[i + 1:]
