# C11 — Go data reachable from templates by lower-camel paths; absent data prints nothing.
#
# A case = one Go data value (a typed tree the harness builds with reflect: reflect.StructOf for dynamically
# shaped structs, a fixed family of hand-written types for unexported fields / methods / embedded pointers /
# named interfaces) + a list of paths, each rendered as `= path` or `!= path`.
#
# Python keeps an abstract tree (dict nodes); from it come (a) the harness JSON, (b) the Gallina `gv` term,
# (c) the walk used to enumerate paths.  Nothing is judged here.
import copy
import json
from common import *

# ------------------------------------------------------------------ abstract nodes
# {"k":"nil"}  {"k":"str","v":bytes}  {"k":"int","kind":"int8",..,"v":n}  {"k":"float","v":n}  {"k":"bool","v":b}
# {"k":"slice","et":T,"v":None|[node]}  {"k":"map","et":T,"v":None|[(key bytes,node)]}  {"k":"ptr","t":T,"v":None|node}
# {"k":"iface","named":bool,"v":None|node}  {"k":"dstruct","f":[(Name,node)]}  {"k":"func","r":bytes}  {"k":"chan"}
# {"k":"Item"|"Base"|"Emb"|"EmbV","f":{Field:node}}
# types T: "iface" "Labeler" "str" "bool" "int".. "float64" "func" "chan" "Item".. {"slice":T} {"map":T} {"ptr":T} {"struct":[[name,T]]}

INT_KINDS = ["int", "int8", "int16", "int32", "int64", "uint", "uint8", "uint16", "uint32", "uint64"]
INT_RANGE = {"int": (-2**40, 2**40), "int8": (-128, 127), "int16": (-2**15, 2**15 - 1), "int32": (-2**31, 2**31 - 1),
             "int64": (-2**40, 2**40), "uint": (0, 2**40), "uint8": (0, 255), "uint16": (0, 2**16 - 1),
             "uint32": (0, 2**32 - 1), "uint64": (0, 2**40)}

FIELD_NAMES = ["Name", "Title", "Count", "ValID", "URL", "ApiKey", "ID", "Items", "Meta", "Next", "Owner", "X", "Y",
               "Url", "UserID", "Price", "IsOn", "A1", "Html", "Label", "Kids", "Valid", "Id"]
MAP_KEYS = [b"name", b"title", b"count", b"valID", b"items", b"meta", b"k1", b"k2", b"x", b"y", b"Foo", b"foo", b"Name",
            b"URL", b"url", b"a-b", b"with space", b"\xc3\xbcn\xc3\xaf", b"0", b"user_id", b"id", b"ID", b"api", b"apiKey",
            b"valid", b"Title", b"q'q", b"<b>", b"Xy", b"xy", b"userID", b"userid", b"label", b"_u", b"A", b"a"]
STRINGS = [b"", b"v", b"hello", b"<b>&\"'", b"a b", b"\xc3\xa9t\xc3\xa9", b"0", b"true", b"x>y", b"it's", b"line\nbreak", b"{{x}}", b"%d",
           b"\xff\xfe<", b"&amp;", b"<func() string Value>", b"null", b"-7", b" lead", b"\x00z"]
ABSENT_NAMES = [b"missing", b"zz", b"nope", b"hidden", b"secret", b"q", b"other", b"x1", b"valid", b"name", b"id", b"len", b"Length"]

SIG = {"Label": b"func() string", "Double": b"func() int", "TagList": b"func() []string", "Total": b"func() int",
       "Follow": b"func() *main.C11Item", "IsBig": b"func() bool", "BaseNote": b"func() string"}


def S(s):
    return {"k": "str", "v": s}


def I(n, kind="int"):
    return {"k": "int", "kind": kind, "v": n}


def ident_ok(k):
    if not k or not (k[:1].isalpha() or k[:1] == b"_") or not k.isascii():
        return False
    return all(chr(c).isalnum() or c == 95 for c in k)


def lower_first(s):
    if s and 65 <= s[0] <= 90:
        return bytes([s[0] + 32]) + s[1:]
    return s


def upper_first(s):
    if s and 97 <= s[0] <= 122:
        return bytes([s[0] - 32]) + s[1:]
    return s


# ------------------------------------------------------------------ types of nodes (for the harness)

def ty(n):
    k = n["k"]
    if k == "str":
        return "str"
    if k == "int":
        return n["kind"]
    if k == "float":
        return "float64"
    if k == "bool":
        return "bool"
    if k == "slice":
        return {"slice": n["et"]}
    if k == "map":
        return {"map": n["et"]}
    if k == "ptr":
        return {"ptr": n["t"]}
    if k == "iface" or k == "nil":
        return "Labeler" if n.get("named") else "iface"
    if k == "dstruct":
        return {"struct": [[nm, ty(v)] for nm, v in n["f"]]}
    if k in ("func", "chan", "Item", "Base", "Emb", "EmbV"):
        return k
    raise ValueError(k)


def to_json(n):
    k = n["k"]
    t = ty(n)
    if k == "nil":
        return {"ty": "iface", "v": None}
    if k == "str":
        return {"ty": t, "v": hx(n["v"])}
    if k in ("int", "float", "bool"):
        return {"ty": t, "v": n["v"]}
    if k == "slice":
        return {"ty": t, "v": None if n["v"] is None else [to_json(x) for x in n["v"]]}
    if k == "map":
        return {"ty": t, "v": None if n["v"] is None else [{"k": hx(kk), "v": to_json(x)} for kk, x in n["v"]]}
    if k == "ptr" or k == "iface":
        return {"ty": t, "v": None if n["v"] is None else to_json(n["v"])}
    if k == "dstruct":
        return {"ty": t, "v": [to_json(v) for _, v in n["f"]]}
    if k == "func":
        return {"ty": t, "v": hx(n["r"])}
    if k == "chan":
        return {"ty": t, "v": 1}
    return {"ty": t, "v": {f: to_json(v) for f, v in n["f"].items()}}


# ------------------------------------------------------------------ the family: reflect's view of the hand-written types

def fam_get(n, f, default):
    return n["f"].get(f, default)


def fam_view(n):
    """(fields [(name, exported, node)], vmeths [(name, result node)], pmeths) of a family struct node"""
    k = n["k"]
    if k == "Item":
        name = fam_get(n, "Name", S(b""))
        count = fam_get(n, "Count", I(0))
        tags = fam_get(n, "Tags", {"k": "slice", "et": "str", "v": None})
        nxt = fam_get(n, "Next", {"k": "ptr", "t": "Item", "v": None})
        fields = [("Name", True, name), ("Count", True, count), ("hidden", False, fam_get(n, "hidden", S(b""))),
                  ("Next", True, nxt), ("Any", True, fam_get(n, "Any", {"k": "iface", "named": False, "v": None})),
                  ("Lab", True, fam_get(n, "Lab", {"k": "iface", "named": True, "v": None})),
                  ("Tags", True, tags), ("Attrs", True, fam_get(n, "Attrs", {"k": "map", "et": "int", "v": None})),
                  ("Kids", True, fam_get(n, "Kids", {"k": "map", "et": {"ptr": "Item"}, "v": None}))]
        ntags = 0 if tags["v"] is None else len(tags["v"])
        vm = [("Label", S(b"L:" + name["v"])), ("Double", I(2 * count["v"])), ("TagList", tags)]
        pm = [("Total", I(count["v"] + ntags)), ("Follow", nxt), ("IsBig", {"k": "bool", "v": count["v"] > 100})]
        return fields, vm, pm
    if k == "Base":
        note = fam_get(n, "Note", S(b""))
        return ([("Code", True, fam_get(n, "Code", I(0))), ("Note", True, note)], [],
                [("BaseNote", S(b"note:" + note["v"]))])
    if k == "Emb":
        base = fam_get(n, "C11Base", {"k": "ptr", "t": "Base", "v": None})
        title = fam_get(n, "Title", S(b""))
        bn = S(b"nobase") if base["v"] is None else S(b"note:" + fam_get(base["v"], "Note", S(b""))["v"])
        return ([("C11Base", True, base), ("Title", True, title), ("secret", False, fam_get(n, "secret", I(0)))],
                [("Label", S(b"E:" + title["v"])), ("BaseNote", bn)], [])
    if k == "EmbV":
        base = fam_get(n, "C11Base", {"k": "Base", "f": {}})
        return ([("C11Base", True, base), ("Title", True, fam_get(n, "Title", S(b"")))], [],
                [("BaseNote", S(b"note:" + fam_get(base, "Note", S(b""))["v"]))])
    raise ValueError(k)


# ------------------------------------------------------------------ Gallina

def coq_gv(n):
    k = n["k"]
    if k == "nil":
        return b"GNil"
    if k == "str":
        return b"(GStr " + cq_bytes(n["v"]) + b")"
    if k == "int":
        return b"(GInt " + cq_Z(n["v"]) + b")"
    if k == "float":
        return b"(GFloat " + cq_Z(n["v"]) + b")"
    if k == "bool":
        return b"(GBool " + cq_bool(n["v"]) + b")"
    if k == "slice":
        return b"GSliceNil" if n["v"] is None else b"(GSlice " + cq_list([coq_gv(x) for x in n["v"]]) + b")"
    if k == "map":
        if n["v"] is None:
            return b"GMapNil"
        return b"(GMap " + cq_list([cq_pair(cq_bytes(kk), coq_gv(x)) for kk, x in n["v"]]) + b")"
    if k == "ptr":
        return b"GPtrNil" if n["v"] is None else b"(GPtr " + coq_gv(n["v"]) + b")"
    if k == "iface":
        nm = cq_bool(bool(n.get("named")))
        return b"(GIfaceNil " + nm + b")" if n["v"] is None else b"(GIface " + nm + b" " + coq_gv(n["v"]) + b")"
    if k == "func":
        return b"(GFunc (B \"func() string\") (GStr " + cq_bytes(n["r"]) + b"))"
    if k == "chan":
        return b"GChan"
    if k == "dstruct":
        fs = [b"(" + cq_bytes(nm) + b", true, " + coq_gv(v) + b")" for nm, v in n["f"]]
        return b"(GStruct " + cq_list(fs) + b" [] [])"
    fields, vm, pm = fam_view(n)
    fs = [b"(" + cq_bytes(nm) + b", " + cq_bool(ex) + b", " + coq_gv(v) + b")" for nm, ex, v in fields]
    ms = lambda l: cq_list([b"(" + cq_bytes(nm) + b", " + cq_bytes(SIG[nm]) + b", " + coq_gv(r) + b")" for nm, r in l])
    return b"(GStruct " + cq_list(fs) + b" " + ms(vm) + b" " + ms(pm) + b")"


def coq_step(s):
    if "f" in s:
        return b"(Field " + cq_bytes(unhx(s["f"])) + b")"
    if "k" in s:
        return b"(Key " + cq_bytes(unhx(s["k"])) + b")"
    return b"(Idx " + cq_nat(s["i"]) + b")"


# ------------------------------------------------------------------ generation of values

def gen_type(rng, depth):
    r = rng.random()
    if depth <= 0 or r < 0.34:
        return rng.choice(["str", "str", "int", "bool", "float64", "iface", rng.choice(INT_KINDS)])
    if r < 0.44:
        return {"slice": gen_type(rng, depth - 1)}
    if r < 0.56:
        return {"map": gen_type(rng, depth - 1)}
    if r < 0.66:
        return {"ptr": gen_type(rng, depth - 1)}
    if r < 0.80:
        names = rng.sample(FIELD_NAMES, rng.randint(0, 4))
        return {"struct": [[nm, gen_type(rng, depth - 1)] for nm in names]}
    if r < 0.90:
        return rng.choice(["Item", "Item", "Emb", "EmbV", "Base", {"ptr": "Item"}, {"ptr": "Emb"}, {"ptr": "EmbV"}, {"ptr": "Base"}])
    if r < 0.95:
        return "Labeler"
    if r < 0.975:
        return "func"
    if r < 0.985:
        return "chan"
    return "iface"


def gen_int(rng, kind):
    lo, hi = INT_RANGE[kind]
    r = rng.random()
    if r < 0.5:
        v = rng.randint(max(lo, -20), min(hi, 120))
    elif r < 0.9:
        v = rng.randint(max(lo, -10**10 + 1), min(hi, 10**10 - 1))
    elif r < 0.96:
        v = rng.choice([x for x in (0, lo, hi, 9999999999, -9999999999) if lo <= x <= hi and abs(x) < 10**10] or [0])
    else:
        v = rng.choice([x for x in (10**10, -10**10, hi, lo) if lo <= x <= hi])    # beyond the leaf domain
    return I(v, kind)


def gen_item(rng, depth):
    f = {}
    if rng.random() < 0.9:
        f["Name"] = S(rng.choice(STRINGS))
    if rng.random() < 0.8:
        f["Count"] = I(rng.choice([0, 1, 3, 7, 101, 250, -4, 99999]))
    if rng.random() < 0.6:
        f["hidden"] = S(rng.choice([b"h", b"secret!", b"hid"]))
    if depth > 0 and rng.random() < 0.5:
        f["Next"] = {"k": "ptr", "t": "Item", "v": gen_item(rng, depth - 2) if rng.random() < 0.7 else None}
    if rng.random() < 0.5:
        f["Any"] = gen_value(rng, "iface", depth - 1)
    if depth > 0 and rng.random() < 0.5:
        f["Lab"] = gen_value(rng, "Labeler", depth - 1)
    if rng.random() < 0.6:
        f["Tags"] = gen_value(rng, {"slice": "str"}, 1)
    if rng.random() < 0.4:
        f["Attrs"] = gen_value(rng, {"map": "int"}, 1)
    if depth > 0 and rng.random() < 0.3:
        f["Kids"] = gen_value(rng, {"map": {"ptr": "Item"}}, depth - 2)
    return {"k": "Item", "f": f}


def gen_base(rng):
    f = {}
    if rng.random() < 0.8:
        f["Code"] = I(rng.randint(0, 50))
    if rng.random() < 0.8:
        f["Note"] = S(rng.choice(STRINGS))
    return {"k": "Base", "f": f}


def with_case_pair(rng, keys):
    """sometimes both spellings of a key (`title` and `Title`): the exact name must win over the folded one"""
    if keys and rng.random() < 0.25:
        k = rng.choice(keys)
        for v in (upper_first(k), lower_first(k)):
            if v != k and v not in keys:
                keys = keys + [v]
                rng.shuffle(keys)
                break
    return keys


def gen_value(rng, t, depth):
    if isinstance(t, str):
        if t == "str":
            return S(rng.choice(STRINGS))
        if t in INT_KINDS:
            return gen_int(rng, t)
        if t == "float64":
            return {"k": "float", "v": rng.choice([0, 1, -3, 12, 1000000, 2**31, -7, 9999999999])}
        if t == "bool":
            return {"k": "bool", "v": rng.random() < 0.5}
        if t == "iface":
            if rng.random() < 0.15:
                return {"k": "iface", "named": False, "v": None}
            tt = gen_type(rng, depth)
            while tt in ("iface", "Labeler"):
                tt = gen_type(rng, depth)
            return {"k": "iface", "named": False, "v": gen_value(rng, tt, depth)}
        if t == "Labeler":
            r = rng.random()
            if r < 0.2:
                return {"k": "iface", "named": True, "v": None}
            if r < 0.4:
                return {"k": "iface", "named": True, "v": {"k": "ptr", "t": rng.choice(["Item", "Emb"]), "v": None}}
            if r < 0.6:
                return {"k": "iface", "named": True, "v": gen_item(rng, depth - 1)}
            if r < 0.8:
                return {"k": "iface", "named": True, "v": {"k": "ptr", "t": "Item", "v": gen_item(rng, depth - 1)}}
            e = gen_value(rng, "Emb", depth - 1)
            return {"k": "iface", "named": True, "v": e if r < 0.9 else {"k": "ptr", "t": "Emb", "v": e}}
        if t == "func":
            return {"k": "func", "r": rng.choice(STRINGS)}
        if t == "chan":
            return {"k": "chan"}
        if t == "Item":
            return gen_item(rng, depth)
        if t == "Base":
            return gen_base(rng)
        if t == "Emb":
            f = {"Title": S(rng.choice(STRINGS))}
            if rng.random() < 0.65:
                f["C11Base"] = {"k": "ptr", "t": "Base", "v": gen_base(rng)}
            if rng.random() < 0.5:
                f["secret"] = I(rng.randint(1, 9))
            return {"k": "Emb", "f": f}
        if t == "EmbV":
            f = {"Title": S(rng.choice(STRINGS))}
            if rng.random() < 0.8:
                f["C11Base"] = gen_base(rng)
            return {"k": "EmbV", "f": f}
        raise ValueError(t)
    if "slice" in t:
        if rng.random() < 0.12:
            return {"k": "slice", "et": t["slice"], "v": None}
        return {"k": "slice", "et": t["slice"], "v": [gen_value(rng, t["slice"], depth - 1) for _ in range(rng.choice([0, 1, 2, 2, 3]))]}
    if "map" in t:
        if rng.random() < 0.12:
            return {"k": "map", "et": t["map"], "v": None}
        keys = with_case_pair(rng, rng.sample(MAP_KEYS, rng.choice([0, 1, 2, 3, 3, 4, 5])))
        return {"k": "map", "et": t["map"], "v": [(kk, gen_value(rng, t["map"], depth - 1)) for kk in keys]}
    if "ptr" in t:
        if rng.random() < 0.22:
            return {"k": "ptr", "t": t["ptr"], "v": None}
        return {"k": "ptr", "t": t["ptr"], "v": gen_value(rng, t["ptr"], depth - 1)}
    if "struct" in t:
        return {"k": "dstruct", "f": [(nm, gen_value(rng, ft, depth - 1)) for nm, ft in t["struct"]]}
    raise ValueError(t)


def gen_data(rng, tier):
    depth = rng.choice([1, 2, 2, 3, 3, 4] if tier == "quick" else [1, 2, 3, 3, 4, 4, 5])
    r = rng.random()
    if r < 0.40:      # the usual page data: map[string]interface{}
        keys = with_case_pair(rng, rng.sample([k for k in MAP_KEYS if ident_ok(k)], rng.randint(1, 5)))
        return {"k": "map", "et": "iface", "v": [(kk, gen_value(rng, "iface", depth)) for kk in keys]}
    if r < 0.55:
        names = rng.sample(FIELD_NAMES, rng.randint(1, 5))
        return {"k": "dstruct", "f": [(nm, gen_value(rng, gen_type(rng, depth), depth)) for nm in names]}
    if r < 0.65:
        return gen_item(rng, depth)
    if r < 0.80:
        t = rng.choice(["Item", "Emb", "EmbV", "Base"])
        return {"k": "ptr", "t": t, "v": gen_value(rng, t, depth) if rng.random() < 0.9 else None}
    if r < 0.88:
        t = {"map": rng.choice(["str", "int", {"ptr": "Item"}, {"slice": "int"}, "Labeler", "Item"])}
        return gen_value(rng, t, depth)
    if r < 0.92:
        d = {"k": "dstruct", "f": [(nm, gen_value(rng, gen_type(rng, depth - 1), depth - 1)) for nm in rng.sample(FIELD_NAMES, 3)]}
        return {"k": "ptr", "t": ty(d), "v": d}
    if r < 0.94:
        return {"k": "nil"}
    if r < 0.97:
        return gen_value(rng, {"slice": "iface"}, depth)
    return gen_value(rng, rng.choice(["Emb", "EmbV", "str", "int"]), depth)


# ------------------------------------------------------------------ the walk (what a path reaches in Go), for path enumeration

def strip(n):
    via_ptr = False
    while n is not None and n["k"] in ("ptr", "iface"):
        via_ptr = n["k"] == "ptr"
        n = n["v"]
    return n, via_ptr


def children(n):
    """[(step, child node, tag)] selectable on n"""
    s, via_ptr = strip(n)
    out = []
    if s is None:
        return out
    k = s["k"]
    if k == "map" and s["v"]:
        for kk, v in s["v"]:
            out.append(({"k": hx(kk)}, v, "key"))
            if ident_ok(kk):
                out.append(({"f": hx(kk)}, v, "mapfield"))
    elif k == "slice" and s["v"]:
        for i, v in enumerate(s["v"]):
            out.append(({"i": i}, v, "idx"))
    elif k == "dstruct":
        for nm, v in s["f"]:
            out.append(({"f": hx(lower_first(nm.encode()))}, v, "field"))
    elif k in ("Item", "Base", "Emb", "EmbV"):
        fields, vm, pm = fam_view(s)
        for nm, ex, v in fields:
            if ex:
                out.append(({"f": hx(lower_first(nm.encode()))}, v, "field"))
        for nm, r in vm + (pm if via_ptr else []):
            out.append(({"f": hx(lower_first(nm.encode()))}, r, "method"))
    return out


def is_leafish(n):
    s, _ = strip(n)
    return s is None or s["k"] in ("str", "int", "float", "bool", "nil", "chan")


def random_walk(rng, d, maxlen):
    """a path that follows the tree; returns (steps, tags, end node)"""
    steps, tags = [], []
    cur = d
    first = True
    while len(steps) < maxlen:
        ch = children(cur)
        if first:
            ch = [c for c in ch if "f" in c[0]]
        if not ch:
            break
        # prefer going on while the value is composite
        st, nxt, tag = rng.choice(ch)
        steps.append(st)
        tags.append(tag)
        cur = nxt
        first = False
        if is_leafish(cur) or rng.random() < 0.05:
            break
    return steps, tags, cur


def fold_variants(name):
    """names that Map.Member's chain folds onto `name` (or not): wrong case, id/url/api spelled lower-case"""
    out = [upper_first(name), name.upper(), name.lower(), lower_first(name)]
    for a, b_ in ((b"ID", b"id"), (b"URL", b"url"), (b"API", b"api"), (b"Id", b"id")):
        if a in name:
            out.append(name.replace(a, b_))
            out.append(lower_first(name.replace(a, b_)))
    return [x for x in out if x != name and ident_ok(x)]


def break_path(rng, d, steps, tags):
    """one broken / hostile variant of a good path"""
    steps = copy.deepcopy(steps)
    if not steps:
        return [{"f": hx(rng.choice(ABSENT_NAMES))}], "absent_top"
    r = rng.random()
    i = rng.randrange(len(steps))
    if r < 0.15:          # missing name / key
        st = steps[i]
        if "f" in st or i == 0:
            steps[i] = {"f": hx(rng.choice(ABSENT_NAMES))}
        elif "k" in st:
            steps[i] = {"k": hx(rng.choice([b"missing", b"", b"zz", b"Name", b"<int Value>", b"k9"]))}
        else:
            steps[i] = {"i": st["i"] + rng.choice([1, 2, 5, 40])}
        return steps[:i + 1] + (steps[i + 1:] if rng.random() < 0.5 else []), "missing"
    if r < 0.24:          # out of range
        steps = steps[:i + 1] + [{"i": rng.choice([0, 1, 3, 17])}]
        return steps, "extra_idx"
    if r < 0.44:          # wrong case / folding spellings
        st = steps[i]
        if "f" in st:
            vs = fold_variants(unhx(st["f"]))
            if vs:
                steps[i] = {"f": hx(rng.choice(vs))}
                return steps, "wrong_case"
        if "k" in st and i > 0:
            k = unhx(st["k"])
            steps[i] = {"k": hx(rng.choice([upper_first(k), lower_first(k), k.upper()]))}
            return steps, "wrong_case_key"
        return steps + [{"f": hx(rng.choice(ABSENT_NAMES))}], "extra_field"
    if r < 0.56:          # one more step after the end (field of a leaf, of nil, ...)
        extra = rng.choice([{"f": hx(rng.choice(ABSENT_NAMES))}, {"k": hx(rng.choice([b"k", b"name"]))}, {"i": rng.choice([0, 2])}])
        return steps + [extra], "beyond_end"
    if r < 0.66:          # unexported
        return steps[:i + 1] + [{"f": hx(rng.choice([b"hidden", b"secret", b"Hidden"]))}] + ([{"f": hx(b"x")}] if rng.random() < 0.3 else []), "unexported"
    if r < 0.76:          # undefined top-level name with a tail
        tail = rng.choice([[], [{"f": hx(b"x")}], [{"i": 0}], [{"k": hx(b"k")}], [{"f": hx(b"a")}, {"f": hx(b"b")}], [{"f": hx(b"a")}, {"i": 1}, {"f": hx(b"c")}]])
        return [{"f": hx(rng.choice([b"missing", b"undefinedName", b"zz", b"Nope"]))}] + tail, "undefined_top"
    if r < 0.84:          # bracket instead of dot and the other way round
        st = steps[i]
        if "f" in st and i > 0:
            steps[i] = {"k": st["f"]}
            return steps, "bracket_for_dot"
        if "k" in st and ident_ok(unhx(st["k"])):
            steps[i] = {"f": st["k"]}
            return steps, "dot_for_bracket"
        return steps[:i + 1], "prefix"
    if r < 0.92:          # a prefix: ends on a composite or a shorter leaf
        return steps[:i + 1], "prefix"
    # kind mismatch: index a map / key a slice
    st = steps[i]
    if i > 0 and "i" in st:
        steps[i] = {"k": hx(b"0")}
    elif i > 0 and "k" in st:
        steps[i] = {"i": 0}
    else:
        steps = steps + [{"i": 0}]
    return steps, "kind_mismatch"


def py_step(n, st, first=False):
    """what one step reaches in Go (node) or None; mirrors children()"""
    for c, child, tag in children(n):
        if c == st:
            return child, tag
    return None, None


def py_walk(d, steps):
    """(end node or None, tag of the first step)"""
    cur, first_tag = d, None
    for i, st in enumerate(steps):
        cur, tag = py_step(cur, st)
        if i == 0:
            first_tag = tag
        if cur is None:
            return None, first_tag
    return cur, first_tag


def gen_paths(rng, d, tier):
    n = rng.randint(3, 8) if tier == "quick" else rng.randint(4, 10)
    out, kinds = [], []
    seen = set()
    for _ in range(n * 4):
        if len(out) >= n:
            break
        steps, tags, end = random_walk(rng, d, rng.choice([2, 3, 4, 6, 8]))
        kind = "good"
        raw = rng.random() < 0.3
        if rng.random() < 0.45 or not steps:
            steps, kind = break_path(rng, d, steps, tags)
        elif "method" in tags:
            kind = "good_method"
        if not steps or "f" not in steps[0]:
            continue
        end, first_tag = py_walk(d, steps)
        if first_tag == "method" and rng.random() < 0.85:
            continue             # a method of the page data itself is the listed finding F-C11-b: keep it rare
        if end is not None and not is_leafish(end) and rng.random() < 0.9:
            continue             # ends on a composite: outside the model's printing
        if raw and first_tag is None and all("f" in s for s in steps) and rng.random() < 0.85:
            raw = False          # `!= missing` is the listed finding F-C11-c: keep it rare
        key = (json.dumps(steps), raw)
        if key in seen:
            continue
        seen.add(key)
        out.append({"steps": steps, "raw": raw})
        kinds.append(kind)
    if not out:
        out.append({"steps": [{"f": hx(b"missing")}], "raw": False})
        kinds.append("undefined_top")
    return out, kinds


CLASS_CODE = {"ok": 0, "exec_panic": 1, "error": 1}


class C11(Prop):
    id = "C11"
    engine = "C11"
    judge_module = "Run.Judge_C11"
    prop_module = "Props.C11"
    prop_file = "Props/C11.v"
    coq_targets = ["Props/C11.vo", "Run/Judge_C11.vo"]
    sizes = {"quick": 1500, "thorough": 24000}
    shard = 120
    design_ref = "DESIGN.md section 6 C11"
    rule = ("one evaluation = one Go data tree (built by reflection: reflect.StructOf structs, the hand-written family "
            "C11Item/C11Emb/C11EmbV/C11Base/C11Labeler, typed and interface maps, slices, pointers, nil anywhere) with "
            "3-10 paths rendered as `= path` / `!= path` through Engine.Render; non-trivial = at least one path of two or "
            "more steps that prints a non-empty leaf and at least one path that reaches nothing; distinct by SHA-1 of the case")
    trusted = [
        "Go's reflect package, fmt and big.Float formatting (integers below 10^10 print as plain digits), the JS front end "
        "(otto) and the template compiler for `= a.b[0]['k'].c`: covered by the correspondence, not by a theorem",
        "the Python description of the hand-written family (fields, method sets, method results) that is emitted as the gv term",
    ]
    assumptions = [
        "a Go value is the tree reflect exposes: an embedded struct is a field named after its type plus the promoted "
        "methods; Go's promoted-field shorthand (e.note for e.C11Base.Note) is not a path of that tree (observed: prints nothing)",
        "names are ASCII; the first name of a path is not a registered template function, `global` or `range`",
        "methods and func values are pure and do not panic; page data is not mutated during a render",
        "production wiring: a logger is configured and debug mode is off (panicOrError logs instead of panicking)",
    ]
    not_yet_proved = []

    def generate(self, rng, n, tier):
        cases = []
        for _ in range(n):
            d = gen_data(rng, tier)
            paths, kinds = gen_paths(rng, d, tier)
            cases.append({"data": to_json(d), "paths": paths, "kinds": kinds})
        return cases

    def run(self, binary, cases, tmp, tier):
        wire = [{"data": c["data"], "paths": c["paths"]} for c in cases]
        return run_harness(binary, self.engine, wire)

    # cases carry only the harness format (JSON-clean): the abstract tree is rebuilt from it
    def tree_of(self, case):
        return from_json(case["data"])

    def emit(self, case, obs):
        d = self.tree_of(case)
        ps = []
        for p, o in zip(case["paths"], obs["paths"]):
            cls = CLASS_CODE.get(o["class"], 2)
            out = unhx(o.get("out") or "") if cls == 0 else b""
            ps.append(b"{| po_steps := " + cq_list([coq_step(s) for s in p["steps"]]) + b"; po_raw := " + cq_bool(p["raw"]) +
                      b"; po_class := " + cq_nat(cls) + b"; po_out := " + cq_bytes(out) + b" |}")
        return b"{| data := " + coq_gv(d) + b"; paths := " + cq_list(ps) + b" |}"

    def nontrivial(self, case, obs):
        deep = any(len(p["steps"]) >= 2 and o["class"] == "ok" and o.get("out") for p, o in zip(case["paths"], obs["paths"]))
        empty = any(o["class"] == "ok" and not o.get("out") for o in obs["paths"])
        return deep and empty

    def sample(self, case, obs):
        return {"data": case["data"], "paths": [{"src": s, "raw": p["raw"], "go": o["class"],
                                                  "out": unhx(o.get("out") or "").decode("utf-8", "replace")}
                                                 for s, p, o in zip(obs.get("src") or [], case["paths"], obs["paths"])][:6]}

    def shrink(self, case):
        base = {"data": case["data"], "paths": case["paths"]}
        ps = case["paths"]
        if len(ps) > 1:
            for i in range(len(ps)):
                yield {"data": case["data"], "paths": [ps[i]]}
            return
        # one path left: shorten it, then drop parts of the data
        steps = ps[0]["steps"]
        for i in range(len(steps) - 1, 0, -1):
            yield {"data": case["data"], "paths": [{"steps": steps[:i] + steps[i + 1:], "raw": ps[0]["raw"]}]}
        for smaller in shrink_json(case["data"]):
            yield {"data": smaller, "paths": ps}

    def model_expr(self):
        return "explain c"

    def distribution(self, cases, obss):
        d = {"paths": 0, "raw_paths": 0, "go_error": 0, "go_empty": 0, "go_nonempty": 0, "path_kinds": {}, "top_kinds": {},
             "path_lengths": {}}
        for c, o in zip(cases, obss):
            t = self.tree_of(c)
            d["top_kinds"][t["k"]] = d["top_kinds"].get(t["k"], 0) + 1
            for i, (p, r) in enumerate(zip(c["paths"], o["paths"])):
                d["paths"] += 1
                d["raw_paths"] += bool(p["raw"])
                d["go_error"] += r["class"] != "ok"
                d["go_empty"] += r["class"] == "ok" and not r.get("out")
                d["go_nonempty"] += r["class"] == "ok" and bool(r.get("out"))
                L = str(min(len(p["steps"]), 7))
                d["path_lengths"][L] = d["path_lengths"].get(L, 0) + 1
                kinds = c.get("kinds")
                if kinds:
                    d["path_kinds"][kinds[i]] = d["path_kinds"].get(kinds[i], 0) + 1
        return d


# ------------------------------------------------------------------ harness JSON -> abstract tree (corpus, shrinking)

def from_json(j):
    t, v = j["ty"], j.get("v")
    if isinstance(t, str):
        if t == "str":
            return S(unhx(v))
        if t in INT_KINDS:
            return I(v, t)
        if t in ("float64", "float32"):
            return {"k": "float", "v": v}
        if t == "bool":
            return {"k": "bool", "v": v}
        if t == "iface":
            return {"k": "iface", "named": False, "v": None if v is None else from_json(v)}
        if t == "Labeler":
            return {"k": "iface", "named": True, "v": None if v is None else from_json(v)}
        if t == "func":
            return {"k": "func", "r": unhx(v)}
        if t == "chan":
            return {"k": "chan"}
        return {"k": t, "f": {f: from_json(x) for f, x in (v or {}).items()}}
    if "slice" in t:
        return {"k": "slice", "et": t["slice"], "v": None if v is None else [from_json(x) for x in v]}
    if "map" in t:
        return {"k": "map", "et": t["map"], "v": None if v is None else [(unhx(e["k"]), from_json(e["v"])) for e in v]}
    if "ptr" in t:
        return {"k": "ptr", "t": t["ptr"], "v": None if v is None else from_json(v)}
    if "struct" in t:
        return {"k": "dstruct", "f": [(nm, from_json(x)) for (nm, _), x in zip(t["struct"], v)]}
    raise ValueError(t)


def shrink_json(j):
    """smaller variants of a harness data node: drop one element somewhere, replace a subtree by nil/empty"""
    t, v = j["ty"], j.get("v")
    if v is None:
        return
    if isinstance(t, dict) and ("slice" in t or "map" in t):
        for i in range(len(v)):
            yield {"ty": t, "v": v[:i] + v[i + 1:]}
        for i, e in enumerate(v):
            inner = e if "slice" in t else e["v"]
            for s in shrink_json(inner):
                yield {"ty": t, "v": v[:i] + [s if "slice" in t else {"k": e["k"], "v": s}] + v[i + 1:]}
    elif isinstance(t, dict) and "struct" in t:
        for i in range(len(v)):
            yield {"ty": {"struct": t["struct"][:i] + t["struct"][i + 1:]}, "v": v[:i] + v[i + 1:]}
        for i, e in enumerate(v):
            for s in shrink_json(e):
                if s["ty"] == e["ty"]:
                    yield {"ty": t, "v": v[:i] + [s] + v[i + 1:]}
    elif isinstance(t, dict) and "ptr" in t:
        for s in shrink_json(v):
            if s["ty"] == v["ty"]:
                yield {"ty": t, "v": s}
    elif t in ("iface", "Labeler"):
        for s in shrink_json(v):
            yield {"ty": t, "v": s}
    elif t in ("Item", "Base", "Emb", "EmbV"):
        for f in list(v):
            yield {"ty": t, "v": {g: x for g, x in v.items() if g != f}}
        for f, e in v.items():
            for s in shrink_json(e):
                if s["ty"] == e["ty"]:
                    yield {"ty": t, "v": dict(v, **{f: s})}


PROP = C11()
