# C11 — Go data reachable from templates by lower-camel paths; absent data prints nothing.
#
# A case = one Go data value (a typed tree the harness builds with reflect: reflect.StructOf for dynamically
# shaped structs, a fixed family of hand-written types for unexported fields / methods / embedded pointers /
# named interfaces) + a list of paths, each rendered as `= path` or `!= path`.
#
# Python keeps an abstract tree (dict nodes); from it come (a) the harness JSON, (b) the Gallina `gv` term,
# (c) the walk used to enumerate paths.  Nothing is judged here.
#
# A case is either one such value or a HISTORY `{"seq": [value, value, ...]}`: the values are rendered in this
# order in one process on one engine (the harness runs every case in a process of its own). The values of a
# history are look-alikes — distinct Go types that are easily taken for one another: types of the same name
# declared in different functions or in two packages of the same name (TWINS below, harness/c11_twins.go),
# reflect.StructOf types over the same field names in another order, with other field types, or with a field
# more or less — and every value is asked the paths of all the others too. The judge treats each value on its
# own (the spec has no history), so anything that the conversion of one value leaves behind for the next one
# shows as a violation on that value, and the replay holds the whole history.
#
# INDICES. A bracket index denotes an integer - any integer - and can be written in many ways. An index step is
# {"i": z} (the literal z, negative ones included) or {"i": z, "w": {...}} where "w" says how it is written:
#   {"num": steps, "add": k}   a number of the page data, plus/minus a constant:  xs[d.pos]   xs[n - 2]
#   {"len": steps, "add": k}   the length of a list of the page data:            xs[xs.length - 1]   xs[ys.length]
#   {"lit": "paren"|"sub"|"float"}   the literal z spelled (z), 0 - 1 / 3 - 1, -1.0
# The harness builds the source text from "w"; the integer the expression denotes is computed HERE from the data
# tree (idx_value: the Go int at that path, Go's len() of that slice) and is all the judge sees: `Idx computed z`.
# About 20% of the page data is built around a list (gen_indexed_data: a list of any element type - nil, empty or
# with 1-4 elements - next to numbers chosen around its bounds, in a struct, a map or the family type C11Item, held
# in any of the positions of WRAPPERS), and wherever page data has a list or a string, a good share of the paths put
# an index on it on either side of its range (gen_index_path): below zero, in range, at / far beyond the length.
#
# COLLISIONS. The member table of a struct is keyed by lowerFirst(name) while Go keeps the names apart, so one struct
# can declare two things that want the same key: an exported field Title and an unexported field title, an unexported
# field holder and a method Holder(), an embedded type Inner and a field inner (or an embedded UNEXPORTED type inner and
# an exported field Inner). The unexported one is never a member, whichever is declared first. Such structs are a
# regular part of the data: CLASH_STRUCT_SHARE of all reflect.StructOf types declare unexported fields (struct_names:
# the lower-camel twin of an exported field, a near miss, an unrelated name; after, before or between the exported
# fields), the hand-written family of harness/c11_clash (TWINS["K"]: field pairs in both orders, getters with value and
# pointer receivers, embedded types next to outer fields in both orders) occurs wherever a family type can,
# CLASH_SHARE of the page data is built around one such struct (gen_clash_data, in any position of WRAPPERS),
# CLASH_PATH_SHARE of the paths of a value that holds one aim at the collision (gen_clash_path), and the history kind
# "clash_orders" renders the same colliding members in two or three declaration orders one after the other.
import copy
import json
from common import *

# ------------------------------------------------------------------ abstract nodes
# {"k":"nil"}  {"k":"str","v":bytes}  {"k":"int","kind":"int8",..,"v":n}  {"k":"float","v":n}  {"k":"bool","v":b}
# {"k":"slice","et":T,"v":None|[node]}  {"k":"map","et":T,"v":None|[(key bytes,node)]}  {"k":"ptr","t":T,"v":None|node}
# {"k":"iface","named":bool,"v":None|node}  {"k":"dstruct","f":[(Name,node)]}  {"k":"func","r":bytes}  {"k":"chan"}
#    (a dstruct field whose name starts with a lower-case letter is an unexported field)
# {"k":"Item"|"Base"|"Emb"|"EmbV","f":{Field:node}}
# {"k":"twin","name":N,"var":V,"f":[(Name,node)]}   a struct look-alike; any other node may carry "tw":(N,V): a named
#                                                    non-struct look-alike (type Tags []string) over that node's type
# types T: "iface" "Labeler" "str" "bool" "int".. "float64" "func" "chan" "Item".. {"slice":T} {"map":T} {"ptr":T} {"struct":[[name,T]]}
#          {"twin":N,"var":V} (+ "struct":[[name,T]] or "under":T when it is the type of a value node)

INT_KINDS = ["int", "int8", "int16", "int32", "int64", "uint", "uint8", "uint16", "uint32", "uint64"]
INT_RANGE = {"int": (-2**40, 2**40), "int8": (-128, 127), "int16": (-2**15, 2**15 - 1), "int32": (-2**31, 2**31 - 1),
             "int64": (-2**40, 2**40), "uint": (0, 2**40), "uint8": (0, 255), "uint16": (0, 2**16 - 1),
             "uint32": (0, 2**32 - 1), "uint64": (0, 2**40)}

FIELD_NAMES = ["Name", "Title", "Count", "ValID", "URL", "ApiKey", "ID", "Items", "Meta", "Next", "Owner", "X", "Y",
               "Url", "UserID", "Price", "IsOn", "A1", "Html", "Label", "Kids", "Valid", "Id"]
MAP_KEYS = [b"name", b"title", b"count", b"valID", b"items", b"meta", b"k1", b"k2", b"x", b"y", b"Foo", b"foo", b"Name",
            b"URL", b"url", b"a-b", b"with space", b"\xc3\xbcn\xc3\xaf", b"0", b"user_id", b"id", b"ID", b"api", b"apiKey",
            b"valid", b"Title", b"q'q", b"<b>", b"Xy", b"xy", b"userID", b"userid", b"label", b"_u", b"A", b"a"]
STRINGS = [b"", b"v", b"hello", b"<b>&\"'", b"a b", b"\xc3\xa9t\xc3\xa9", b"0", b"true", b"x>y", b"it's", b"line\nbreak", b"{{x}}", b"%d",
           b"\xff\xfe<", b"&amp;", b"<func() string Value>", b"null", b"-7", b" lead", b"\x00z"]
# exported names whose first letter is not ASCII (two-byte letters of Latin-1, Greek, Cyrillic), alone or next to
# an ASCII name that differs from them only in that letter
WIDE_NAMES = ["Ärger", "Übersicht", "Österreich", "Élan", "Ωmega", "Ñandú", "Øre", "Ýmir", "Δelta", "Жук", "Àpropos",
              "Çedilla", "Ær", "Þing", "Σum", "Яблоко", "Äa", "Ö", "Ünï"]
WIDE_STRUCT_SHARE = 0.12    # share of the reflect.StructOf types (anywhere in the data) with such field names
WIDE_SHARE = 0.08           # share of the page data that is built around a struct with such members
WIDE_PATH_SHARE = 0.5       # where page data has such a member: share of its paths that go through one
ABSENT_NAMES = [b"missing", b"zz", b"nope", b"hidden", b"secret", b"q", b"other", b"x1", b"valid", b"name", b"id", b"len", b"Length"]

SIG = {"Label": b"func() string", "Double": b"func() int", "TagList": b"func() []string", "Total": b"func() int",
       "Follow": b"func() *main.C11Item", "IsBig": b"func() bool", "BaseNote": b"func() string",
       "Amount": b"func() int", "Code": b"func() string", "Count": b"func() int", "Owner": b"func() *shop.Product",
       "Holder": b"func() string", "Caption": b"func() string", "Sum": b"func() int", "Kind": b"func() string",
       "Tag": b"func() string", "Slug": b"func() string",
       "Österreich": b"func() string", "Ñandú": b"func() int"}


# ------------------------------------------------------------------ look-alike types (mirror of harness/c11_twins.go,
# harness/c11_one, harness/c11_two; the harness compares every description below with reflect and fails on a mismatch)

def TW(var, name):
    return {"twin": name, "var": var}


TWINS = {
    # function-local types of package main: reflect.Type.String() is "main.<Name>" for all four scopes
    "A": {"Product": {"struct": [["Sku", "str"], ["Price", "int"]]},
          "Cart": {"struct": [["Items", {"slice": TW("A", "Product")}], ["Owner", {"ptr": TW("A", "Product")}], ["Note", "str"]]},
          "Entry": {"struct": [["Name", "str"], ["Value", "iface"], ["Next", {"ptr": TW("A", "Entry")}]]},
          "Tags": {"under": {"slice": "str"}}, "Attrs": {"under": {"map": "int"}}, "Label": {"under": "str"}},
    "B": {"Product": {"struct": [["Title", "str"], ["Qty", "int"]]},
          "Cart": {"struct": [["Note", "str"], ["Items", {"slice": TW("B", "Product")}]]},
          "Entry": {"struct": [["Value", "iface"], ["Name", "str"]]},
          "Tags": {"under": {"slice": "int"}}, "Attrs": {"under": {"map": "str"}}, "Label": {"under": "int"}},
    "C": {"Product": {"struct": [["Price", "int"], ["Sku", "str"], ["Title", "str"]]},
          "Cart": {"struct": [["Owner", TW("C", "Product")], ["Items", {"map": TW("C", "Product")}], ["Note", "int"]]},
          "Entry": {"struct": [["Name", "int"], ["Value", "str"], ["Next", {"ptr": TW("C", "Entry")}]]},
          "Tags": {"under": {"slice": TW("C", "Product")}}, "Attrs": {"under": {"map": {"ptr": TW("C", "Product")}}},
          "Label": {"under": "bool"}},
    "D": {"Product": {"struct": [["Sku", "str"], ["Price", "int"]]},
          "Cart": {"struct": [["Items", {"slice": TW("D", "Product")}], ["owner", {"ptr": TW("D", "Product")}], ["Note", "str"], ["Total", "int"]]},
          "Entry": {"struct": [["name", "str"], ["Value", "iface"], ["Name", "str"]]},
          "Tags": {"under": {"slice": "str"}}, "Attrs": {"under": {"map": "iface"}}, "Label": {"under": "str"}},
    # two packages that are both called shop: "shop.Product", "shop.Cart"; these have methods
    "one": {"Product": {"struct": [["Sku", "str"], ["Price", "int"], ["Tags", {"slice": "str"}]]},
            "Cart": {"struct": [["Owner", {"ptr": TW("one", "Product")}], ["Items", {"slice": TW("one", "Product")}], ["Note", "str"]]}},
    "two": {"Product": {"struct": [["Title", "str"], ["Qty", "int"], ["Sku", "str"]]},
            "Cart": {"struct": [["Note", "str"], ["Items", {"slice": TW("two", "Product")}]]}},
    # package harness/c11_clash: members that collide after the lower-camel name mapping. "emb": embedded fields,
    # "vm" / "pm": the methods of T (promoted ones included) / those that only *T has
    "K": {"PairEU": {"struct": [["Title", "str"], ["Price", "int"], ["title", "str"], ["price", "int"]], "emb": [], "vm": [], "pm": []},
          "PairUE": {"struct": [["title", "str"], ["price", "int"], ["Title", "str"], ["Price", "int"]], "emb": [], "vm": [], "pm": []},
          "PairMix": {"struct": [["Title", "str"], ["title", {"slice": "str"}], ["name", {"ptr": "int"}], ["Name", "str"], ["Count", "int"],
                                 ["cache", {"map": "int"}], ["count", "bool"]], "emb": [], "vm": [], "pm": []},
          "PairDeep": {"struct": [["Item", TW("K", "PairEU")], ["item", {"ptr": TW("K", "PairUE")}], ["list", {"slice": "str"}],
                                  ["List", {"slice": TW("K", "PairEU")}], ["Next", {"ptr": TW("K", "PairDeep")}], ["next", "str"],
                                  ["Extra", "iface"], ["extra", "int"]], "emb": [], "vm": [], "pm": []},
          "Getter": {"struct": [["holder", "str"], ["Limit", "int"], ["limit", "int"]], "emb": [], "vm": ["Holder"], "pm": []},
          "GetterP": {"struct": [["Count", "int"], ["caption", "str"], ["sum", "int"]], "emb": [], "vm": ["Sum"], "pm": ["Caption"]},
          "Inner": {"struct": [["Title", "str"], ["Code", "int"]], "emb": [], "vm": ["Kind"], "pm": []},
          "inner": {"struct": [["Note", "str"], ["Rank", "int"]], "emb": [], "vm": ["Tag"], "pm": []},
          "Meta": {"struct": [["Key", "str"]], "emb": [], "vm": [], "pm": ["Slug"]},
          "OuterEU": {"struct": [["Inner", TW("K", "Inner")], ["inner", "str"], ["Title", "str"]], "emb": ["Inner"], "vm": ["Kind"], "pm": []},
          "OuterUE": {"struct": [["inner", "str"], ["Inner", TW("K", "Inner")], ["title", "int"]], "emb": ["Inner"], "vm": ["Kind"], "pm": []},
          "OuterX": {"struct": [["Inner", "str"], ["inner", TW("K", "inner")]], "emb": ["inner"], "vm": ["Tag"], "pm": []},
          "OuterY": {"struct": [["inner", TW("K", "inner")], ["Inner", "str"], ["rank", "int"]], "emb": ["inner"], "vm": ["Tag"], "pm": []},
          "OuterP": {"struct": [["Meta", {"ptr": TW("K", "Meta")}], ["meta", "int"], ["Key", "str"]], "emb": ["Meta"], "vm": ["Slug"], "pm": []},
          "OuterQ": {"struct": [["meta", "str"], ["Meta", {"ptr": TW("K", "Meta")}], ["Note", "str"]], "emb": ["Meta"], "vm": ["Slug"], "pm": []},
          # members whose first letter is not ASCII: fields, an unexported lower-camel twin, methods of both receivers
          "Wide": {"struct": [["Ärger", "str"], ["Übersicht", "int"], ["Name", "str"], ["Ωmega", "str"], ["Élan", {"slice": "str"}],
                              ["ärger", "int"], ["Next", {"ptr": TW("K", "Wide")}]], "emb": [], "vm": ["Österreich"], "pm": ["Ñandú"]},
          "WideBox": {"struct": [["Über", TW("K", "Wide")], ["Öl", {"ptr": TW("K", "Wide")}], ["Жук", "str"], ["Title", "str"]],
                      "emb": [], "vm": [], "pm": []}},
}
WIDE_TYPES = ["Wide", "Wide", "WideBox"]
TWIN_GROUPS = [["A", "B", "C", "D"], ["one", "two"]]      # scopes whose types of one name share their String()
CLASH_TYPES = ["PairEU", "PairUE", "PairMix", "PairDeep", "Getter", "GetterP", "OuterEU", "OuterUE", "OuterX", "OuterY", "OuterP", "OuterQ"]
# the same members in the other declaration order (or with the other receiver)
CLASH_COUNTERPARTS = [["PairEU", "PairUE", "PairMix"], ["OuterEU", "OuterUE"], ["OuterX", "OuterY"], ["OuterP", "OuterQ"],
                      ["Getter", "GetterP"], ["PairDeep", "PairEU", "PairUE"]]


def twin_field(n, name):
    for nm, v in n["f"]:
        if nm == name:
            return v
    raise KeyError(name)


def twin_methods(n):
    """(value-receiver methods, pointer-receiver methods) [(name, result node)] of a look-alike struct node"""
    key = (n["var"], n["name"])
    if key == ("one", "Product"):
        tags = twin_field(n, "Tags")["v"]
        return ([("Label", S(b"one:" + twin_field(n, "Sku")["v"]))],
                [("Total", I(twin_field(n, "Price")["v"] + (0 if tags is None else len(tags))))])
    if key == ("one", "Cart"):
        items = twin_field(n, "Items")["v"]
        return [("Count", I(0 if items is None else len(items)))], []
    if key == ("two", "Product"):
        return ([("Amount", I(twin_field(n, "Qty")["v"] * 3)), ("Label", S(b"two:" + twin_field(n, "Title")["v"]))],
                [("Code", S(b"c-" + twin_field(n, "Sku")["v"]))])
    if key == ("two", "Cart"):
        items = twin_field(n, "Items")["v"]
        first = {"k": "ptr", "t": TW("two", "Product"), "v": copy.deepcopy(items[0]) if items else None}
        return [("Owner", first)], [("Count", I(0 if items is None else 2 * len(items)))]
    if n["var"] == "K":
        name = n["name"]
        fs = lambda node, f: twin_field(node, f)["v"]
        if name == "Getter":
            return [("Holder", S(b"holder:" + fs(n, "holder")))], []
        if name == "GetterP":
            return [("Sum", I(fs(n, "sum") + fs(n, "Count")))], [("Caption", S(b"caption:" + fs(n, "caption")))]
        if name == "Inner":
            return [("Kind", S(b"kind:" + fs(n, "Title")))], []
        if name == "inner":
            return [("Tag", S(b"tag:" + fs(n, "Note")))], []
        if name == "Meta":
            return [], [("Slug", S(b"slug:" + fs(n, "Key")))]
        if name in ("OuterEU", "OuterUE"):       # promoted from the embedded Inner
            return [("Kind", S(b"kind:" + fs(twin_field(n, "Inner"), "Title")))], []
        if name in ("OuterX", "OuterY"):         # promoted from the embedded unexported type
            return [("Tag", S(b"tag:" + fs(twin_field(n, "inner"), "Note")))], []
        if name == "Wide":
            return [("Österreich", S(b"at:" + fs(n, "Ärger")))], [("Ñandú", I(fs(n, "Übersicht") + 1))]
        if name in ("OuterP", "OuterQ"):         # promoted from the embedded pointer; Slug tolerates nil
            m = twin_field(n, "Meta")["v"]
            return [("Slug", S(b"nometa" if m is None else b"slug:" + fs(m, "Key")))], []
    return [], []


def S(s):
    return {"k": "str", "v": s}


def I(n, kind="int"):
    return {"k": "int", "kind": kind, "v": n}


def is_exported(name):
    """Go's rule: the first letter is upper-case - in Unicode's sense (Ärger and Ωmega are exported, ärger is not)"""
    return name[:1].isupper()


def ident_ok(k):
    if not k or not (k[:1].isalpha() or k[:1] == b"_") or not k.isascii():
        return False
    return all(chr(c).isalnum() or c == 95 for c in k)


def name_ok(k):
    """a member name as a template can write it after a dot: an ASCII identifier, or one with letters beyond ASCII"""
    if ident_ok(k):
        return True
    try:
        t = k.decode("utf-8")
    except UnicodeDecodeError:
        return False
    return bool(t) and (t[0].isalpha() or t[0] == "_") and all(c.isalnum() or c == "_" for c in t)


def first_rune(s):
    """(first character, rest) of the bytes s when s starts with a well-formed multi-byte UTF-8 letter, else None"""
    if s and s[0] >= 0xC0:
        for n in (2, 3, 4):
            try:
                return s[:n].decode("utf-8"), s[n:]
            except UnicodeDecodeError:
                pass
    return None


def lower_first(s):
    """the lower-camel spelling a template author writes: the first LETTER lowered (Python's own Unicode tables)"""
    if s and 65 <= s[0] <= 90:
        return bytes([s[0] + 32]) + s[1:]
    fr = first_rune(s)
    if fr and len(fr[0].lower()) == 1:
        return fr[0].lower().encode("utf-8") + fr[1]
    return s


def upper_first(s):
    if s and 97 <= s[0] <= 122:
        return bytes([s[0] - 32]) + s[1:]
    fr = first_rune(s)
    if fr and len(fr[0].upper()) == 1:
        return fr[0].upper().encode("utf-8") + fr[1]
    return s


# ------------------------------------------------------------------ types of nodes (for the harness)

def ty(n):
    if n.get("tw"):                      # a named non-struct look-alike over the node's own type
        name, var = n["tw"]
        return dict(TW(var, name), under=TWINS[var][name]["under"])
    k = n["k"]
    if k == "twin":
        desc = TWINS[n["var"]][n["name"]]
        return dict(TW(n["var"], n["name"]), **{key: desc[key] for key in ("struct", "emb", "vm", "pm") if key in desc})
    if k == "str":
        return "str"
    if k == "int":
        return n["kind"]
    if k == "float":
        return "float64"
    if k == "bool":
        return "bool"
    if k == "slice":
        return {"slice": n["et"]}
    if k == "map":
        return {"map": n["et"]}
    if k == "ptr":
        return {"ptr": n["t"]}
    if k == "iface" or k == "nil":
        return "Labeler" if n.get("named") else "iface"
    if k == "dstruct":
        return {"struct": [[nm, ty(v)] for nm, v in n["f"]]}
    if k in ("func", "chan", "Item", "Base", "Emb", "EmbV"):
        return k
    raise ValueError(k)


def to_json(n):
    k = n["k"]
    t = ty(n)
    if k == "nil":
        return {"ty": "iface", "v": None}
    if k == "str":
        return {"ty": t, "v": hx(n["v"])}
    if k in ("int", "float", "bool"):
        return {"ty": t, "v": n["v"]}
    if k == "slice":
        return {"ty": t, "v": None if n["v"] is None else [to_json(x) for x in n["v"]]}
    if k == "map":
        return {"ty": t, "v": None if n["v"] is None else [{"k": hx(kk), "v": to_json(x)} for kk, x in n["v"]]}
    if k == "ptr" or k == "iface":
        return {"ty": t, "v": None if n["v"] is None else to_json(n["v"])}
    if k in ("dstruct", "twin"):
        return {"ty": t, "v": [to_json(v) for _, v in n["f"]]}
    if k == "func":
        return {"ty": t, "v": hx(n["r"])}
    if k == "chan":
        return {"ty": t, "v": 1}
    return {"ty": t, "v": {f: to_json(v) for f, v in n["f"].items()}}


# ------------------------------------------------------------------ the family: reflect's view of the hand-written types

def fam_get(n, f, default):
    return n["f"].get(f, default)


def fam_view(n):
    """(fields [(name, exported, node)], vmeths [(name, result node)], pmeths) of a family struct node"""
    k = n["k"]
    if k == "Item":
        name = fam_get(n, "Name", S(b""))
        count = fam_get(n, "Count", I(0))
        tags = fam_get(n, "Tags", {"k": "slice", "et": "str", "v": None})
        nxt = fam_get(n, "Next", {"k": "ptr", "t": "Item", "v": None})
        fields = [("Name", True, name), ("Count", True, count), ("hidden", False, fam_get(n, "hidden", S(b""))),
                  ("Next", True, nxt), ("Any", True, fam_get(n, "Any", {"k": "iface", "named": False, "v": None})),
                  ("Lab", True, fam_get(n, "Lab", {"k": "iface", "named": True, "v": None})),
                  ("Tags", True, tags), ("Attrs", True, fam_get(n, "Attrs", {"k": "map", "et": "int", "v": None})),
                  ("Kids", True, fam_get(n, "Kids", {"k": "map", "et": {"ptr": "Item"}, "v": None}))]
        ntags = 0 if tags["v"] is None else len(tags["v"])
        vm = [("Label", S(b"L:" + name["v"])), ("Double", I(2 * count["v"])), ("TagList", tags)]
        pm = [("Total", I(count["v"] + ntags)), ("Follow", nxt), ("IsBig", {"k": "bool", "v": count["v"] > 100})]
        return fields, vm, pm
    if k == "Base":
        note = fam_get(n, "Note", S(b""))
        return ([("Code", True, fam_get(n, "Code", I(0))), ("Note", True, note)], [],
                [("BaseNote", S(b"note:" + note["v"]))])
    if k == "Emb":
        base = fam_get(n, "C11Base", {"k": "ptr", "t": "Base", "v": None})
        title = fam_get(n, "Title", S(b""))
        bn = S(b"nobase") if base["v"] is None else S(b"note:" + fam_get(base["v"], "Note", S(b""))["v"])
        return ([("C11Base", True, base), ("Title", True, title), ("secret", False, fam_get(n, "secret", I(0)))],
                [("Label", S(b"E:" + title["v"])), ("BaseNote", bn)], [])
    if k == "EmbV":
        base = fam_get(n, "C11Base", {"k": "Base", "f": {}})
        return ([("C11Base", True, base), ("Title", True, fam_get(n, "Title", S(b"")))], [],
                [("BaseNote", S(b"note:" + fam_get(base, "Note", S(b""))["v"]))])
    if k == "twin":
        vm, pm = twin_methods(n)
        return [(nm, is_exported(nm), v) for nm, v in n["f"]], vm, pm
    if k == "dstruct":
        return [(nm, is_exported(nm), v) for nm, v in n["f"]], [], []
    raise ValueError(k)


def embedded_names(n):
    """names of the embedded fields of a struct node"""
    k = n["k"]
    if k in ("Emb", "EmbV"):
        return ["C11Base"]
    if k == "twin":
        return TWINS[n["var"]][n["name"]].get("emb", [])
    return []


# ------------------------------------------------------------------ Gallina

def coq_gv(n):
    k = n["k"]
    if k == "nil":
        return b"GNil"
    if k == "str":
        return b"(GStr " + cq_bytes(n["v"]) + b")"
    if k == "int":
        return b"(GInt " + cq_Z(n["v"]) + b")"
    if k == "float":
        return b"(GFloat " + cq_Z(n["v"]) + b")"
    if k == "bool":
        return b"(GBool " + cq_bool(n["v"]) + b")"
    if k == "slice":
        return b"GSliceNil" if n["v"] is None else b"(GSlice " + cq_list([coq_gv(x) for x in n["v"]]) + b")"
    if k == "map":
        if n["v"] is None:
            return b"GMapNil"
        return b"(GMap " + cq_list([cq_pair(cq_bytes(kk), coq_gv(x)) for kk, x in n["v"]]) + b")"
    if k == "ptr":
        return b"GPtrNil" if n["v"] is None else b"(GPtr " + coq_gv(n["v"]) + b")"
    if k == "iface":
        nm = cq_bool(bool(n.get("named")))
        return b"(GIfaceNil " + nm + b")" if n["v"] is None else b"(GIface " + nm + b" " + coq_gv(n["v"]) + b")"
    if k == "func":
        return b"(GFunc (B \"func() string\") (GStr " + cq_bytes(n["r"]) + b"))"
    if k == "chan":
        return b"GChan"
    if k == "dstruct":
        fs = [b"(" + cq_bytes(nm) + b", " + cq_bool(is_exported(nm)) + b", " + coq_gv(v) + b")" for nm, v in n["f"]]
        return b"(GStruct " + cq_list(fs) + b" [] [])"
    fields, vm, pm = fam_view(n)
    fs = [b"(" + cq_bytes(nm) + b", " + cq_bool(ex) + b", " + coq_gv(v) + b")" for nm, ex, v in fields]
    ms = lambda l: cq_list([b"(" + cq_bytes(nm) + b", " + cq_bytes(SIG[nm]) + b", " + coq_gv(r) + b")" for nm, r in l])
    return b"(GStruct " + cq_list(fs) + b" " + ms(vm) + b" " + ms(pm) + b")"


def idx_computed(st):
    """the index reaches the runtime as a computed number (a pugjs Number), not as a literal"""
    w = st.get("w")
    return bool(w) and (bool(w.get("num")) or bool(w.get("len")) or w.get("lit") == "sub")


def idx_value(d, st):
    """the integer an index step denotes for the page data d (None: its expression reaches no number / list there)"""
    w = st.get("w")
    if not w or not (w.get("num") or w.get("len")):
        return st["i"]
    end, _ = py_walk(d, w.get("num") or w["len"])
    n, _ = strip(end) if end is not None else (None, False)
    if n is None:
        return None
    if w.get("num"):
        if n["k"] not in ("int", "float") or abs(n["v"]) > 2**50:
            return None
        return n["v"] + w.get("add", 0)
    if n["k"] != "slice":
        return None
    return len(n["v"] or []) + w.get("add", 0)


def coq_step(s, d=None):
    if "f" in s:
        return b"(Field " + cq_bytes(unhx(s["f"])) + b")"
    if "k" in s:
        return b"(Key " + cq_bytes(unhx(s["k"])) + b")"
    return b"(Idx " + cq_bool(idx_computed(s)) + b" " + cq_Z(idx_value(d, s)) + b")"


def steps_resolved(d, steps):
    return all("i" not in s or idx_value(d, s) is not None for s in steps)


# ------------------------------------------------------------------ generation of values

def gen_type(rng, depth):
    r = rng.random()
    if depth <= 0 or r < 0.34:
        return rng.choice(["str", "str", "int", "bool", "float64", "iface", rng.choice(INT_KINDS)])
    if r < 0.44:
        return {"slice": gen_type(rng, depth - 1)}
    if r < 0.56:
        return {"map": gen_type(rng, depth - 1)}
    if r < 0.66:
        return {"ptr": gen_type(rng, depth - 1)}
    if r < 0.80:
        return {"struct": [[nm, gen_type(rng, depth - 1)] for nm in struct_names(rng, 0, 4)]}
    if r < 0.90:
        if rng.random() < 0.3:       # the hand-written family with colliding members
            t = TW("K", rng.choice(CLASH_TYPES))
            return t if rng.random() < 0.6 else {"ptr": t}
        if rng.random() < 0.2:       # ... with members whose first letter is not ASCII
            t = TW("K", rng.choice(WIDE_TYPES))
            return t if rng.random() < 0.5 else {"ptr": t}
        return rng.choice(["Item", "Item", "Emb", "EmbV", "Base", {"ptr": "Item"}, {"ptr": "Emb"}, {"ptr": "EmbV"}, {"ptr": "Base"}])
    if r < 0.95:
        return "Labeler"
    if r < 0.975:
        return "func"
    if r < 0.985:
        return "chan"
    return "iface"


# ------------------------------------------------------------------ members that collide after the lower-camel mapping
# The member table of a struct is keyed by lowerFirst(name), Go keeps the names apart: an exported field Title and an
# unexported field title are two fields; so are an unexported field holder and a method Holder(), an embedded type
# Inner and a field inner. Which of the two is declared first must not matter: the unexported one is never a member.

CLASH_STRUCT_SHARE = 0.30   # share of the reflect.StructOf types (anywhere in the data) that declare unexported fields
CLASH_SHARE = 0.15          # share of the page data that is built around a struct with colliding members
CLASH_PATH_SHARE = 0.35     # where page data has such a struct: share of its paths that aim at the collision
UNEXPORTED_EXTRA = ["hidden", "secret", "cache", "mu", "state", "_x", "raw"]


def struct_names(rng, lo, hi, force=False):
    """the field names of a reflect.StructOf type in declaration order. For CLASH_STRUCT_SHARE of the types (force:
    always) some are unexported: the lower-camel spelling of an exported field of the same type (Title/title, ID/iD:
    the two collide in the member table), its all-lower spelling (id, url: a near miss), or an unrelated name;
    declared after the exported fields, before them, or anywhere between them"""
    names = rng.sample(FIELD_NAMES, rng.randint(lo, hi))
    if names and rng.random() < WIDE_STRUCT_SHARE:      # names whose first letter is not ASCII, in any position
        for w in rng.sample(WIDE_NAMES, rng.choice([1, 1, 2])):
            i = rng.randrange(len(names) + 1)
            if rng.random() < 0.5 and len(names) > 1:
                names[i % len(names)] = w
            else:
                names.insert(i, w)
    if not names or not (force or rng.random() < CLASH_STRUCT_SHARE):
        return names
    extra = [lower_first(nm.encode()).decode() for nm in rng.sample(names, min(len(names), rng.choice([1, 1, 2, 3])))]
    if rng.random() < 0.3:
        extra.append(rng.choice(names).lower())
    if rng.random() < 0.3:
        extra.append(rng.choice(UNEXPORTED_EXTRA))
    extra = [x for i, x in enumerate(extra) if x not in names and x not in extra[:i]]
    order = rng.choice(["after", "after", "before", "mixed", "mixed"])
    if order == "after":
        return names + extra
    if order == "before":
        return extra + names
    out = names + extra
    rng.shuffle(out)
    return out


def struct_view(n):
    """(fields [(name, exported, node)], value methods, pointer methods, embedded field names) of a struct node"""
    fields, vm, pm = fam_view(n)
    return fields, vm, pm, embedded_names(n)


def is_struct(n):
    return n is not None and n["k"] in ("dstruct", "twin", "Item", "Base", "Emb", "EmbV")


def collision_of(sn, via_ptr, u):
    """how the unexported field u of the struct node sn collides: (what, order)"""
    fields, vm, pm, emb = struct_view(sn)
    names = [nm for nm, _, _ in fields]
    for nm, ex, _ in fields:
        if ex and lower_first(nm.encode()).decode() == u:
            what = "embedded_and_outer" if (nm in emb or u in emb) else "field_pair"
            return what, "exported_first" if names.index(nm) < names.index(u) else "unexported_first"
    for nm, _ in vm + pm:
        if lower_first(nm.encode()).decode() == u:
            inset = nm in [m for m, _ in vm] or via_ptr
            return "field_and_method", "method_in_set" if inset else "method_of_pointer_only"
    if any(ex and nm.lower() == u.lower() for nm, ex, _ in fields):
        return "near_miss", "-"
    return "lone_unexported", "-"


def clash_sites(d):
    """[(steps, struct node, held by pointer)]: the structs among the positions of d (d itself included) that
    declare an unexported field"""
    out = []
    for steps, n in [([], d)] + positions(d):
        sn, via_ptr = strip(n)
        if is_struct(sn) and any(not ex for _, ex, _ in fam_view(sn)[0]):
            out.append((steps, sn, via_ptr))
    return out


def gen_clash_path(rng, d, sites):
    """a path that aims at a collision: the colliding name itself (it reaches the exported member, whatever the order
    of declaration, and nothing when the unexported field stands alone), its capitalised spelling (never a member),
    a neighbour of the collision in the same struct, or a step beyond an unexported composite; (steps, kind) or None"""
    real = [(st, sn, vp) for st, sn, vp in sites
            if any(not ex and collision_of(sn, vp, nm)[0] not in ("lone_unexported", "near_miss") for nm, ex, _ in fam_view(sn)[0])]
    steps, sn, via_ptr = rng.choice(real if real and rng.random() < 0.8 else sites)
    fields, vm, pm, emb = struct_view(sn)
    unexp = [nm for nm, ex, _ in fields if not ex]
    colliding = [u for u in unexp if collision_of(sn, via_ptr, u)[0] not in ("lone_unexported", "near_miss")]
    u = rng.choice(colliding if colliding and rng.random() < 0.75 else unexp)
    r = rng.random()
    tail = []
    if r < 0.55:
        name, aim = u.encode(), "collision"
    elif r < 0.67:
        name, aim = upper_first(u.encode()), "capitalised"
    elif r < 0.87:
        others = [lower_first(nm.encode()) for nm, ex, _ in fields if ex] + [lower_first(nm.encode()) for nm, _ in vm + (pm if via_ptr else [])]
        others = [x for x in others if x != u.encode()]
        if not others:
            return None
        name, aim = rng.choice(others), "neighbour"
    else:
        name, aim = u.encode(), "beyond"
        tail = rng.choice([[{"f": hx(rng.choice([b"name", b"title", b"x", b"k1"]))}], [{"i": 0}], [{"k": hx(b"k1")}],
                           [{"f": hx(b"title")}, {"i": -1}]])
    if not name_ok(name) or (not steps and name in (b"global", b"range")):
        return None
    path = copy.deepcopy(steps) + [{"f": hx(name)}]
    if tail:
        path += tail
    else:
        end, _ = py_walk(d, path)
        if end is not None and not is_leafish(end):     # go on to a leaf
            more, _, end = random_walk(rng, end, rng.choice([1, 2, 3]), first=False)
            path += more
    return path, "clash:" + aim


def path_collisions(d, steps):
    """[(what, order)]: the steps of the path that name an unexported field of the struct they are applied to"""
    out, cur = [], d
    for st in steps:
        if cur is None:
            break
        if "f" in st:
            sn, via_ptr = strip(cur)
            if is_struct(sn):
                name = unhx(st["f"]).decode("latin-1")
                if any(nm == name and not ex for nm, ex, _ in fam_view(sn)[0]):
                    out.append(collision_of(sn, via_ptr, name))
        if "i" in st:
            st = {"i": idx_value(d, st)}
        cur, _ = py_step(cur, st)
    return out


def gen_clash_struct(rng, depth):
    """a struct value with colliding members: one of the hand-written family, or a reflect.StructOf type whose
    colliding exported fields are mostly leaves"""
    if rng.random() < 0.45:
        return gen_value(rng, TW("K", rng.choice(CLASH_TYPES)), depth)
    names = struct_names(rng, 1, 4, force=True)
    leaf = lambda: rng.choice(["str", "str", "int", "bool", "float64", rng.choice(INT_KINDS)])
    fs = [[nm, leaf() if rng.random() < 0.6 else gen_type(rng, depth - 1)] for nm in names]
    return gen_value(rng, {"struct": fs}, depth)


def gen_clash_data(rng, depth):
    """page data around a struct with colliding members, held in any position of WRAPPERS"""
    v = gen_clash_struct(rng, min(depth, 3))
    w = rng.choice(WRAPPERS)
    extra = [(kk, gen_value(rng, "iface", 1)) for kk in rng.sample([b"title", b"count", b"meta", b"x"], rng.choice([0, 0, 1, 2]))]
    return wrap(rng, w, v, extra)


def gen_wide_data(rng, depth):
    """page data around a struct with members whose first letter is not ASCII: the hand-written family (fields, an
    unexported lower-camel twin, methods of both receivers) or a reflect.StructOf type with 1-3 such field names
    (and, half the time, their unexported lower-camel twins) between ASCII ones; in any position of WRAPPERS - at
    the top level its members are the page's global names"""
    if rng.random() < 0.4:
        v = gen_value(rng, TW("K", rng.choice(WIDE_TYPES)), min(depth, 3))
    else:
        names = rng.sample(WIDE_NAMES, rng.choice([1, 2, 2, 3])) + rng.sample(FIELD_NAMES, rng.choice([0, 1, 2]))
        if rng.random() < 0.5:
            names += [lower_first(nm.encode()).decode() for nm in rng.sample(names, min(len(names), rng.choice([1, 2])))]
        names = [x for i, x in enumerate(names) if x not in names[:i]]
        rng.shuffle(names)
        leaf = lambda: rng.choice(["str", "str", "int", "bool", "float64", rng.choice(INT_KINDS)])
        v = gen_value(rng, {"struct": [[nm, leaf() if rng.random() < 0.65 else gen_type(rng, min(depth, 3) - 1)] for nm in names]}, depth)
    w = rng.choice(WRAPPERS + ["top", "top"])
    extra = [(kk, gen_value(rng, "iface", 1)) for kk in rng.sample([b"title", b"count", b"meta", b"x"], rng.choice([0, 0, 1, 2]))]
    return wrap(rng, w, v, extra)


def wide_sites(d):
    """[(steps, node)]: the positions of d whose path goes through a member name with a non-ASCII first letter"""
    return [(steps, n) for steps, n in positions(d)
            if any("f" in st and unhx(st["f"])[:1] >= b"\x80" for st in steps)]


def gen_wide_path(rng, d, wsites):
    """a path through a member whose first letter is not ASCII: to a leaf behind it, or with that name capitalised
    (the Go spelling: never a member); (steps, kind) or None"""
    steps, n = rng.choice(wsites)
    steps = copy.deepcopy(steps)
    if rng.random() < 0.2:
        i = rng.choice([k for k, st in enumerate(steps) if "f" in st and unhx(st["f"])[:1] >= b"\x80"])
        steps[i] = {"f": hx(upper_first(unhx(steps[i]["f"])))}
        return steps, "wide:capitalised"
    if not is_leafish(n):
        more, _, n = random_walk(rng, n, rng.choice([1, 2, 3]), first=False)
        steps += more
    return steps, "wide:member"


# ------------------------------------------------------------------ lists without elements, and statements that push
# Most lists of real page data are empty. The conversion of one render makes a list of its own for every slice,
# the empty and the nil ones included: a template that pushes onto one (`- crumbs.push('Home')`) changes that list
# of that render and nothing else - not the Go data, not another list of the same tree, not what a later render
# (of this or another page, with this or other data) reads at [0] or [length - 1] of a list without elements.

EMPTIES_SHARE = 0.08        # share of the page data with lists at several places, most of them without elements
PUSH_SHARE = 0.35           # where page data has a list: share of the values whose paths include push statements
PUSH_VALUES = [b"Home", b"pushed", b"<b>", b"0", b"x"]
LIST_FIELD_NAMES = ["Crumbs", "Items", "Tags", "Errors", "Kids", "Rows", "Notes", "Links"]


def gen_empties_data(rng, depth):
    """page data with 2-6 lists at several places of one tree - fields of the page struct / entries of the page map,
    of a struct below it (by value or behind a pointer), C11Item's Tags - most of them nil or empty"""
    def lst():
        et = rng.choice(["str", "str", "int", "iface", {"ptr": "Item"}, "Item", {"struct": [["Name", "str"], ["Price", "int"]]}, {"slice": "str"}])
        r = rng.random()
        v = None if r < 0.35 else [] if r < 0.8 else [gen_value(rng, et, 1) for _ in range(rng.choice([1, 2]))]
        return {"k": "slice", "et": et, "v": v}
    fields = [(nm, lst()) for nm in rng.sample(LIST_FIELD_NAMES, rng.randint(2, 4))]
    if rng.random() < 0.6:
        inner = {"k": "dstruct", "f": [(nm, lst()) for nm in rng.sample(["Items", "Tags", "Path"], 2)] + [("Name", S(rng.choice(STRINGS)))]}
        fields.append(("Box", inner if rng.random() < 0.5 else {"k": "ptr", "t": ty(inner), "v": inner}))
    if rng.random() < 0.4:
        fields.append(("Item", {"k": "Item", "f": {"Name": S(b"n"), "Tags": {"k": "slice", "et": "str", "v": rng.choice([None, []])}}}))
    fields.append(("Title", S(rng.choice(STRINGS))))
    rng.shuffle(fields)
    if rng.random() < 0.55:
        holder = {"k": "dstruct", "f": fields}
    else:
        holder = {"k": "map", "et": "iface", "v": [(lower_first(nm.encode()), {"k": "iface", "named": False, "v": v}) for nm, v in fields]}
    w = rng.choice(WRAPPERS + ["top", "top", "top"])
    extra = [(kk, gen_value(rng, "iface", 1)) for kk in rng.sample([b"title", b"count", b"meta", b"x"], rng.choice([0, 0, 1]))]
    return wrap(rng, w, holder, extra)


def list_kind(ln):
    return "nil_list" if ln["v"] is None else "empty_list" if not ln["v"] else "list"


def add_pushes(rng, d, paths, kinds, lists):
    """puts 1-3 push statements (on lists of d, mostly on those without elements) among the first paths, and after
    them reads of [0], [length - 1 + 1], [0].name of lists without elements (the same list and others)"""
    empties = [l for l in lists if not l[1]["v"]]
    at = 0
    for _ in range(rng.choice([1, 1, 2, 3])):
        lsteps, ln = rng.choice(empties if empties and rng.random() < 0.8 else lists)
        at = rng.randint(at, min(len(paths), at + 2))
        paths.insert(at, {"steps": copy.deepcopy(lsteps), "raw": False, "push": hx(rng.choice(PUSH_VALUES))})
        kinds.insert(at, "push:" + list_kind(ln))
        at += 1
    have = {json.dumps(p["steps"]) for p in paths if "push" not in p}
    for lsteps, ln in rng.sample(empties, min(len(empties), rng.choice([1, 2, 3]))):
        r = rng.random()
        if r < 0.6:
            st, form = {"i": 0}, "literal"
        elif r < 0.8:
            st, form = {"i": 0, "w": {"len": lsteps, "add": 0}}, "length"
        else:
            other = rng.choice(empties)
            st, form = {"i": -1, "w": {"len": other[0], "add": -1}}, "length"
        steps = copy.deepcopy(lsteps) + [st] + rng.choice([[], [], [{"f": hx(b"name")}]])
        if json.dumps(steps) not in have:
            have.add(json.dumps(steps))
            paths.append({"steps": steps, "raw": rng.random() < 0.2})
            kinds.append("index:%s:%s:%s" % ("below_zero" if st["i"] < 0 else "beyond_length", form, list_kind(ln)))


def gen_int(rng, kind):
    lo, hi = INT_RANGE[kind]
    r = rng.random()
    if r < 0.5:
        v = rng.randint(max(lo, -20), min(hi, 120))
    elif r < 0.9:
        v = rng.randint(max(lo, -10**10 + 1), min(hi, 10**10 - 1))
    elif r < 0.96:
        v = rng.choice([x for x in (0, lo, hi, 9999999999, -9999999999) if lo <= x <= hi and abs(x) < 10**10] or [0])
    else:
        v = rng.choice([x for x in (10**10, -10**10, hi, lo) if lo <= x <= hi])    # beyond the leaf domain
    return I(v, kind)


def gen_item(rng, depth):
    f = {}
    if rng.random() < 0.9:
        f["Name"] = S(rng.choice(STRINGS))
    if rng.random() < 0.8:
        f["Count"] = I(rng.choice([0, 1, 3, 7, 101, 250, -4, 99999]))
    if rng.random() < 0.6:
        f["hidden"] = S(rng.choice([b"h", b"secret!", b"hid"]))
    if depth > 0 and rng.random() < 0.5:
        f["Next"] = {"k": "ptr", "t": "Item", "v": gen_item(rng, depth - 2) if rng.random() < 0.7 else None}
    if rng.random() < 0.5:
        f["Any"] = gen_value(rng, "iface", depth - 1)
    if depth > 0 and rng.random() < 0.5:
        f["Lab"] = gen_value(rng, "Labeler", depth - 1)
    if rng.random() < 0.6:
        f["Tags"] = gen_value(rng, {"slice": "str"}, 1)
    if rng.random() < 0.4:
        f["Attrs"] = gen_value(rng, {"map": "int"}, 1)
    if depth > 0 and rng.random() < 0.3:
        f["Kids"] = gen_value(rng, {"map": {"ptr": "Item"}}, depth - 2)
    return {"k": "Item", "f": f}


def gen_base(rng):
    f = {}
    if rng.random() < 0.8:
        f["Code"] = I(rng.randint(0, 50))
    if rng.random() < 0.8:
        f["Note"] = S(rng.choice(STRINGS))
    return {"k": "Base", "f": f}


def with_case_pair(rng, keys):
    """sometimes both spellings of a key (`title` and `Title`): the exact name must win over the folded one"""
    if keys and rng.random() < 0.25:
        k = rng.choice(keys)
        for v in (upper_first(k), lower_first(k)):
            if v != k and v not in keys:
                keys = keys + [v]
                rng.shuffle(keys)
                break
    return keys


def gen_twin(rng, t, depth):
    """a value of the look-alike type t = {"twin": name, "var": scope}"""
    name, var = t["twin"], t["var"]
    desc = TWINS[var][name]
    if "under" in desc:
        n = gen_value(rng, desc["under"], depth)
        n["tw"] = (name, var)
        return n
    fs = []
    for nm, ft in desc["struct"]:
        if depth <= 0 and isinstance(ft, dict) and ("ptr" in ft or "slice" in ft or "map" in ft) and "twin" in json.dumps(ft):
            k = "ptr" if "ptr" in ft else "slice" if "slice" in ft else "map"      # recursive types end here
            fs.append((nm, {"k": k, "t" if k == "ptr" else "et": ft[k], "v": None}))
        else:
            fs.append((nm, gen_value(rng, ft, depth - 1)))
    return {"k": "twin", "name": name, "var": var, "f": fs}


def gen_value(rng, t, depth):
    if isinstance(t, dict) and "twin" in t:
        return gen_twin(rng, t, depth)
    if isinstance(t, str):
        if t == "str":
            return S(rng.choice(STRINGS))
        if t in INT_KINDS:
            return gen_int(rng, t)
        if t == "float64":
            return {"k": "float", "v": rng.choice([0, 1, -3, 12, 1000000, 2**31, -7, 9999999999])}
        if t == "bool":
            return {"k": "bool", "v": rng.random() < 0.5}
        if t == "iface":
            if rng.random() < 0.15:
                return {"k": "iface", "named": False, "v": None}
            tt = gen_type(rng, depth)
            while tt in ("iface", "Labeler"):
                tt = gen_type(rng, depth)
            return {"k": "iface", "named": False, "v": gen_value(rng, tt, depth)}
        if t == "Labeler":
            r = rng.random()
            if r < 0.2:
                return {"k": "iface", "named": True, "v": None}
            if r < 0.4:
                return {"k": "iface", "named": True, "v": {"k": "ptr", "t": rng.choice(["Item", "Emb"]), "v": None}}
            if r < 0.6:
                return {"k": "iface", "named": True, "v": gen_item(rng, depth - 1)}
            if r < 0.8:
                return {"k": "iface", "named": True, "v": {"k": "ptr", "t": "Item", "v": gen_item(rng, depth - 1)}}
            e = gen_value(rng, "Emb", depth - 1)
            return {"k": "iface", "named": True, "v": e if r < 0.9 else {"k": "ptr", "t": "Emb", "v": e}}
        if t == "func":
            return {"k": "func", "r": rng.choice(STRINGS)}
        if t == "chan":
            return {"k": "chan"}
        if t == "Item":
            return gen_item(rng, depth)
        if t == "Base":
            return gen_base(rng)
        if t == "Emb":
            f = {"Title": S(rng.choice(STRINGS))}
            if rng.random() < 0.65:
                f["C11Base"] = {"k": "ptr", "t": "Base", "v": gen_base(rng)}
            if rng.random() < 0.5:
                f["secret"] = I(rng.randint(1, 9))
            return {"k": "Emb", "f": f}
        if t == "EmbV":
            f = {"Title": S(rng.choice(STRINGS))}
            if rng.random() < 0.8:
                f["C11Base"] = gen_base(rng)
            return {"k": "EmbV", "f": f}
        raise ValueError(t)
    if "slice" in t:
        if rng.random() < 0.12:
            return {"k": "slice", "et": t["slice"], "v": None}
        return {"k": "slice", "et": t["slice"], "v": [gen_value(rng, t["slice"], depth - 1) for _ in range(rng.choice([0, 1, 2, 2, 3]))]}
    if "map" in t:
        if rng.random() < 0.12:
            return {"k": "map", "et": t["map"], "v": None}
        keys = with_case_pair(rng, rng.sample(MAP_KEYS, rng.choice([0, 1, 2, 3, 3, 4, 5])))
        return {"k": "map", "et": t["map"], "v": [(kk, gen_value(rng, t["map"], depth - 1)) for kk in keys]}
    if "ptr" in t:
        if rng.random() < 0.22:
            return {"k": "ptr", "t": t["ptr"], "v": None}
        return {"k": "ptr", "t": t["ptr"], "v": gen_value(rng, t["ptr"], depth - 1)}
    if "struct" in t:
        return {"k": "dstruct", "f": [(nm, gen_value(rng, ft, depth - 1)) for nm, ft in t["struct"]]}
    raise ValueError(t)


def gen_data(rng, tier):
    depth = rng.choice([1, 2, 2, 3, 3, 4] if tier == "quick" else [1, 2, 3, 3, 4, 4, 5])
    if rng.random() < INDEXED_SHARE:
        return gen_indexed_data(rng, depth)
    if rng.random() < CLASH_SHARE / (1 - INDEXED_SHARE):
        return gen_clash_data(rng, depth)
    r = rng.random()
    if r < WIDE_SHARE:
        return gen_wide_data(rng, depth)
    if r < WIDE_SHARE + EMPTIES_SHARE:
        return gen_empties_data(rng, depth)
    r = rng.random()
    if r < 0.40:      # the usual page data: map[string]interface{}
        keys = with_case_pair(rng, rng.sample([k for k in MAP_KEYS if ident_ok(k)], rng.randint(1, 5)))
        return {"k": "map", "et": "iface", "v": [(kk, gen_value(rng, "iface", depth)) for kk in keys]}
    if r < 0.55:
        names = struct_names(rng, 1, 5)
        return {"k": "dstruct", "f": [(nm, gen_value(rng, gen_type(rng, depth), depth)) for nm in names]}
    if r < 0.65:
        return gen_item(rng, depth)
    if r < 0.80:
        t = rng.choice(["Item", "Emb", "EmbV", "Base"])
        return {"k": "ptr", "t": t, "v": gen_value(rng, t, depth) if rng.random() < 0.9 else None}
    if r < 0.88:
        t = {"map": rng.choice(["str", "int", {"ptr": "Item"}, {"slice": "int"}, "Labeler", "Item"])}
        return gen_value(rng, t, depth)
    if r < 0.92:
        d = {"k": "dstruct", "f": [(nm, gen_value(rng, gen_type(rng, depth - 1), depth - 1)) for nm in rng.sample(FIELD_NAMES, 3)]}
        return {"k": "ptr", "t": ty(d), "v": d}
    if r < 0.94:
        return {"k": "nil"}
    if r < 0.97:
        return gen_value(rng, {"slice": "iface"}, depth)
    return gen_value(rng, rng.choice(["Emb", "EmbV", "str", "int"]), depth)


# ------------------------------------------------------------------ the walk (what a path reaches in Go), for path enumeration

def strip(n):
    via_ptr = False
    while n is not None and n["k"] in ("ptr", "iface"):
        via_ptr = n["k"] == "ptr"
        n = n["v"]
    return n, via_ptr


def children(n):
    """[(step, child node, tag)] selectable on n"""
    s, via_ptr = strip(n)
    out = []
    if s is None:
        return out
    k = s["k"]
    if k == "map" and s["v"]:
        for kk, v in s["v"]:
            out.append(({"k": hx(kk)}, v, "key"))
            if ident_ok(kk):
                out.append(({"f": hx(kk)}, v, "mapfield"))
    elif k == "slice" and s["v"]:
        for i, v in enumerate(s["v"]):
            out.append(({"i": i}, v, "idx"))
    elif k == "dstruct":
        for nm, v in s["f"]:
            if is_exported(nm):
                out.append(({"f": hx(lower_first(nm.encode()))}, v, "field"))
    elif k in ("Item", "Base", "Emb", "EmbV", "twin"):
        fields, vm, pm = fam_view(s)
        for nm, ex, v in fields:
            if ex:
                out.append(({"f": hx(lower_first(nm.encode()))}, v, "field"))
        for nm, r in vm + (pm if via_ptr else []):
            out.append(({"f": hx(lower_first(nm.encode()))}, r, "method"))
    return out


def is_leafish(n):
    s, _ = strip(n)
    return s is None or s["k"] in ("str", "int", "float", "bool", "nil", "chan")


def random_walk(rng, d, maxlen, first=True):
    """a path that follows the tree; returns (steps, tags, end node)"""
    steps, tags = [], []
    cur = d
    while len(steps) < maxlen:
        ch = children(cur)
        if first:
            ch = [c for c in ch if "f" in c[0]]
        if not ch:
            break
        # prefer going on while the value is composite
        st, nxt, tag = rng.choice(ch)
        steps.append(st)
        tags.append(tag)
        cur = nxt
        first = False
        if is_leafish(cur) or rng.random() < 0.05:
            break
    return steps, tags, cur


def fold_variants(name):
    """names that Map.Member's chain folds onto `name` (or not): wrong case, id/url/api spelled lower-case"""
    out = [upper_first(name), name.upper(), name.lower(), lower_first(name)]
    for a, b_ in ((b"ID", b"id"), (b"URL", b"url"), (b"API", b"api"), (b"Id", b"id")):
        if a in name:
            out.append(name.replace(a, b_))
            out.append(lower_first(name.replace(a, b_)))
    return [x for x in out if x != name and name_ok(x)]


def break_path(rng, d, steps, tags):
    """one broken / hostile variant of a good path"""
    steps = copy.deepcopy(steps)
    if not steps:
        return [{"f": hx(rng.choice(ABSENT_NAMES))}], "absent_top"
    r = rng.random()
    i = rng.randrange(len(steps))
    if r < 0.15:          # missing name / key
        st = steps[i]
        if "f" in st or i == 0:
            steps[i] = {"f": hx(rng.choice(ABSENT_NAMES))}
        elif "k" in st:
            steps[i] = {"k": hx(rng.choice([b"missing", b"", b"zz", b"Name", b"<int Value>", b"k9"]))}
        else:
            steps[i] = {"i": rng.choice([st["i"] + 1, st["i"] + 2, st["i"] + 5, st["i"] + 40, -1, -2, -1 - st["i"], -40])}
        return steps[:i + 1] + (steps[i + 1:] if rng.random() < 0.5 else []), "missing"
    if r < 0.24:          # out of range
        steps = steps[:i + 1] + [{"i": rng.choice([0, 1, 3, 17, -1, -3])}]
        return steps, "extra_idx"
    if r < 0.44:          # wrong case / folding spellings
        st = steps[i]
        if "f" in st:
            vs = fold_variants(unhx(st["f"]))
            if vs:
                steps[i] = {"f": hx(rng.choice(vs))}
                return steps, "wrong_case"
        if "k" in st and i > 0:
            k = unhx(st["k"])
            steps[i] = {"k": hx(rng.choice([upper_first(k), lower_first(k), k.upper()]))}
            return steps, "wrong_case_key"
        return steps + [{"f": hx(rng.choice(ABSENT_NAMES))}], "extra_field"
    if r < 0.56:          # one more step after the end (field of a leaf, of nil, ...)
        extra = rng.choice([{"f": hx(rng.choice(ABSENT_NAMES))}, {"k": hx(rng.choice([b"k", b"name"]))}, {"i": rng.choice([0, 2, -1])}])
        return steps + [extra], "beyond_end"
    if r < 0.66:          # unexported
        at, _ = py_walk(d, steps[:i + 1])
        sn, _ = strip(at) if at is not None else (None, False)
        own = [nm for nm, ex, _ in fam_view(sn)[0] if not ex] if is_struct(sn) else []
        if own and rng.random() < 0.7:      # an unexported field that is really there
            nm = rng.choice(own).encode()
            if name_ok(nm):
                return steps[:i + 1] + [{"f": hx(rng.choice([nm, nm, upper_first(nm)]))}] + ([{"f": hx(b"x")}] if rng.random() < 0.3 else []), "unexported"
        return steps[:i + 1] + [{"f": hx(rng.choice([b"hidden", b"secret", b"Hidden"]))}] + ([{"f": hx(b"x")}] if rng.random() < 0.3 else []), "unexported"
    if r < 0.76:          # undefined top-level name with a tail
        tail = rng.choice([[], [{"f": hx(b"x")}], [{"i": 0}], [{"i": -1}], [{"k": hx(b"k")}], [{"f": hx(b"a")}, {"f": hx(b"b")}], [{"f": hx(b"a")}, {"i": 1}, {"f": hx(b"c")}]])
        return [{"f": hx(rng.choice([b"missing", b"undefinedName", b"zz", b"Nope"]))}] + tail, "undefined_top"
    if r < 0.84:          # bracket instead of dot and the other way round
        st = steps[i]
        if "f" in st and i > 0:
            steps[i] = {"k": st["f"]}
            return steps, "bracket_for_dot"
        if "k" in st and ident_ok(unhx(st["k"])):
            steps[i] = {"f": st["k"]}
            return steps, "dot_for_bracket"
        return steps[:i + 1], "prefix"
    if r < 0.92:          # a prefix: ends on a composite or a shorter leaf
        return steps[:i + 1], "prefix"
    # kind mismatch: index a map / key a slice
    st = steps[i]
    if i > 0 and "i" in st:
        steps[i] = {"k": hx(b"0")}
    elif i > 0 and "k" in st:
        steps[i] = {"i": 0}
    else:
        steps = steps + [{"i": 0}]
    return steps, "kind_mismatch"


def py_step(n, st, first=False):
    """what one step reaches in Go (node) or None; mirrors children()"""
    for c, child, tag in children(n):
        if c == st:
            return child, tag
    return None, None


def py_walk(d, steps):
    """(end node or None, tag of the first step)"""
    cur, first_tag = d, None
    for i, st in enumerate(steps):
        if "i" in st:                    # an index counts by the integer it denotes, however it is written
            st = {"i": idx_value(d, st)}
        cur, tag = py_step(cur, st)
        if i == 0:
            first_tag = tag
        if cur is None:
            return None, first_tag
    return cur, first_tag


def admit(rng, d, steps, raw):
    """keeps the listed findings and the model's blind spots rare; returns (keep, raw)"""
    if not steps or "f" not in steps[0]:
        return False, raw
    end, first_tag = py_walk(d, steps)
    if first_tag == "method" and rng.random() < 0.85:
        return False, raw        # a method of the page data itself is the listed finding F-C11-b: keep it rare
    if end is not None and not is_leafish(end) and rng.random() < 0.9:
        return False, raw        # ends on a composite: outside the model's printing
    if raw and first_tag is None and all("f" in s for s in steps) and rng.random() < 0.85:
        raw = False              # `!= missing` is the listed finding F-C11-c: keep it rare
    return True, raw


def gen_paths(rng, d, tier, push_share=PUSH_SHARE):
    n = rng.randint(3, 8) if tier == "quick" else rng.randint(4, 10)
    out, kinds = [], []
    seen = set()
    sites = index_sites(d)
    csites = clash_sites(d)
    wsites = wide_sites(d)
    for _ in range(n * 4):
        if len(out) >= n:
            break
        if wsites and rng.random() < WIDE_PATH_SHARE:
            wp = gen_wide_path(rng, d, wsites)
            keep, raw = admit(rng, d, wp[0], rng.random() < 0.2)
            if keep and (json.dumps(wp[0]), raw) not in seen:
                seen.add((json.dumps(wp[0]), raw))
                out.append({"steps": wp[0], "raw": raw})
                kinds.append(wp[1])
            continue
        if csites and rng.random() < CLASH_PATH_SHARE:
            cp = gen_clash_path(rng, d, csites)
            if cp:
                keep, raw = admit(rng, d, cp[0], rng.random() < 0.2)
                if keep and (json.dumps(cp[0]), raw) not in seen:
                    seen.add((json.dumps(cp[0]), raw))
                    out.append({"steps": cp[0], "raw": raw})
                    kinds.append(cp[1])
            continue
        if sites[0] and rng.random() < INDEX_PATH_SHARE:
            ip = gen_index_path(rng, d, sites)
            if ip and (json.dumps(ip[0]), False) not in seen:
                raw = rng.random() < 0.2
                seen.add((json.dumps(ip[0]), raw))
                out.append({"steps": ip[0], "raw": raw})
                kinds.append(ip[1])
            continue
        steps, tags, end = random_walk(rng, d, rng.choice([2, 3, 4, 6, 8]))
        kind = "good"
        raw = rng.random() < 0.3
        if rng.random() < 0.45 or not steps:
            steps, kind = break_path(rng, d, steps, tags)
        elif "method" in tags:
            kind = "good_method"
        keep, raw = admit(rng, d, steps, raw)
        if not keep:
            continue
        key = (json.dumps(steps), raw)
        if key in seen:
            continue
        seen.add(key)
        out.append({"steps": steps, "raw": raw})
        kinds.append(kind)
    if not out:
        out.append({"steps": [{"f": hx(b"missing")}], "raw": False})
        kinds.append("undefined_top")
    if sites[2] and rng.random() < push_share:
        add_pushes(rng, d, out, kinds, sites[2])
    return out, kinds


# ------------------------------------------------------------------ lists, numbers and the indices between them

INDEXED_SHARE = 0.20      # share of the page data that is built around a list and numbers near its bounds
INDEX_PATH_SHARE = 0.45   # where page data has a list or a string: share of its paths that index it
LIST_ELEMS = ["str", "str", "int", "Item", {"ptr": "Item"}, {"ptr": "Item"}, "iface", "Labeler", {"ptr": "Base"}, "float64", "bool",
              {"struct": [["Name", "str"], ["Price", "int"]]}, {"ptr": {"struct": [["Name", "str"], ["Kids", {"slice": "str"}]]}},
              {"slice": "int"}, {"map": "str"}, "uint8"]
FAR = [2**31 - 1, 2**31, 2**32, 10**6, 4 * 10**12, 2**40, 2**62]


def gen_list(rng, et, depth):
    r = rng.random()
    if r < 0.22:
        v = None
    elif r < 0.42:
        v = []
    else:
        v = [gen_value(rng, et, depth - 1) for _ in range(rng.choice([1, 1, 2, 2, 3, 4]))]
    return {"k": "slice", "et": et, "v": v}


def bound_number(rng, L):
    """a number as page data carries it next to a list of length L: a position, an offset, a count"""
    return rng.choice([-1, -1, -2, -3, -L - 1, -L, 0, 0, L - 1, L - 1, L, L, L + 1, L + 4, 1, 2, -17, 250, 10**6, -10**6, 2**31, -2**31])


def gen_indexed_data(rng, depth):
    """page data around a list: the list (nil / empty / 1-4 elements of any type), one or two numbers near its
    bounds, a string; as fields of a struct, entries of a map or the family type; held in any position of WRAPPERS"""
    depth = min(depth, 3)
    r = rng.random()
    if r < 0.2:            # C11Item: Tags next to Count (and TagList(), Total())
        tags = gen_list(rng, "str", 1)
        f = {"Name": S(rng.choice(STRINGS)), "Tags": tags, "Count": I(bound_number(rng, len(tags["v"] or [])))}
        if rng.random() < 0.4:
            f["Attrs"] = {"k": "map", "et": "int", "v": [(rng.choice([b"pos", b"n", b"k1"]), I(bound_number(rng, len(tags["v"] or []))))]}
        holder = {"k": "Item", "f": f}
    else:
        lst = gen_list(rng, rng.choice(LIST_ELEMS), depth)
        L = len(lst["v"] or [])
        names = rng.sample([n for n in FIELD_NAMES if n not in ("Valid", "Id", "Url")], 5)
        def num():
            if rng.random() < 0.15:
                return {"k": "float", "v": rng.choice([-1, 0, L - 1, L, -2])}
            kind, v = rng.choice(["int", "int", "int", "int64", "int32", "int8"]), bound_number(rng, L)
            return I(v if INT_RANGE[kind][0] <= v <= INT_RANGE[kind][1] else L - 1, kind)
        fields = [(names[0], lst), (names[1], num())]
        if rng.random() < 0.6:
            fields.append((names[2], num()))
        if rng.random() < 0.6:
            fields.append((names[3], S(rng.choice(STRINGS))))
        if rng.random() < 0.35:
            fields.append((names[4], gen_list(rng, rng.choice(LIST_ELEMS), depth - 1)))
        rng.shuffle(fields)
        if r < 0.65:
            holder = {"k": "dstruct", "f": fields}
        else:
            holder = {"k": "map", "et": "iface",
                      "v": [(lower_first(nm.encode()), {"k": "iface", "named": False, "v": v}) for nm, v in fields]}
    w = rng.choice(WRAPPERS)
    if w == "top" and holder["k"] not in ("dstruct", "map"):
        w = "ptrkey"
    extra = [(kk, gen_value(rng, "iface", 1)) for kk in rng.sample([b"title", b"count", b"meta", b"x"], rng.choice([0, 0, 1, 2]))]
    return wrap(rng, w, holder, extra)


def positions(d, limit=150, maxdepth=6):
    """[(steps, node)]: what the plain good paths of d reach, breadth first (a method of the page data itself is
    F-C11-b and left out; a map entry once, as .name when it can be written so)"""
    out, frontier = [], [([], d)]
    for _ in range(maxdepth):
        nxt = []
        for steps, n in frontier:
            for st, child, tag in children(n):
                if not steps and ("f" not in st or tag == "method"):
                    continue
                if steps and tag == "key" and ident_ok(unhx(st["k"])):
                    continue
                if len(out) >= limit:
                    return out
                out.append((steps + [st], child))
                nxt.append((steps + [st], child))
        frontier = nxt
    return out


def index_sites(d):
    """(targets, numbers, lists) among the positions of d: what can be indexed (lists incl. nil ones, strings), the
    numbers and the lists an index can be computed from"""
    targets, numbers, lists = [], [], []
    for steps, n in positions(d):
        sn, _ = strip(n)
        if sn is None:
            continue
        if sn["k"] == "slice":
            targets.append((steps, sn))
            lists.append((steps, sn))
        elif sn["k"] == "str":
            targets.append((steps, sn))
        elif sn["k"] in ("int", "float") and abs(sn["v"]) <= 2**40:
            numbers.append((steps, sn))
    return targets, numbers, lists


def gen_index_path(rng, d, sites):
    """a path with a bracket index on a list / string of d, on either side of its range, written as a literal, as a
    number of the page data or as a length; returns (steps, kind) or None"""
    targets, numbers, lists = sites
    lists_t = [t for t in targets if t[1]["k"] == "slice"]
    if not lists_t and rng.random() < 0.7:        # only strings to index: less often
        return None
    tsteps, tn = rng.choice(lists_t) if lists_t and rng.random() < 0.85 else rng.choice(targets)
    elems = (tn["v"] or []) if tn["k"] == "slice" else []
    L = len(elems) if tn["k"] == "slice" else len(tn["v"])
    tkind = "string" if tn["k"] == "str" else "nil_list" if tn["v"] is None else "empty_list" if L == 0 else "list"
    r = rng.random()
    st = None
    if r < 0.30 and numbers:                      # xs[d.pos]  xs[n - 2]
        nsteps, nn = rng.choice(numbers)
        add = rng.choice([0, 0, 0, 0, -1, -2, 1, 2, -nn["v"] - 1 if abs(nn["v"]) < 50 else 0])
        st, form = {"i": nn["v"] + add, "w": {"num": nsteps, "add": add}}, "number_of_data"
    elif r < 0.58 and lists:                      # xs[xs.length - 1]  xs[ys.length]
        same = [l for l in lists if l[0] == tsteps]
        lsteps, ln = rng.choice(same) if same and rng.random() < 0.75 else rng.choice(lists)
        M = len(ln["v"] or [])
        add = rng.choice([-1, -1, -1, -1, 0, -2, -3, 1, -M - 1])
        st, form = {"i": M + add, "w": {"len": lsteps, "add": add}}, "length"
    if st is None:
        side = rng.choice(["below", "below", "beyond", "in"])
        if side == "in" and L == 0:
            side = rng.choice(["below", "beyond"])
        if side == "below":
            v = min(-1, rng.choice([-1, -1, -1, -2, -L, -L - 1, -17, -rng.choice(FAR)]))
        elif side == "beyond":
            v = rng.choice([L, L, L + 1, L + 5, rng.choice(FAR)])
        else:
            v = rng.randrange(L)
        st, form = {"i": v}, "literal"
        if abs(v) < 1000 and rng.random() < 0.3:
            lit = rng.choice(["paren", "sub", "float"])
            st, form = {"i": v, "w": {"lit": lit}}, "literal_" + lit
    v = st["i"]
    side = "below_zero" if v < 0 else "in_range" if v < L else "beyond_length"
    steps = copy.deepcopy(tsteps) + [st]
    if side == "in_range" and tn["k"] == "slice":
        more, _, end = random_walk(rng, elems[v], rng.choice([1, 2, 3, 4]), first=False)
        steps += more
        if not is_leafish(end) and rng.random() < 0.9:
            return None
    elif side == "in_range":
        if rng.random() < 0.7:                    # a byte of a string: outside the property's domain, keep it rare
            return None
    else:                                         # nothing there: whatever follows prints nothing either
        names = [c[0] for e in elems[:1] for c in children(e)] or [{"f": hx(lower_first(nm.encode()))} for nm in FIELD_NAMES[:6]]
        names = [c for c in names if "f" in c and unhx(c["f"]) not in ARRAY_STRING_MEMBERS] or [{"f": hx(b"name")}]
        tail = rng.choice([[], [], [rng.choice(names)], [rng.choice(names), {"f": hx(rng.choice(ABSENT_NAMES))}], [{"i": 0}],
                           [{"i": -1}], [{"k": hx(rng.choice(MAP_KEYS))}], [rng.choice(names), {"i": rng.choice([0, -2])}]])
        steps += copy.deepcopy(tail)
    return steps, "index:%s:%s:%s" % (side, form, tkind)


ARRAY_STRING_MEMBERS = [b"length", b"indexOf", b"join", b"push", b"pop", b"shift", b"unshift", b"splice", b"slice", b"sort",
                        b"charAt", b"toUpperCase", b"toLowerCase", b"split", b"replace"]


# ------------------------------------------------------------------ histories: look-alike values one after the other

SEQ_KINDS = [("twins_local", 0.20), ("twins_pkg", 0.10), ("permuted", 0.12), ("retyped", 0.10), ("resized", 0.08),
             ("clash_orders", 0.12), ("mixed", 0.12), ("pushes", 0.16)]
WRAPPERS = ["key", "key", "ptrkey", "top", "slice", "field", "any", "typedmap", "ptrfield"]


def struct_type(rng, depth, lo=2, hi=5, force=False):
    return {"struct": [[nm, gen_type(rng, depth)] for nm in struct_names(rng, lo, hi, force)]}


def alike_types(rng, kind, depth):
    """2-3 distinct types that look alike"""
    k = rng.choice([2, 2, 3])
    if kind == "twins_local":
        name = rng.choice(["Product", "Product", "Cart", "Cart", "Entry", "Entry", "Tags", "Attrs", "Label"])
        return [TW(v, name) for v in rng.sample(TWIN_GROUPS[0], k)]
    if kind == "twins_pkg":
        name = rng.choice(["Product", "Product", "Cart"])
        vs = rng.sample(TWIN_GROUPS[1], 2)
        return [TW(v, name) for v in vs]
    if kind == "clash_orders":            # the same colliding members in two or three declaration orders
        if rng.random() < 0.5:
            grp = rng.choice(CLASH_COUNTERPARTS)
            return [TW("K", nm) for nm in rng.sample(grp, min(k, len(grp)))]
        fs = struct_type(rng, min(depth, 1), 1, 3, force=True)["struct"]
        for f in fs:                       # the colliding exported fields are mostly leaves
            if is_exported(f[0]) and rng.random() < 0.6:
                f[1] = rng.choice(["str", "int", "bool"])
        ex, un = [f for f in fs if is_exported(f[0])], [f for f in fs if not is_exported(f[0])]
        orders = [ex + un, un + ex]
        mixed = fs[:]
        rng.shuffle(mixed)
        orders.append(mixed)
        if rng.random() < 0.5:
            orders[:2] = orders[1::-1]
        return [{"struct": copy.deepcopy(o)} for o in orders[:k]]
    t0 = struct_type(rng, depth)
    out = [t0]
    for _ in range(k - 1):
        fs = copy.deepcopy(out[-1]["struct"])
        if kind == "permuted":            # the same fields in another order
            for _ in range(5):
                rng.shuffle(fs)
                if fs != out[-1]["struct"]:
                    break
        elif kind == "retyped":           # the same names: types moved to other names, or replaced, positions kept or not
            tys = [f[1] for f in fs]
            if rng.random() < 0.5:
                tys = tys[1:] + tys[:1]
            else:
                i = rng.randrange(len(tys))
                tys[i] = gen_type(rng, depth)
            fs = [[f[0], t] for f, t in zip(fs, tys)]
            if rng.random() < 0.4:
                rng.shuffle(fs)
        else:                             # resized: a field less or a field more, in front / in the middle / at the end
            if len(fs) > 1 and rng.random() < 0.5:
                del fs[rng.randrange(len(fs))]
            else:
                nm = rng.choice([x for x in FIELD_NAMES if x not in [f[0] for f in fs]])
                fs.insert(rng.randint(0, len(fs)), [nm, gen_type(rng, depth)])
        out.append({"struct": fs})
    return out


def wrap(rng, w, v, extra):
    """page data that holds the value v in the position w (the same position for every value of a history)"""
    t = ty(v)
    iface = lambda x: {"k": "iface", "named": False, "v": x}
    if w == "top":
        return v
    if w == "key":
        return {"k": "map", "et": "iface", "v": [(b"d", iface(v))] + extra}
    if w == "ptrkey":
        return {"k": "map", "et": "iface", "v": extra + [(b"d", iface({"k": "ptr", "t": t, "v": v}))]}
    if w == "slice":
        return {"k": "map", "et": "iface", "v": [(b"list", iface({"k": "slice", "et": t, "v": [v]}))] + extra}
    if w == "typedmap":
        return {"k": "map", "et": t, "v": [(b"d", v)]}
    if w == "field":
        return {"k": "dstruct", "f": [("Box", v), ("Note", S(b"n"))]}
    if w == "ptrfield":
        d = {"k": "dstruct", "f": [("Box", {"k": "ptr", "t": t, "v": v})]}
        return {"k": "ptr", "t": ty(d), "v": d}
    if w == "any":
        return {"k": "Item", "f": {"Name": S(b"holder"), "Any": iface(v)}}
    raise ValueError(w)


def gen_history(rng, tier):
    """(values [(data node, paths, path kinds)], kind of history)"""
    r, kind = rng.random(), None
    for kind, share in SEQ_KINDS:
        r -= share
        if r < 0:
            break
    depth = rng.choice([1, 1, 2, 2, 3])
    if kind == "pushes":                  # pages that push onto their lists, pages that read lists without elements
        values = []
        for k in range(rng.choice([2, 2, 3, 4])):
            d = gen_empties_data(rng, 2) if rng.random() < 0.7 else gen_indexed_data(rng, 2)
            values.append((d,) + gen_paths(rng, d, tier, push_share=0.85 if k == 0 else 0.5))
        return values, kind
    if kind == "mixed":                   # an arbitrary history of ordinary page data
        datas = [gen_data(rng, tier) for _ in range(rng.choice([2, 3, 3, 4]))]
    else:
        types = alike_types(rng, kind, depth - 1)
        vals = [gen_value(rng, t, depth) for t in types]
        r = rng.random()
        if r < 0.25:                      # ... and the first type once more, after the others
            vals.append(gen_value(rng, types[0], depth))
        elif r < 0.35:
            vals.append(copy.deepcopy(vals[0]))
        w = rng.choice(WRAPPERS)
        if w == "top" and vals[0]["k"] not in ("twin", "dstruct", "map"):
            w = "key"
        extra = [(kk, gen_value(rng, "iface", 1)) for kk in rng.sample([b"title", b"count", b"meta", b"x"], rng.choice([0, 0, 1, 2]))]
        datas = [wrap(rng, w, v, extra) for v in vals]
    # every value is asked its own good paths and those of the others
    pool, seen = [], set()
    for d in datas:
        for _ in range(rng.randint(3, 5)):
            steps, tags, end = random_walk(rng, d, rng.choice([3, 4, 6]))
            key = json.dumps(steps)
            if steps and key not in seen:
                seen.add(key)
                pool.append((steps, "good_method" if "method" in tags else "good"))
        csites = clash_sites(d)           # the colliding names of one value are asked of every value
        for _ in range(rng.choice([1, 2, 3]) if csites else 0):
            cp = gen_clash_path(rng, d, csites)
            if cp and json.dumps(cp[0]) not in seen:
                seen.add(json.dumps(cp[0]))
                pool.append(cp)
    values = []
    for d in datas:
        paths, kinds = [], []
        cand = list(pool)
        rng.shuffle(cand)
        for steps, kd in cand:
            if len(paths) >= (7 if tier == "quick" else 9):
                break
            keep, raw = admit(rng, d, steps, rng.random() < 0.25)
            if keep:
                paths.append({"steps": steps, "raw": raw})
                kinds.append(kd if py_walk(d, steps)[0] is not None or kd.startswith("clash:") else "of_another_value")
        sites = index_sites(d)
        for _ in range(rng.choice([0, 1, 2]) if sites[0] else 0):      # indices on this value's own lists
            ip = gen_index_path(rng, d, sites)
            if ip and json.dumps(ip[0]) not in [json.dumps(p["steps"]) for p in paths]:
                paths.append({"steps": ip[0], "raw": rng.random() < 0.2})
                kinds.append(ip[1])
        if rng.random() < 0.5:
            steps, tags, end = random_walk(rng, d, 4)
            steps, kd = break_path(rng, d, steps, tags)
            keep, raw = admit(rng, d, steps, False)
            if keep and json.dumps(steps) not in [json.dumps(p["steps"]) for p in paths]:
                paths.append({"steps": steps, "raw": raw})
                kinds.append(kd)
        if not paths:
            paths.append({"steps": [{"f": hx(b"missing")}], "raw": False})
            kinds.append("undefined_top")
        values.append((d, paths, kinds))
    return values, kind


def case_values(case):
    """the values of a case in rendering order: [{"data", "paths", ("kinds")}]"""
    return case["seq"] if "seq" in case else [case]


def obs_values(obs):
    return obs["vals"] if obs.get("vals") else [obs]


CLASS_CODE = {"ok": 0, "exec_panic": 1, "error": 1}


class C11(Prop):
    id = "C11"
    engine = "C11"
    judge_module = "Run.Judge_C11"
    prop_module = "Props.C11"
    prop_file = "Props/C11.v"
    coq_targets = ["Props/C11.vo", "Run/Judge_C11.vo"]
    sizes = {"quick": 1250, "thorough": 18000}
    seq_share = 0.30
    shard = 100
    design_ref = "DESIGN.md section 6 C11"
    rule = ("one evaluation = one process of the harness that renders, on one engine, either one Go data tree or (30% of "
            "the cases) a history of 2-4 data trees one after the other, each with 3-10 paths rendered as `= path` / "
            "`!= path` through Engine.Render. Data trees are built by reflection: reflect.StructOf structs, the "
            "hand-written family C11Item/C11Emb/C11EmbV/C11Base/C11Labeler, typed and interface maps, slices, pointers, "
            "nil anywhere. The values of a history look alike: distinct types with the same reflect.Type.String() "
            "(types Product/Cart/Entry/Tags/Attrs/Label declared locally in four functions: other field names, order, "
            "number, types, unexported fields; Product/Cart of two packages both called shop, with different method "
            "sets), reflect.StructOf types over the same field names in another order, with other types, with a field "
            "more or less, or unrelated page data; held at the top level, under a map key, behind a pointer, in a slice, "
            "a typed map, a struct field or an interface field; the first type may come again at the end; every value is "
            "asked the paths of the other values too. Each value of a history is judged on its own against the spec "
            "(which knows no history); the worst verdict is the case's. INDICES: a bracket index denotes any integer and "
            "is written as a literal (2, -1, (-1), 0 - 1, -1.0), as a number taken from the page data (xs[d.pos], "
            "xs[n - 2]) or as a length (xs[xs.length - 1], xs[ys.length]); 20% of the page data is built around a list "
            "(nil, empty or 1-4 elements of any element type) with numbers chosen around its bounds (-1, -len-1, 0, len-1, "
            "len, far out), as fields of a struct, entries of a map or C11Item's Tags/Count, held at the top level, under "
            "a key, behind a pointer, in a slice, a typed map, a field or an interface; wherever page data holds a list "
            "or a string, 45% of its paths put an index on it: below zero (the literal -1 .. -2^62, a negative number of "
            "the data, length - 1 of an empty or nil list), in range (and on through the element), at the length and "
            "far beyond it (.. 2^62), with and without further steps behind it (the coverage reports side x way of "
            "writing x kind of target). COLLISIONS: the member table of a struct is keyed by the lower-camel name while "
            "Go keeps the names apart; 30% of all reflect.StructOf types (anywhere in the data) declare unexported "
            "fields - the lower-camel twin of one of their exported fields (Title/title, ID/iD), a near miss (id, url) "
            "or an unrelated name - after, before or between the exported fields; the hand-written family of "
            "harness/c11_clash (exported/unexported field pairs in both orders and interleaved, nested; an unexported "
            "field next to its getter with value and with pointer receiver; an embedded type next to an unexported "
            "field of its lower-camel name, an embedded unexported type - whose methods are promoted - next to an "
            "exported field, an embedded pointer, each in both orders; outer fields that shadow or resemble promoted "
            "ones) occurs wherever a family type can; 15% of the page data is built around one struct with colliding "
            "members, held in any of the positions above; where a value holds such a struct 35% of its paths aim at "
            "the collision (the colliding name - which must print the exported member whatever the order -, its "
            "capitalised spelling, a neighbour in the same struct, a step beyond an unexported composite); 14% of the "
            "histories render the same colliding members in 2-3 declaration orders (all permutations over the run) "
            "and ask every value the colliding names (the coverage reports the declared collisions and the paths "
            "through them by kind x order). NAMES BEYOND ASCII: Go exports a name whose first LETTER is upper-case and "
            "lowerFirst lowers the first RUNE; 12% of all reflect.StructOf types carry 1-2 field names with a two-byte "
            "initial (Ärger, Übersicht, Österreich, Élan, Øre, Þing; Ωmega, Δelta, Σum; Жук, Яблоко; 19 names) in any "
            "position, with their unexported lower-camel twins (ärger) at the usual collision share; the hand-written "
            "types Wide / WideBox of harness/c11_clash (such fields, an unexported twin, a value-receiver and a "
            "pointer-receiver method with such names, nesting by value and by pointer) occur wherever a family type can; "
            "8% of the page data is built around such a struct in any position - also AS the page data, where its members "
            "are the page's global names; where a value has such members half of its paths go through one (by the "
            "lower-camel name, 20% by the Go spelling, which is never a member). LISTS WITHOUT ELEMENTS AND PUSHES: a path "
            "entry may be a statement `- path.push('v')` on a list of the page data, rendered like a path (its own "
            "template, its own render; it must print nothing and raise nothing); wherever page data has a list, 35% of "
            "the values get 1-3 such statements among their first paths - 80% of them on nil or empty lists - followed by "
            "reads of [0], [length], [other.length - 1], [0].name of lists without elements (the same list and others); "
            "8% of the page data has 2-6 lists at several places of one tree (page struct / page map, a struct below it by "
            "value or by pointer, C11Item.Tags), 80% of them nil or empty; 16% of the histories are 2-4 such pages where "
            "the first pushes (85%) and the later ones push (50%) and read (the coverage counts the pushes by kind of "
            "list, the reads of lists without elements after a push, and the histories where they are in different "
            "renders). Non-trivial = a single value with at least one "
            "path of two or more steps that prints a non-empty leaf and at least one path that reaches nothing, or a "
            "history of at least two different types in which one and the same path prints different things for two "
            "values; distinct by SHA-1 of the case")
    trusted = [
        "Go's reflect package, fmt and big.Float formatting (integers below 10^10 print as plain digits), the JS front end "
        "(otto) and the template compiler for `= a.b[0]['k'].c`: covered by the correspondence, not by a theorem",
        "the Python description of the hand-written family (method sets, method results) that is emitted as the gv term; "
        "the field lists of the look-alike types (TWINS) are compared with reflect by the harness on every use, and for "
        "the types with colliding members (harness/c11_clash) so are the embedded fields and both method sets; the "
        "results of their methods (Holder, Caption, Sum, Kind, Tag, Slug) are computed here from the field values",
        "unexported fields of generated values are written through their address (reflect.NewAt + unsafe.Pointer); "
        "reflect.StructOf accepts unexported fields that name a package (PkgPath \"main\")",
        "the integer a computed index denotes (xs[d.pos], xs[xs.length - 1], n - 2) is computed by the generator from "
        "the data tree (the Go int at that path, Go's len of that slice, plus the constant) and handed to the judge as "
        "`Idx true z`; that the template's own arithmetic (Number member, Array.length, __op__sub/__op__add) yields "
        "that integer is covered by the correspondence (in-range computed indices must print the element), not by a theorem",
        "the lowering of the first rune of a member name for the judge (Run/Judge_C11.v lower_rune: U+00C0..U+00DE, "
        "U+0391..U+03A9, U+0410..U+042F, spot-checked there against the Unicode tables) and, independently, Python's "
        "str.lower for the names the generated templates write; Go's unicode.IsUpper decides in the harness which "
        "reflect.StructOf fields are exported",
        "process isolation by the harness: every case runs in a freshly started process (os/exec of the harness binary), "
        "so a verdict depends on the case alone and a replay reproduces it",
    ]
    assumptions = [
        "a Go value is the tree reflect exposes: an embedded struct is a field named after its type plus the promoted "
        "methods; Go's promoted-field shorthand (e.note for e.C11Base.Note) is not a path of that tree (observed: prints nothing)",
        "names are ASCII, or (fields and methods of structs only, judged on the tree with the first rune of every "
        "exported member name lowered - Judge_C11 norm / dom_wide; the theorems of Props/C11.v are stated on the ASCII "
        "mapping) begin with a two-byte upper-case letter of Latin-1, Greek or Cyrillic; other initials (three-byte "
        "letters, title-case digraphs, letters whose lower-case is longer) are declined; map keys with a non-ASCII "
        "upper-case initial are not generated; the first name of a path is not a registered template function, "
        "`global` or `range`",
        "Go's own rules keep the exported members of one struct distinct under the lower-camel mapping (two exported "
        "names differ beyond their first letter; a field and a method of one type cannot share a name; a shallower "
        "field hides a promoted one), which is the NoDup hypothesis of C11_declaration_order; the unexported fields "
        "are unrestricted",
        "an index is an integer within int64 (explored: -2^62 .. 2^62; numbers taken from the data within 2^50, where a "
        "pugjs Number - a float64 - is exact); an index in range on a string (a byte) is outside the domain, an index "
        "out of range on a string is inside (prints nothing)",
        "methods and func values are pure and do not panic; the Go page data is not mutated during a render: a push "
        "statement changes only the list that the conversion made for its own render (its own effect inside that "
        "render is not read back: every path and every statement is a template and a render of its own), so the spec "
        "of every other path and value is the spec without the statement",
        "production wiring: a logger is configured and debug mode is off (panicOrError logs instead of panicking)",
        "the model keeps nothing between two conversions (C11_history is the per-render statement mapped over a history); "
        "that the real code keeps nothing either - no table in the process or the engine that outlives one converted "
        "value - is explored by the histories (one process, one engine, up to 5 values; look-alike types, and pages that push onto "
        "their lists before other pages read lists without elements), not proved; renders of one "
        "history are sequential (concurrent renders are C08's)",
    ]
    not_yet_proved = []

    def generate(self, rng, n, tier):
        cases = []
        for _ in range(n):
            if rng.random() < self.seq_share:
                values, kind = gen_history(rng, tier)
                cases.append({"seq": [{"data": to_json(d), "paths": ps, "kinds": ks} for d, ps, ks in values], "skind": kind})
                continue
            d = gen_data(rng, tier)
            paths, kinds = gen_paths(rng, d, tier)
            cases.append({"data": to_json(d), "paths": paths, "kinds": kinds})
        return cases

    def run(self, binary, cases, tmp, tier):
        strip_v = lambda v: {"data": v["data"], "paths": v["paths"]}
        wire = [{"seq": [strip_v(v) for v in c["seq"]]} if "seq" in c else strip_v(c) for c in cases]
        return run_harness(binary, self.engine, wire)

    # cases carry only the harness format (JSON-clean): the abstract tree is rebuilt from it
    def tree_of(self, value):
        return from_json(value["data"])

    def emit(self, case, obs):
        vs = []
        for v, ob in zip(case_values(case), obs_values(obs)):
            d = self.tree_of(v)
            ps = []
            for p, o in zip(v["paths"], ob["paths"]):
                cls = CLASS_CODE.get(o["class"], 2)
                out = unhx(o.get("out") or "") if cls == 0 else b""
                # an index expression that denotes no integer for this value (only after a careless edit of a
                # corpus file; the generator and the shrinker never produce one): the judge declines (no steps)
                steps = p["steps"] if steps_resolved(d, p["steps"]) else []
                ps.append(b"{| po_steps := " + cq_list([coq_step(s, d) for s in steps]) + b"; po_raw := " + cq_bool(p["raw"]) +
                          b"; po_stmt := " + cq_bool("push" in p) + b"; po_class := " + cq_nat(cls) + b"; po_out := " + cq_bytes(out) + b" |}")
            vs.append(b"{| data := " + coq_gv(d) + b"; paths := " + cq_list(ps) + b" |}")
        return cq_list(vs)

    def nontrivial(self, case, obs):
        vals, obss = case_values(case), obs_values(obs)
        if len(vals) == 1:
            c, o = vals[0], obss[0]
            deep = any(len(p["steps"]) >= 2 and r["class"] == "ok" and r.get("out") for p, r in zip(c["paths"], o["paths"]))
            empty = any(r["class"] == "ok" and not r.get("out") for r in o["paths"])
            return deep and empty
        if len({json.dumps(v["data"]["ty"], sort_keys=True) for v in vals}) < 2:
            return False
        printed = {}
        for v, o in zip(vals, obss):
            for p, r in zip(v["paths"], o["paths"]):
                if r["class"] == "ok":
                    printed.setdefault(json.dumps(p["steps"]), set()).add(r.get("out") or "")
        return any(len(outs) >= 2 for outs in printed.values())

    def sample(self, case, obs):
        one = lambda c, o: {"data": c["data"], "go_type": o.get("type"),
                            "paths": [{"src": s, "raw": p["raw"], "go": r["class"],
                                       "out": unhx(r.get("out") or "").decode("utf-8", "replace")}
                                      for s, p, r in zip(o.get("src") or [], c["paths"], o["paths"])][:6]}
        if "seq" in case:
            return {"history": case.get("skind"), "values": [one(c, o) for c, o in zip(case_values(case), obs_values(obs))]}
        return one(case, obs)

    def shrink_value(self, v):
        # a candidate in which an index expression no longer denotes an integer (its number / list was dropped from
        # the data) is no candidate
        for c in self.shrink_value_raw(v):
            d = from_json(c["data"])
            if all(steps_resolved(d, p["steps"]) for p in c["paths"]):
                # the value noted next to a computed index follows the (smaller) data
                yield {"data": c["data"], "paths": [dict(p, steps=[dict(st, i=idx_value(d, st)) if "i" in st else st for st in p["steps"]])
                                                     for p in c["paths"]]}

    def shrink_value_raw(self, v):
        ps = v["paths"]
        if len(ps) > 1:
            for i in range(len(ps)):
                yield {"data": v["data"], "paths": [ps[i]]}
            for i in range(len(ps)) if len(ps) <= 16 else []:     # a statement and a read after it: drop the others
                yield {"data": v["data"], "paths": ps[:i] + ps[i + 1:]}
            if len(ps) <= 3 and any("push" in p for p in ps):
                for smaller in shrink_json(v["data"]):
                    yield {"data": smaller, "paths": ps}
            return
        # one path left: shorten it, write its computed indices as literals, then drop parts of the data
        steps = ps[0]["steps"]
        for i in range(len(steps) - 1, 0, -1):
            yield {"data": v["data"], "paths": [dict(ps[0], steps=steps[:i] + steps[i + 1:])]}
        d = from_json(v["data"])
        for i, st in enumerate(steps):
            if "i" in st and st.get("w") and idx_value(d, st) is not None:
                yield {"data": v["data"], "paths": [dict(ps[0], steps=steps[:i] + [{"i": idx_value(d, st)}] + steps[i + 1:])]}
        for smaller in shrink_json(v["data"]):
            yield {"data": smaller, "paths": ps}

    def shrink(self, case):
        if "seq" not in case:
            yield from self.shrink_value(case)
            return
        vals = [{"data": v["data"], "paths": v["paths"]} for v in case["seq"]]
        if len(vals) == 1:
            yield vals[0]
        for i in range(len(vals)):            # a shorter history (the order stays)
            if len(vals) > 1:
                yield {"seq": vals[:i] + vals[i + 1:]}
        for i, v in enumerate(vals):          # the same history with one value made smaller
            for sv in self.shrink_value(v):
                yield {"seq": vals[:i] + [sv] + vals[i + 1:]}

    def model_expr(self):
        return "explain c"

    def distribution(self, cases, obss):
        d = {"values": 0, "paths": 0, "raw_paths": 0, "go_error": 0, "go_empty": 0, "go_nonempty": 0, "path_kinds": {},
             "top_kinds": {}, "path_lengths": {}, "histories": 0, "history_kinds": {}, "history_lengths": {},
             "values_in_histories": 0, "history_paths_of_another_value": 0, "histories_whose_page_data_types_share_a_name": {},
             "index_paths": 0, "index_side": {}, "index_written_as": {}, "index_on": {}, "index_below_zero_go_empty": 0,
             "cases_with_an_index_below_zero": 0,
             "values_with_a_struct_that_declares_unexported_fields": 0, "unexported_fields_declared_in_reachable_structs": {},
             "paths_that_name_an_unexported_field": 0, "paths_that_name_an_unexported_field_by_collision": {},
             "paths_through_a_collision_go_nonempty": 0, "cases_with_a_path_through_a_collision": 0,
             "values_with_a_member_whose_first_letter_is_not_ascii": 0, "paths_through_such_a_member": 0,
             "paths_through_such_a_member_go_nonempty": 0, "cases_with_a_path_through_such_a_member": 0,
             "values_with_a_list_without_elements": 0, "values_with_several_lists_without_elements": 0,
             "push_statements": 0, "push_statements_on": {}, "reads_of_a_list_without_elements_after_a_push_in_the_same_case": 0,
             "cases_with_a_push_and_a_later_read_of_a_list_without_elements": 0,
             "histories_with_a_push_in_one_render_and_such_a_read_in_a_later_one": 0}
        for c, o in zip(cases, obss):
            vals, vobs = case_values(c), obs_values(o)
            if "seq" in c:
                d["histories"] += 1
                d["values_in_histories"] += len(vals)
                k = c.get("skind") or "corpus"
                d["history_kinds"][k] = d["history_kinds"].get(k, 0) + 1
                L = str(len(vals))
                d["history_lengths"][L] = d["history_lengths"].get(L, 0) + 1
                names = [x.get("type") or "nil" for x in vobs]
                if len(set(names)) < len({json.dumps(v["data"]["ty"], sort_keys=True) for v in vals}):
                    nm = max(names, key=names.count)      # distinct types, one name
                    d["histories_whose_page_data_types_share_a_name"][nm] = d["histories_whose_page_data_types_share_a_name"].get(nm, 0) + 1
            d["cases_with_an_index_below_zero"] += any(k.startswith("index:below_zero") for v in vals for k in v.get("kinds") or [])
            through = False
            wide_through, pushed, pushed_before_value, later_reads, across = False, False, False, 0, False
            for v, ob in zip(vals, vobs):
                d["values"] += 1
                t = self.tree_of(v)
                pushed_before_value = pushed
                d["values_with_a_member_whose_first_letter_is_not_ascii"] += bool(wide_sites(t))
                nolen = [l for l in index_sites(t)[2] if not l[1]["v"]]
                d["values_with_a_list_without_elements"] += bool(nolen)
                d["values_with_several_lists_without_elements"] += len(nolen) >= 2
                for p, r in zip(v["paths"], ob["paths"]):
                    if "push" in p:
                        pushed = True
                        d["push_statements"] += 1
                        end, _ = py_walk(t, p["steps"])
                        sn, _ = strip(end) if end is not None else (None, False)
                        kd = list_kind(sn) if sn is not None and sn["k"] == "slice" else "other"
                        d["push_statements_on"][kd] = d["push_statements_on"].get(kd, 0) + 1
                        continue
                    if any("f" in st and unhx(st["f"])[:1] >= b"\x80" for st in p["steps"]):
                        d["paths_through_such_a_member"] += 1
                        d["paths_through_such_a_member_go_nonempty"] += r["class"] == "ok" and bool(r.get("out"))
                        wide_through = True
                    if pushed and steps_resolved(t, p["steps"]):       # a read that ends at or behind an index on a list without elements
                        for i, st in enumerate(p["steps"]):
                            if "i" in st:
                                at, _ = py_walk(t, p["steps"][:i])
                                sn, _ = strip(at) if at is not None else (None, False)
                                if sn is not None and sn["k"] == "slice" and not sn["v"]:
                                    later_reads += 1
                                    across = across or pushed_before_value
                                    break
                cs = clash_sites(t)
                d["values_with_a_struct_that_declares_unexported_fields"] += bool(cs)
                for _, sn, via_ptr in cs:
                    for nm, ex, _ in fam_view(sn)[0]:
                        if not ex:
                            key = "%s:%s" % collision_of(sn, via_ptr, nm)
                            h = d["unexported_fields_declared_in_reachable_structs"]
                            h[key] = h.get(key, 0) + 1
                for p, r in zip(v["paths"], ob["paths"]) if cs else []:
                    cols = path_collisions(t, p["steps"]) if steps_resolved(t, p["steps"]) else []
                    if cols:
                        d["paths_that_name_an_unexported_field"] += 1
                        h = d["paths_that_name_an_unexported_field_by_collision"]
                        for c in cols:
                            h["%s:%s" % c] = h.get("%s:%s" % c, 0) + 1
                        if any(c[0] in ("field_pair", "embedded_and_outer", "field_and_method") for c in cols):
                            through = True
                            d["paths_through_a_collision_go_nonempty"] += r["class"] == "ok" and bool(r.get("out"))
                d["top_kinds"][t["k"]] = d["top_kinds"].get(t["k"], 0) + 1
                for i, (p, r) in enumerate(zip(v["paths"], ob["paths"])):
                    d["paths"] += 1
                    d["raw_paths"] += bool(p["raw"])
                    d["go_error"] += r["class"] != "ok"
                    d["go_empty"] += r["class"] == "ok" and not r.get("out")
                    d["go_nonempty"] += r["class"] == "ok" and bool(r.get("out"))
                    L = str(min(len(p["steps"]), 7))
                    d["path_lengths"][L] = d["path_lengths"].get(L, 0) + 1
                    kinds = v.get("kinds")
                    if kinds and kinds[i].startswith("index:"):
                        _, side, form, on = kinds[i].split(":")
                        d["index_paths"] += 1
                        for h, x in (("index_side", side), ("index_written_as", form), ("index_on", on)):
                            d[h][x] = d[h].get(x, 0) + 1
                        d["index_below_zero_go_empty"] += side == "below_zero" and r["class"] == "ok" and not r.get("out")
                        d["path_kinds"]["index"] = d["path_kinds"].get("index", 0) + 1
                    elif kinds and (kinds[i].startswith("wide:") or kinds[i].startswith("push:")):
                        kd = "through_a_non_ascii_initial" if kinds[i].startswith("wide:") else "push_statement"
                        d["path_kinds"][kd] = d["path_kinds"].get(kd, 0) + 1
                    elif kinds and kinds[i].startswith("clash:"):
                        d["path_kinds"]["aims_at_a_collision"] = d["path_kinds"].get("aims_at_a_collision", 0) + 1
                    elif kinds:
                        d["path_kinds"][kinds[i]] = d["path_kinds"].get(kinds[i], 0) + 1
                        d["history_paths_of_another_value"] += kinds[i] == "of_another_value"
            d["cases_with_a_path_through_a_collision"] += through
            d["cases_with_a_path_through_such_a_member"] += wide_through
            d["reads_of_a_list_without_elements_after_a_push_in_the_same_case"] += later_reads
            d["cases_with_a_push_and_a_later_read_of_a_list_without_elements"] += later_reads > 0
            d["histories_with_a_push_in_one_render_and_such_a_read_in_a_later_one"] += across and "seq" in c
        return d


# ------------------------------------------------------------------ harness JSON -> abstract tree (corpus, shrinking)

def from_json(j):
    t, v = j["ty"], j.get("v")
    if isinstance(t, dict) and "twin" in t:
        desc = TWINS[t["var"]][t["twin"]]
        if "under" in desc:
            n = from_json({"ty": desc["under"], "v": v})
            n["tw"] = (t["twin"], t["var"])
            return n
        return {"k": "twin", "name": t["twin"], "var": t["var"],
                "f": [(nm, from_json(x)) for (nm, _), x in zip(desc["struct"], v)]}
    if isinstance(t, str):
        if t == "str":
            return S(unhx(v))
        if t in INT_KINDS:
            return I(v, t)
        if t in ("float64", "float32"):
            return {"k": "float", "v": v}
        if t == "bool":
            return {"k": "bool", "v": v}
        if t == "iface":
            return {"k": "iface", "named": False, "v": None if v is None else from_json(v)}
        if t == "Labeler":
            return {"k": "iface", "named": True, "v": None if v is None else from_json(v)}
        if t == "func":
            return {"k": "func", "r": unhx(v)}
        if t == "chan":
            return {"k": "chan"}
        return {"k": t, "f": {f: from_json(x) for f, x in (v or {}).items()}}
    if "slice" in t:
        return {"k": "slice", "et": t["slice"], "v": None if v is None else [from_json(x) for x in v]}
    if "map" in t:
        return {"k": "map", "et": t["map"], "v": None if v is None else [(unhx(e["k"]), from_json(e["v"])) for e in v]}
    if "ptr" in t:
        return {"k": "ptr", "t": t["ptr"], "v": None if v is None else from_json(v)}
    if "struct" in t:
        return {"k": "dstruct", "f": [(nm, from_json(x)) for (nm, _), x in zip(t["struct"], v)]}
    raise ValueError(t)


def shrink_json(j):
    """smaller variants of a harness data node: drop one element somewhere, replace a subtree by nil/empty"""
    t, v = j["ty"], j.get("v")
    if v is None:
        return
    if isinstance(t, dict) and "twin" in t:
        desc = TWINS[t["var"]][t["twin"]]
        if "struct" in desc:                      # the type is fixed: only the field values shrink
            for i, e in enumerate(v):
                for s in shrink_json(e):
                    if s["ty"] == e["ty"]:
                        yield {"ty": t, "v": v[:i] + [s] + v[i + 1:]}
        else:
            for s in shrink_json({"ty": desc["under"], "v": v}):
                if s["ty"] == desc["under"]:
                    yield {"ty": t, "v": s["v"]}
        return
    if isinstance(t, dict) and ("slice" in t or "map" in t):
        for i in range(len(v)):
            yield {"ty": t, "v": v[:i] + v[i + 1:]}
        for i, e in enumerate(v):
            inner = e if "slice" in t else e["v"]
            for s in shrink_json(inner):
                yield {"ty": t, "v": v[:i] + [s if "slice" in t else {"k": e["k"], "v": s}] + v[i + 1:]}
    elif isinstance(t, dict) and "struct" in t:
        for i in range(len(v)):
            yield {"ty": {"struct": t["struct"][:i] + t["struct"][i + 1:]}, "v": v[:i] + v[i + 1:]}
        for i, e in enumerate(v):
            for s in shrink_json(e):
                if s["ty"] == e["ty"]:
                    yield {"ty": t, "v": v[:i] + [s] + v[i + 1:]}
    elif isinstance(t, dict) and "ptr" in t:
        for s in shrink_json(v):
            if s["ty"] == v["ty"]:
                yield {"ty": t, "v": s}
    elif t in ("iface", "Labeler"):
        for s in shrink_json(v):
            yield {"ty": t, "v": s}
    elif t in ("Item", "Base", "Emb", "EmbV"):
        for f in list(v):
            yield {"ty": t, "v": {g: x for g, x in v.items() if g != f}}
        for f, e in v.items():
            for s in shrink_json(e):
                if s["ty"] == e["ty"]:
                    yield {"ty": t, "v": dict(v, **{f: s})}


PROP = C11()
