# C06 — static structure and text are reproduced faithfully.
import json
import tgen
import tmpl
from tmpl import s_, js_src, js_coq, stmt_src, stmt_coq, attr_coq
from core import CoreProp, ser, de, obsm_coq, FUNCS
from common import run_harness, judge_in_coq, cq_bytes, cq_nat, cq_list, cq_bool, cq_opt, cq_pair, unhx, hx, BuildError

# delimiter-heavy alphabet: the template engine's own delimiters, trim markers, comment markers, quotes,
# back-ticks, backslashes, white space of every kind the lexer trims, multi-byte UTF-8, inline markup
PIECES = [b"{", b"}", b"{{", b"}}", b"-", b'"', b"`", b"\\", b"/", b"*", b" ", b"\n", b"\t", b"\r", b"'",
          b"\xc3\xa9", b"\xe2\x82\xac", b"a", b"b", b"x", b"{{-", b"-}}", b"{{- ", b" -}}", b"{{/*", b"*/}}",
          b"{}}", b"{{{", b"}}}", b"--{{--", b"--}}--", b'{{"{{"}}', b'{{"{"}}', b"<b>", b"&", b"1 < 2", b"{{.}}",
          b"{{ x }}", b"--", b"${x}", b"$", b". ", b"word", b"{ {", b"} }",
          # characters other layers of the pipeline give a meaning to (printf verbs, escapes, entities, NUL-free controls)
          b"%", b"50% off", b"%s", b"%d%%", b"%!", b"\\n", b"&amp;", b"&#34;", b"\x0b", b"#{x}", b"!{x}", b"| ", b"//",
          b"\x0c", b"\xc2\xa0", b" \x0c", b"\xc2\xa0 "]   # form feed, no-break space: white space the lexer must NOT trim
BRACEY = [b"{", b"}", b"{{", b"}}", b"{}}", b"{{{", b"}}}", b"{", b"}"]
BLOCK_TAGS = [b"div", b"p", b"ul", b"li", b"h1", b"section", b"td", b"main", b"x-y"]
INLINE_TAGS = [b"span", b"b", b"i", b"a", b"em", b"q"]
VOID = [b"br", b"hr", b"img", b"input", b"meta", b"link", b"wbr", b"area", b"base", b"col", b"embed", b"param",
        b"source", b"track", b"command", b"keygen"]
DRESSED = 0.4      # share of the cases whose AST carries the fields ordinary templates never set
DOCTYPES = [b"html", b"html PUBLIC \"-//W3C//DTD XHTML 1.0 Strict//EN\"", b"xml", b"{x}"]


def text(rng, edge_ws=True):
    k = rng.random()
    if k < 0.12:
        s = rng.choice(BRACEY)
    elif k < 0.2:
        s = rng.choice(PIECES)
    else:
        n = rng.choice([1, 2, 2, 3, 3, 4, 5, 6, 8])
        if rng.random() < 0.5:
            s = b"".join(rng.choice(BRACEY + [b"a", b"-", b'"', b" "]) for _ in range(n))
        else:
            s = b"".join(rng.choice(PIECES) for _ in range(n))
    if not edge_ws:
        s = s.strip(b" \t\r\n") or b"x"
    return ('text', s)


def static_nodes(rng, depth, width):
    out = []
    for _ in range(width):
        k = rng.random()
        if k < 0.42 or depth <= 0:
            out.append(text(rng))
        elif k < 0.47:
            out.append(('comment',))
        elif k < 0.57:
            body = static_nodes(rng, depth - 1, rng.choice([0, 1, 2])) if rng.random() < 0.25 else []
            out.append(('tag', rng.choice(VOID), True, [], [], body))
        elif k < 0.61:
            out.append(('block', static_nodes(rng, depth - 1, rng.choice([1, 2]))))
        else:
            inline = rng.random() < 0.45
            name = rng.choice(INLINE_TAGS if inline else BLOCK_TAGS)
            out.append(('tag', name, inline, [], [], static_nodes(rng, depth - 1, rng.choice([0, 1, 1, 2, 2, 3]))))
    return out


def tree_depth(nodes):
    best = 0
    for n in nodes:
        for x in n[1:]:
            if isinstance(x, list) and x and isinstance(x[0], tuple) and isinstance(x[0][0], str) and x[0][0] in KINDS:
                best = max(best, tree_depth(x))
        if n[0] == 'cond' and n[3] is not None:
            best = max(best, tree_depth([n[3]]) - 1)
        if n[0] == 'case':
            for _, body in n[2]:
                best = max(best, tree_depth(body))
    return 1 + best if nodes else 0


KINDS = ('tag', 'text', 'code', 'cond', 'case', 'each', 'while', 'mixin', 'call', 'mixinblock', 'block', 'doctype', 'comment')


def all_texts(nodes, acc):
    for n in nodes:
        if n[0] == 'text':
            acc.append(n[1])
        for x in n[1:]:
            if isinstance(x, list) and x and isinstance(x[0], tuple) and isinstance(x[0][0], str) and x[0][0] in KINDS:
                all_texts(x, acc)
            elif isinstance(x, tuple) and x and x[0] in ('cond', 'block'):
                all_texts([x], acc)
        if n[0] == 'case':
            for _, body in n[2]:
                all_texts(body, acc)
    return acc


# ---------------------------------------------------------------------------------------------------------
# The AST as the DECODER sees it.  The *.ast.json files the engine loads come from the pug front end and carry
# more than the shared writer (tmpl.pug_json) sets: every node has line / column / filename, every Tag has
# `selfClosing` (true for the pug source `div/`, `img/`), script/style bodies written with a trailing dot are
# `textOnly`, literal HTML lines are Text nodes with `isHtml`, blocks of a linked template are NamedBlock nodes
# with name and mode, an unbuffered block comment is a BlockComment with a block, an element without children
# may have an empty block, `block: null` or no block at all.  json.Unmarshal copies whatever matches a field of
# pugjs.Token (case-insensitively) into the token tree, on every node kind; the rendering must depend on none of
# it: void or not is a matter of the element's name only.
#
# A tag tuple may carry a 7th element, the fields of ITS AST node:
#   sc:  selfClosing  None (absent) | False | True        blk: 'block' | 'null' | 'absent' (childless elements)
#   at:  'list' | 'absent' (attrs / attributeBlocks keys of an element without attributes)     to: textOnly
# and the case a style for the node kinds that have no slot of their own (case["ast"]):
#   lines (line0, filename): line/column/filename on every node, attribute and block     named: NamedBlock
#   html: isHtml on texts beginning with '<'     bcomment: BlockComment     sc_other: selfClosing:true on every
#   node that is not a Tag     sc_key: spelling of the key (the decoder matches keys case-insensitively)
# A plain case (no style, 6-tuples) is written exactly as tmpl.pug_json writes it.
SC_KEYS = ["selfClosing", "selfClosing", "selfClosing", "selfclosing", "SelfClosing", "SELFCLOSING"]
WS_TEXTS = [b" ", b"\n", b"  ", b"\n  ", b"\t", b"\r\n", b" \n\t "]
SLASH_NAMES = [b"div", b"p", b"li", b"section", b"span", b"a", b"b", b"td", b"x-y", b"style", b"textarea", b"title"]   # script: gen_static (F-C06-e)


class Writer:
    """pug tuples -> AST JSON, with the fields above"""

    def __init__(self, style=None):
        self.st = style or {}
        self.line = self.st.get("line0", 1)
        self.nblock = 0

    def pos(self, d, other=True):
        if other and self.st.get("sc_other"):
            d[self.st.get("sc_key", "selfClosing")] = True
        if self.st.get("lines"):
            d["line"] = self.line
            d["column"] = 1 + self.line % 7
            d["filename"] = self.st.get("filename", "t.pug")
            self.line += 1
        return d

    def blk(self, l):
        return self.pos({"type": "Block", "nodes": [self.node(x) for x in l]})

    def attrs(self, l):
        return [self.pos({"name": s_(a[0]), "val": s_(js_src(a[1])), "mustEscape": a[2]}, other=False) for a in l]

    def node(self, n):
        k = n[0]
        if k == 'tag':
            f = n[6] if len(n) > 6 else {}
            d = {"type": "Tag", "name": s_(n[1]), "isInline": n[2]}
            sc = f.get("sc", False)
            if sc is not None:
                d[self.st.get("sc_key", "selfClosing")] = sc
            if f.get("to") is not None:
                d["textOnly"] = f["to"]
            if n[3] or n[4] or f.get("at", "list") == "list":
                d["attrs"] = self.attrs(n[3])
                d["attributeBlocks"] = [{"type": "AttributeBlock", "val": s_(a)} for a in n[4]]
            self.pos(d, other=False)
            how = f.get("blk", "block")
            if n[5] or how == "block":
                d["block"] = self.blk(n[5])
            elif how == "null":
                d["block"] = None
            return d
        if k == 'text':
            d = {"type": "Text", "val": s_(n[1])}
            if self.st.get("html") and n[1][:1] == b"<":
                d["isHtml"] = True
            return self.pos(d)
        if k == 'code':
            return self.pos({"type": "Code", "val": s_(b'; '.join(stmt_src(x) for x in n[1])),
                             "buffer": n[2] or len(n[1]) == 1 and n[1][0][0] == 'expr', "mustEscape": n[2], "isInline": n[3]})
        if k == 'cond':
            d = self.pos({"type": "Conditional", "test": s_(js_src(n[1])), "consequent": None, "alternate": None})
            d["consequent"] = self.blk(n[2])
            if n[3] is not None:
                d["alternate"] = self.blk(n[3][1]) if n[3][0] == 'block' else self.node(n[3])
            return d
        if k == 'case':
            d = self.pos({"type": "Case", "expr": s_(js_src(n[1])), "block": None})
            whens = []
            for w, body in n[2]:
                wd = self.pos({"type": "When", "expr": "default" if w is None else s_(js_src(w)), "block": None})
                wd["block"] = self.blk(body)
                whens.append(wd)
            d["block"] = self.pos({"type": "Block", "nodes": whens})
            return d
        if k == 'each':
            d = self.pos({"type": "Each", "obj": s_(js_src(n[3])), "val": s_(n[1]), "key": None if n[2] is None else s_(n[2]),
                          "block": None})
            d["block"] = self.blk(n[4])
            return d
        if k == 'while':
            d = self.pos({"type": "While", "test": s_(js_src(n[1])), "block": None})
            d["block"] = self.blk(n[2])
            return d
        if k == 'mixin':
            d = self.pos({"type": "Mixin", "name": s_(n[1]), "args": ", ".join(s_(p) for p in n[2]) if n[2] else None, "call": False,
                          "attrs": [], "attributeBlocks": [], "block": None})
            d["block"] = self.blk(n[3])
            return d
        if k == 'call':
            d = self.pos({"type": "Mixin", "name": s_(n[1]), "args": s_(b', '.join(js_src(a) for a in n[2])), "call": True,
                          "attrs": None, "attributeBlocks": [], "block": None})
            d["attrs"] = self.attrs(n[3])
            d["block"] = self.blk(n[4]) if n[4] else None
            return d
        if k == 'mixinblock':
            return self.pos({"type": "MixinBlock"})
        if k == 'doctype':
            return self.pos({"type": "Doctype", "val": s_(n[1])})
        if k == 'block':
            if self.st.get("named"):
                self.nblock += 1
                d = self.pos({"type": "NamedBlock", "name": "b%d" % self.nblock, "mode": ["replace", "append", "prepend"][self.nblock % 3],
                              "nodes": None})
                d["nodes"] = [self.node(x) for x in n[1]]
                return d
            return self.blk(n[1])
        if k == 'comment':
            if self.st.get("bcomment"):
                d = self.pos({"type": "BlockComment", "val": "c", "buffer": False, "block": None})
                d["block"] = self.blk([('text', b"not rendered")])
                return d
            return self.pos({"type": "Comment", "val": "c", "buffer": False})
        raise ValueError(k)

    def file(self, nodes):
        root = self.pos({"type": "Block", "nodes": None})
        root["nodes"] = [self.node(n) for n in nodes]
        return json.dumps(root, ensure_ascii=False).encode('utf-8', 'surrogateescape')


def tn_coq(n):
    """the decoded tree as a Models.AstFields.tnode term"""
    k = n[0]
    L = lambda l: cq_list([tn_coq(x) for x in l])
    if k == 'tag':
        sc = (n[6] if len(n) > 6 else {}).get("sc", False)
        return (b'(TNTag ' + cq_bytes(n[1]) + b' ' + cq_opt(None if sc is None else cq_bool(sc)) + b' ' + cq_bool(n[2]) + b' '
                + cq_list([attr_coq(a) for a in n[3]]) + b' ' + cq_list([cq_bytes(a) for a in n[4]]) + b' ' + L(n[5]) + b')')
    if k == 'text':
        return b'(TNText ' + cq_bytes(n[1]) + b')'
    if k == 'code':
        return b'(TNCode ' + cq_list([stmt_coq(x) for x in n[1]]) + b' ' + cq_bool(n[2]) + b' ' + cq_bool(n[3]) + b')'
    if k == 'cond':
        return b'(TNCond ' + js_coq(n[1]) + b' ' + L(n[2]) + b' ' + cq_opt(None if n[3] is None else tn_coq(n[3])) + b')'
    if k == 'case':
        return b'(TNCase ' + js_coq(n[1]) + b' ' + cq_list([cq_pair(cq_opt(None if w is None else js_coq(w)), L(body))
                                                             for w, body in n[2]]) + b')'
    if k == 'each':
        return (b'(TNEach ' + cq_bytes(n[1]) + b' ' + cq_opt(None if n[2] is None else cq_bytes(n[2])) + b' '
                + js_coq(n[3]) + b' ' + L(n[4]) + b')')
    if k == 'while':
        return b'(TNWhile ' + js_coq(n[1]) + b' ' + L(n[2]) + b')'
    if k == 'mixin':
        return b'(TNMixinDef ' + cq_bytes(n[1]) + b' ' + cq_list([cq_bytes(p) for p in n[2]]) + b' ' + L(n[3]) + b')'
    if k == 'call':
        return (b'(TNMixinCall ' + cq_bytes(n[1]) + b' ' + cq_list([js_coq(a) for a in n[2]]) + b' '
                + cq_list([attr_coq(a) for a in n[3]]) + b' ' + L(n[4]) + b')')
    if k == 'mixinblock':
        return b'TNMixinBlock'
    if k == 'doctype':
        return b'(TNDoctype ' + cq_bytes(n[1]) + b')'
    if k == 'block':
        return b'(TNBlock ' + L(n[1]) + b')'
    if k == 'comment':
        return b'TNComment'
    raise ValueError(k)


def sub_lists(n):
    """[(child node list, put)] of a node; put(new list) gives the node with that list replaced"""
    k = n[0]
    if k == 'tag':
        return [(n[5], lambda b: n[:5] + (b,) + n[6:])]
    if k == 'cond':
        out = [(n[2], lambda b: (k, n[1], b, n[3]))]
        if n[3] is not None and n[3][0] == 'block':
            out.append((n[3][1], lambda b: (k, n[1], n[2], ('block', b))))
        elif n[3] is not None:
            out.append(([n[3]], lambda b: (k, n[1], n[2], None if not b else b[0] if len(b) == 1 and b[0][0] == 'cond' else ('block', b))))
        return out
    if k == 'case':
        return [(body, (lambda i: lambda b: (k, n[1], n[2][:i] + [(n[2][i][0], b)] + n[2][i + 1:]))(i)) for i, (w, body) in enumerate(n[2])]
    if k == 'each':
        return [(n[4], lambda b: n[:4] + (b,))]
    if k == 'while':
        return [(n[2], lambda b: (k, n[1], b))]
    if k == 'mixin':
        return [(n[3], lambda b: n[:3] + (b,))]
    if k == 'call':
        return [(n[4], lambda b: n[:4] + (b,))]
    if k == 'block':
        return [(n[1], lambda b: (k, b))]
    return []


def is_blank(body):
    """what pug-code-gen lets a self-closing element hold: Text nodes of white space (sc_dom of Models/AstFields.v)"""
    return all(x[0] == 'text' and x[1].strip(b" \t\r\n") == b"" for x in body)


def tag_fields(rng, name, body):
    k = rng.random()
    if name in VOID or is_blank(body):
        sc = True if k < 0.45 else False if k < 0.75 else None
    else:
        # content pug rejects under a self-closing mark: rarely (no prescription; counted as unmodelled)
        sc = True if k < 0.04 else False if k < 0.6 else None
    f = {"sc": sc}
    if not body:
        f["blk"] = rng.choice(["block", "block", "null", "absent"])
    if rng.random() < 0.3:
        f["at"] = "absent"
    if rng.random() < 0.15:
        f["to"] = rng.random() < 0.7
    return f


def slash_element(rng):
    """`name/` as the pug front end hands it over: selfClosing true, any element kind, with what may follow the slash"""
    name = rng.choice(SLASH_NAMES) if rng.random() < 0.8 else rng.choice(VOID)
    k = rng.random()
    if k < 0.55:
        body = []
    elif k < 0.93:
        body = [('text', rng.choice(WS_TEXTS)) for _ in range(rng.choice([1, 1, 2]))]
    else:
        body = [text(rng)]
    f = {"sc": True}
    if not body:
        f["blk"] = rng.choice(["block", "null", "absent"])
    return ('tag', name, rng.random() < 0.5, [], [], body, f)


def dress_node(rng, n):
    n2 = n
    for i, (lst, _) in enumerate(sub_lists(n)):
        if n[0] == 'cond' and i == 1 and n[3][0] != 'block':
            n2 = n2[:3] + (dress_node(rng, n2[3]),)
        else:
            n2 = sub_lists(n2)[i][1](dress(rng, lst, top=False))
    if n2[0] == 'tag':
        inline = (not n2[2]) if rng.random() < 0.12 else n2[2]      # isInline is the front end's opinion, not the name's
        n2 = ('tag', n2[1], inline) + n2[3:6] + (tag_fields(rng, n2[1], n2[5]),)
    return n2


def dress(rng, nodes, top=True):
    """every Tag of the tree gets its AST fields; explicit `name/` elements are put between the nodes of any list"""
    out = [dress_node(rng, n) for n in nodes]
    while rng.random() < 0.2:
        lo = 1 if top and out and out[0][0] == 'doctype' else 0
        out.insert(rng.randrange(lo, len(out) + 1), slash_element(rng))
    return out


def new_style(rng):
    return {"lines": rng.random() < 0.6, "line0": rng.choice([0, 1, 1, 1, 40, 2 ** 31 - 40]),
            "filename": rng.choice(["t.pug", "/src/page/t.pug", "", "atom/b{{t}}.pug"]),
            "named": rng.random() < 0.4, "html": rng.random() < 0.4, "bcomment": rng.random() < 0.3,
            "sc_other": rng.random() < 0.3, "sc_key": rng.choice(SC_KEYS)}


def all_tags(nodes, acc):
    for n in nodes:
        if n[0] == 'tag':
            acc.append(n)
        for lst, _ in sub_lists(n):
            all_tags(lst, acc)
    return acc


# ---------------------------------------------------------------------------------------------------------
# SIBLING PAGES.  A template is never alone: LoadTemplates("") compiles every *.ast.json under template/page in one
# go, directory by directory.  Pages of one project define mixins of the same name (`+card`, `+it`) with bodies of
# their own; what page t renders must be what t says, whatever was compiled before it.  A case may carry sibling
# pages (case["siblings"]: name -> nodes) that are written next to t (same directory; directory order decides which
# is compiled first, so several names are used) or into a sub-directory.  They are never rendered and are
# invisible to model and specification: the oracle is the rendering of t alone.
MIXIN_NAMES = [b"m1", b"card", b"it"]
SIBLING_NAMES = ["a", "index", "m", "page2", "u", "zz", "0", "T", "home.partial", "sub/t", "sub/other", "s"]


def sibling_page(rng, names):
    """a loadable page of its own: the mixin names of the project with OTHER bodies, static content, calls"""
    nodes = []
    for nm in names:
        body = [text(rng), ('tag', rng.choice(BLOCK_TAGS + INLINE_TAGS), False, [], [], [text(rng, edge_ws=False)]),
                ('code', [('expr', ('id', b"a"))], True, True)]
        rng.shuffle(body)
        if rng.random() < 0.5:
            body.append(('mixinblock',))
        nodes.append(('mixin', nm, [b"a"], body))
    nodes += static_nodes(rng, 1, rng.choice([1, 2]))
    for nm in names:
        if rng.random() < 0.7:
            blk = [text(rng)] if rng.random() < 0.5 else []
            nodes.insert(rng.randrange(len(names), len(nodes) + 1), ('call', nm, [('str', b"sibling")], [], blk))
    return nodes


def siblings(rng, names):
    out = {}
    for _ in range(rng.choice([1, 2, 2, 3])):
        out[rng.choice(SIBLING_NAMES)] = ser(sibling_page(rng, names))
    return out


class G(tgen.TGen):
    """tgen's typed program generator with this property's texts"""

    def text(self):
        return text(self.rng)


# pop()/shift() are left to C20 (Tmpl/Runtime.v does not follow the repaired empty-array cases)
UNBUF = [(b"unshift", True), (b"push", True), (b"unshift", True)]


CODE_LITERALS = [b"{", b"a{", b"{{", b"a{{b", b"}}", b"{}}", b"{{{", b"x}}y{", b"{ {", b"<b>{", b"{{- x -}}", b"}", b"a", b"{a", b" {"]


def code_literal(rng):
    """`= "<literal>"`: escaped buffered code whose expression is a string literal with braces"""
    s = rng.choice(CODE_LITERALS) if rng.random() < 0.7 else b"".join(rng.choice(BRACEY + [b"a", b"-", b" "]) for _ in range(rng.choice([1, 2, 3, 4])))
    return ('code', [('expr', ('str', s))], True, True)


def unbuffered(rng):
    m, arg = rng.choice(UNBUF)
    args = [('num', rng.choice([1, 7, 42]))] if arg else []
    return ('code', [('expr', ('call', ('dot', ('id', b"xs"), m), args))], False, False)


class C06(CoreProp):
    id = "C06"
    judge_module = "Run.Judge_C06"
    prop_module = "Props.C06"
    prop_file = "Props/C06.v"
    coq_targets = ["Props/C06.vo", "Run/Judge_C06.vo", "Props/Tables.vo"]
    sizes = {"quick": 1500, "thorough": 24000}
    shard = 120
    design_ref = "DESIGN.md section 6/C06"
    rule = ("half of the cases are STATIC tag trees (block/inline, void/non-void incl. void elements with children, depth <= 8, "
            "doctype first, comments, nested blocks) whose texts are drawn from a delimiter-heavy alphabet ({ } {{ }} {}} {{{ - \" ` \\ / * "
            "trim and comment markers, space/tab/CR/LF, multi-byte UTF-8) in every adjacency (text|text, text|tag, tag|text); oracle on "
            "Go's own output: exact equality with the HTML serialiser, and the byte-level lexer model run on the engine's emitted "
            "template source must yield text/string-literal items whose values concatenate to the engine's output. The other half are "
            "MIXED programs (the same texts next to buffered code, buffered string literals with braces (`= \"a{\"`, F-C06-f), "
            "assignments, if/else, case, each, while, mixin definition/call/block, unbuffered calls) rendered with data; oracle: the independent pug semantics, white space only at text edges in "
            "trees with control constructs. AST FIELDS: 40 % of the cases (static and mixed alike) are written as the pug front end writes "
            "them, with the fields the decoder reads (pugjs.Token) but ordinary templates never set, each in every value on every element "
            "kind: `selfClosing` absent/false/true on void, block-level, inline, script and custom elements (and on every other node kind, "
            "spelled in any letter case); explicit `name/` elements (selfClosing true) put between the nodes of any list -- top level, element, "
            "loop, branch, mixin body, call block -- empty, with `block` empty/null/absent, or holding white-space text; isInline contradicting "
            "the element kind; attrs/attributeBlocks absent; textOnly; line/column/filename on every node; NamedBlock (name, mode) for Block; "
            "BlockComment; isHtml. Oracle unchanged and on the ERASED tree (an end tag for every element that is not void, none for void ones, "
            "every text byte for byte -- the flag has no say); an element that is not void, marked self-closing and holding anything but "
            "white-space text is rejected by pug itself: no prescription, such cases (about 4 %) are compared with the model only and counted "
            "as unmodelled (drift when the engine deviates from the model). SIBLING PAGES: 15 % of the mixed cases (those that define a "
            "mixin) and 6 % of the static ones are loaded together with 1-3 other pages -- in the same directory (several names, so that "
            "directory order puts some before t) or a sub-directory -- that define the project's mixin names (m1, card, it: the name t uses "
            "included) with bodies of their own and call them; they are never rendered and invisible to model and specification: t must "
            "render what t says, and its emitted source must be its own. non-trivial = some text contains a brace and has a neighbour, or "
            "tree depth >= 3, or an element that is not void carries the mark next to another node; distinct by SHA-1 of the case")
    trusted = [
        "M = Pug/Compile.v (buildNode Text arm, Tag/Text/Doctype/Block/Comment Render), Tmpl/IR.v (token-level trimming), "
        "Tmpl/Lexer.v (byte-level model of the top level of parse/lex.go), Tmpl/Exec.v: hand-written Gallina readings of the Go code, "
        "compared with the real engine on every case (output, emitted template text, lexer seam)",
        "S = Spec/HtmlSer.v (HTML serialiser and balanced-document predicate; void elements written down from the HTML5 standard) "
        "and Spec/Sem.v for programs with control constructs",
        "what lexInsideAction and the parser make of the bytes INSIDE an action is not modelled by Lexer.v (DESIGN section 8): the three "
        "actions a quoted text consists of are single interpreted string literals; their value is read off by str_lit",
        "the pug front end (pug-lexer/parser) is not available offline: the AST JSON is generated (isInline, mustEscape as the real "
        "compiler sets them); text must be valid UTF-8 to survive encoding/json",
        "Models/AstFields.v: tnode = the tree as the decoder sees it (every Tag with the `selfClosing` field of its AST node), bn_tag = "
        "hand-written reading of the Tag arm of buildNode, mevents = the case split of CommonTag.render on the built tag; the judge's "
        "case carries this tree, model and oracle work on `erase` of it (C06_ast_flag_erased). The other AST fields of the class "
        "(line, column, filename, textOnly, isHtml, NamedBlock name/mode, BlockComment, absent/null block, absent attrs, key spelling) "
        "have no counterpart in Coq: gen/c06.py (Writer) writes them into the file the engine loads and the emitter leaves them out, i.e. "
        "the oracle demands that the output does not depend on them",
        "what pug accepts under a self-closing mark (sc_dom: Text nodes of space/tab/CR/LF only) is written down from pug-code-gen "
        "visitTag (`<name/>`, error SELF_CLOSING_CONTENT otherwise), not executed; that the property wants `<div></div>` and not pug's "
        "own `<div/>` there is read off its text (an end tag for every non-void element)",
    ]
    assumptions = [
        "tag names and doctype values contain no '{{' (the generator uses HTML names)",
        "a block-level unescaped code line that is a bare method call is the unbuffered form `- f(x)` (Code.Buffer is not part of the "
        "modelled AST): pug prints nothing for it",
        "listed deviations (KNOWN_FINDINGS.txt) are reported as KNOWN-FINDING, not judged as violations",
        "sibling pages are loadable by construction (static content, mixin definitions with one parameter, calls with a string "
        "argument); a load failure of the directory is judged as the engine refusing t",
        "every Tag and Code node of an AST has isInline (the pug front end always sets it; CommonTag.render dereferences it in both "
        "modes); InterpolatedTag nodes (`#{e}/`: there the engine does honour selfClosing, the name being unknown at load time) and "
        "buffered comments are not generated; production mode only (debug mode: C13)",
    ]
    not_yet_proved = [
        "the lexer seam segment (show_toks ts) = Some (map seg_of_tok (lexed ts)) is a THEOREM for every compiled program of the domain "
        "node_dom, all node kinds and all expressions (template literals included), production and debug mode "
        "(C06_lexer_seam_partial = C06_compile_wf, by induction over the compiler incl. all of jexpr, followed by C06_lexer_seam_wf, for "
        "all well-formed token lists). node_dom excludes only an element name ending in '{' with attributes (outside the pug grammar) and "
        "a float literal whose text is not a number (artefact of the model's JNumF); for both the statement is false "
        "(C06_lexer_seam_refuted). The two former exclusions were defects of the code and are repaired (F-C06-f buffered string literal "
        "ending in '{', F-C01-h template literal with a double quote in a literal part; C06_lexer_seam_unrepaired_refuted shows the old "
        "arms failing; C06_code_literal: a buffered string literal never makes the compiler decline). Not proved: that the bytes INSIDE "
        "an action parse to the `act` its token carries (Tmpl/Lexer.v models only where an action ends; DESIGN section 8) -- compared "
        "per case through the engine's output and emitted text (lexer_seam_ok)",
        "C06_trim_only_ws at the level of the rendered OUTPUT (render_prod p related to the ideal concatenation by white space at text "
        "edges, through the executor, for all mixed programs): proved are the relation trims_rel for ALL token lists "
        "(C06_lexer_trims_only_ws), the shape theorem that only control actions carry markers for ALL programs (C06_trim_only_ws) and "
        "the exact output for all static trees (C06_static_model_output); the output-level statement for mixed programs is checked by "
        "the oracle (ws_subseq against the independent semantics) on the implementation's own output",
        "AST fields: proved are C06_ast_selfclosing_table_only (the built tag's SelfClosing is the table's verdict for ALL names and flag "
        "values), C06_ast_flag_erased (ALL trees: the events CommonTag.render writes on built tags = the specification's events of the "
        "erased tree), C06_ast_static / C06_ast_static_wf (ALL static decoded trees: emitted source = serialisation, well-formed) and "
        "C06_ast_selfclosing_guarded_refuted (the conditional overwrite breaks a template pug accepts). Not proved: anything about the "
        "JSON decoder itself (that absent / null / differently spelled keys and the position fields reach buildNode as the zero value or "
        "not at all) -- that is what the dressed cases compare on the real code",
    ]

    # ---------------------------------------------------------------- generation
    def gen_static(self, rng, tier):
        depth = rng.choice([0, 1, 1, 2, 2, 3, 3, 4, 5, 8 if tier != "quick" else 6])
        nodes = static_nodes(rng, depth, rng.choice([1, 2, 2, 3, 4]))
        k = rng.random()
        if k < 0.3:
            nodes.insert(0, ('doctype', rng.choice(DOCTYPES)))
        if rng.random() < 0.03:
            # F-C06-e stays visible: a script element with a line feed in its body
            nodes.append(('tag', b"script", False, [], [], [('text', b"var a = 1;"), ('text', b"\n"), ('text', b"a++;")]))
        elif rng.random() < 0.03:
            nodes.append(('tag', b"script", False, [], [], [('text', rng.choice([b"f({})", b"x = {a: {b: 1}}", b"if (a) { b() }"]))]))
        case = self.finish(rng, nodes, [{}])
        if rng.random() < 0.06:
            case["siblings"] = siblings(rng, MIXIN_NAMES)
        return case

    def finish(self, rng, nodes, datas):
        """the AST fields ordinary templates never set: DRESSED share of the cases (static and mixed alike)"""
        case = {"nodes": None, "datas": [ser(d) for d in datas]}
        if rng.random() < DRESSED:
            nodes = dress(rng, nodes)
            case["ast"] = new_style(rng)
        case["nodes"] = ser(nodes)
        return case

    def gen_mixed(self, rng, tier):
        g = G(rng, max_depth=2)
        data, env = g.data()
        types0 = dict(env.types)
        kinds = {'text': 6, 'buf': 2, 'assign': 1, 'tag': 3, 'void': 1, 'if': 2.5, 'case': 1, 'each': 2, 'while': 0.4}
        depth = rng.choice([1, 1, 2, 2, 3])
        nodes = g.nodes(env, rng.choice([2, 3, 3, 4, 5]), depth, kinds)
        # this property's own neighbours: unbuffered calls, mixins, comments, doctype
        if rng.random() < 0.25:
            for _ in range(rng.choice([1, 1, 2])):
                nodes.insert(rng.randrange(len(nodes) + 1), unbuffered(rng))
        if rng.random() < 0.3:
            nodes.insert(rng.randrange(len(nodes) + 1), ('comment',))
        if rng.random() < 0.3:
            # F-C06-f: buffered string literals (`= "a{"`) are written into the template source as text: ending in {,
            # holding {{ or }}, next to actions and texts (and to each other)
            for _ in range(rng.choice([1, 1, 2, 3])):
                nodes.insert(rng.randrange(len(nodes) + 1), code_literal(rng))
        sib = None
        if rng.random() < 0.25:
            name = rng.choice(MIXIN_NAMES)
            if rng.random() < 0.6:
                sib = siblings(rng, MIXIN_NAMES if rng.random() < 0.7 else [name])
            body = [text(rng), ('code', [('expr', ('id', b"a"))], True, True), text(rng)]
            if rng.random() < 0.6:
                body.insert(rng.randrange(len(body) + 1), ('mixinblock',))
            if rng.random() < 0.4:
                body = [('tag', rng.choice(BLOCK_TAGS), False, [], [], body)]
            nodes.insert(0, ('mixin', name, [b"a"], body))
            for _ in range(rng.choice([1, 1, 2])):
                blk = [text(rng)] + ([g.buffered(env)] if rng.random() < 0.4 else []) if rng.random() < 0.6 else []
                call = ('call', name, [g.expr(env, rng.choice(['str', 'num']), 1)], [], blk)
                pos = rng.randrange(1, len(nodes) + 1)
                nodes[pos:pos] = [text(rng), call, text(rng)] if rng.random() < 0.5 else [call]
        if rng.random() < 0.15:
            nodes.insert(0, ('doctype', b"html"))
        datas = [data]
        if rng.random() < 0.3:
            datas.append({k: g.value_of(t) for k, t in types0.items()})
        case = self.finish(rng, nodes, datas)
        if sib:
            case["siblings"] = sib
        return case

    def generate(self, rng, n, tier):
        cases = []
        for i in range(n):
            cases.append(self.gen_static(rng, tier) if rng.random() < 0.5 else self.gen_mixed(rng, tier))
        return cases

    # ---------------------------------------------------------------- the case as the engine / the judge get it
    def harness_case(self, case):
        nodes, datas = de(case["nodes"]), [de(d) for d in case["datas"]]
        files = {hx("t"): hx(Writer(case.get("ast")).file(nodes))}
        for name, sn in (case.get("siblings") or {}).items():
            files[hx(name)] = hx(Writer(None).file(de(sn)))
        return {"files": files, "render": hx("t"), "datas": [tmpl.data_go(d) for d in datas], "debug": False}

    def emit(self, case, obs):
        nodes, datas = de(case["nodes"]), [de(d) for d in case["datas"]]
        return (b"{| k_tree := " + cq_list([tn_coq(n) for n in nodes])
                + b"; k_datas := " + cq_list([tmpl.data_coq(d) for d in datas])
                + b"; k_funcs := " + cq_list([cq_bytes(f) for f in FUNCS])
                + b"; k_prod := " + obsm_coq(obs["prod"], len(datas))
                + b"; k_debug := " + cq_opt(None) + b" |}")

    def sample(self, case, obs):
        d = CoreProp.sample(self, case, obs)
        d["pug_ast"] = json.loads(Writer(case.get("ast")).file(de(case["nodes"])).decode("utf-8", "replace"))
        if case.get("siblings"):
            d["sibling_pages"] = {k: json.loads(Writer(None).file(de(v)).decode("utf-8", "replace")) for k, v in case["siblings"].items()}
        return d

    # ---------------------------------------------------------------- evidence
    def nontrivial(self, case, obs):
        nodes = de(case["nodes"])
        texts = all_texts(nodes, [])
        total = sum(tgen.node_kinds(nodes).values())
        marked = any(len(t) > 6 and t[6].get("sc") and t[1] not in VOID for t in all_tags(nodes, []))
        return (total >= 2 and any(b"{" in t or b"}" in t for t in texts)) or tree_depth(nodes) >= 3 or (total >= 2 and marked)

    def distribution(self, cases, obss):
        d = CoreProp.distribution(self, cases, obss)
        depth = {}
        static = 0
        brace_texts = 0
        ntexts = 0
        for c in cases:
            nodes = de(c["nodes"])
            k = tree_depth(nodes)
            depth[str(k)] = depth.get(str(k), 0) + 1
            kinds = tgen.node_kinds(nodes)
            if all(x in ('tag', 'text', 'block', 'doctype', 'comment') for x in kinds):
                static += 1
            for t in all_texts(nodes, []):
                ntexts += 1
                if b"{" in t or b"}" in t:
                    brace_texts += 1
        d.update({"tree_depth": depth, "static_cases": static, "mixed_cases": len(cases) - static,
                  "texts": ntexts, "texts_with_braces": brace_texts})
        # the AST-field class: which element kinds carried which value of selfClosing, and in what company
        fields = {"cases_with_ast_fields": 0, "tags": 0}
        for c in cases:
            if "ast" in c:
                fields["cases_with_ast_fields"] += 1
                for k, v in c["ast"].items():
                    if v is True:
                        fields["style_" + k] = fields.get("style_" + k, 0) + 1
            marked = off = False
            for t in all_tags(de(c["nodes"]), []):
                fields["tags"] += 1
                if len(t) <= 6:
                    continue
                f = t[6]
                kind = "void" if t[1] in VOID else "script" if t[1] == b"script" else "inline" if t[1] in INLINE_TAGS else "block-level"
                key = "selfClosing_%s_on_%s" % ({None: "absent", False: "false", True: "true"}[f.get("sc")], kind)
                fields[key] = fields.get(key, 0) + 1
                if f.get("sc") and t[1] not in VOID:
                    marked = True
                    body = "empty" if not t[5] else "white_space_text" if is_blank(t[5]) else "content_pug_rejects"
                    fields["marked_not_void_" + body] = fields.get("marked_not_void_" + body, 0) + 1
                    off = off or body == "content_pug_rejects"
                for k in ("blk", "at"):
                    if f.get(k) in ("null", "absent"):
                        fields["%s_%s" % (k, f[k])] = fields.get("%s_%s" % (k, f[k]), 0) + 1
                if f.get("to") is not None:
                    fields["textOnly_set"] = fields.get("textOnly_set", 0) + 1
            if marked:
                fields["cases_marking_an_element_that_is_not_void"] = fields.get("cases_marking_an_element_that_is_not_void", 0) + 1
            if off:
                fields["cases_outside_pugs_domain"] = fields.get("cases_outside_pugs_domain", 0) + 1
        d["ast_fields"] = fields
        with_sib = [c for c in cases if c.get("siblings")]
        d["sibling_pages"] = {"cases_with_sibling_pages": len(with_sib), "pages": sum(len(c["siblings"]) for c in with_sib),
                              "cases_whose_own_mixin_name_is_defined_by_a_sibling": sum(
                                  1 for c in with_sib if any(n[0] == 'mixin' for n in de(c["nodes"])))}
        return d

    def model_expr(self):
        return ("(let k := c in let c := case_of k in (forallb sc_dom (k_tree k), forallb Spec.HtmlSer.static (nodes_of c), string_of_list_ascii (Spec.HtmlSer.html_ser (nodes_of c)), lexer_seam_ok c, "
                "match Tmpl.Lexer.segment (o_code (c_prod c)) with Some l => Some (map (fun g => match g with Tmpl.Lexer.SText s => (0, string_of_list_ascii s) "
                "| Tmpl.Lexer.SAct l b r => ((if l then 1 else 0) + (if r then 2 else 0) + 10, string_of_list_ascii b) end) l) | None => None end, "
                "match model_toks false c with Some ts => Some (string_of_list_ascii (show_toks ts)) | None => None end, "
                "map (fun d => (match model_out false c d with OOk o => (0, string_of_list_ascii o) | OPanic => (1, EmptyString) "
                "| OUnmod => (3, EmptyString) | OFuel => (4, EmptyString) end, "
                "match spec06 c d with Spec.Sem.SOut o f => (0, string_of_list_ascii o, f) | Spec.Sem.SError f => (1, EmptyString, f) "
                "| Spec.Sem.SOffDomain => (2, EmptyString, []) | Spec.Sem.SNoFuel => (4, EmptyString, []) end)) (c_datas c)))")

    # ---------------------------------------------------------------- direct lexer stream
    def extra(self, binary, tmp, tier, rng, ev):
        """template SOURCE TEXT (text pieces, literal actions with and without trim markers, comments, quotes holding
        delimiters, unterminated constructs) through the real lexer/parser/executor; Tmpl/Lexer.v must predict the output"""
        n = 800 if tier == "quick" else 12000
        srcs = [lex_source(rng) for _ in range(n)]
        obss = run_harness(binary, "C06L", [{"src": s.hex()} for s in srcs])
        cls = {"ok": 0, "parse_error": 1}
        terms = [b"{| l_src := " + cq_bytes(s) + b"; l_class := " + cq_nat(cls.get(o["class"], 2)) + b"; l_out := "
                 + cq_bytes(unhx(o.get("out", ""))) + b" |}" for s, o in zip(srcs, obss)]
        codes = judge_in_coq(self.judge_module, terms, tmp, shard=400, judge_fn="judge_lex", tag="L")
        hist = {}
        for c in codes:
            hist[str(c)] = hist.get(str(c), 0) + 1
        ev["coverage"]["lexer_stream"] = {
            "what": "template source text -> pugjs.New(..).Parse + Execute (real lexer) vs Tmpl/Lexer.v segment + literal values",
            "evaluations": n, "agree": hist.get("0", 0), "disagree": hist.get("2", 0), "not_evaluated": hist.get("3", 0),
            "go_classes": {k: sum(1 for o in obss if o["class"] == k) for k in sorted({o["class"] for o in obss})},
            "samples": [srcs[i].decode("utf-8", "replace") for i in range(3)]}
        bad = sorted((len(srcs[i]), i) for i, c in enumerate(codes) if c not in (0, 3))
        if not bad:
            return []
        i = bad[0][1]
        return [{"index": "lexer%d" % i, "case": {"src": srcs[i].hex(), "text": srcs[i].decode("utf-8", "replace")},
                 "observation": obss[i],
                 "what": "Tmpl/Lexer.v (byte-level model of parse/lex.go) and the real lexer disagree on this template source: "
                         "text items / trimming / where an action ends (%d of %d sources disagree)" % (len(bad), n)}]

    # ---------------------------------------------------------------- shrinking
    def shrink(self, case):
        nodes = de(case["nodes"])
        out = []
        if "ast" in case:
            out.append({k: v for k, v in case.items() if k != "ast"})
        if case.get("siblings"):
            out.append({k: v for k, v in case.items() if k != "siblings"})
            if len(case["siblings"]) > 1:
                for name in case["siblings"]:
                    out.append(dict(case, siblings={k: v for k, v in case["siblings"].items() if k != name}))
            for name, sn in case["siblings"].items():
                for cand in list(shrink_list(de(sn), fine=False))[:12]:
                    out.append(dict(case, siblings=dict(case["siblings"], **{name: ser(cand)})))
        if len(case["datas"]) > 1:
            out.append(dict(case, datas=case["datas"][:1]))
        big = sum(tgen.node_kinds(nodes).values()) > 40
        for cand in shrink_list(nodes, fine=not big):
            out.append(dict(case, nodes=ser(cand)))
        if "ast" in case:
            for k, v in case["ast"].items():
                if v is True:
                    out.append(dict(case, ast=dict(case["ast"], **{k: False})))
        if not big:
            # expression-level candidates of the shared shrinker (they drop the AST fields of the tags they rebuild)
            out += list(CoreProp.shrink(self, case))
        return out


LEX_TEXT = [b"a", b" a ", b"  ", b"\n", b"\t x", b" \r\n", b"}}", b"}", b"-", b"- ", b" -", b"{", b"x{", b"<p>", b"</p>", b"\xc3\xa9 ",
            b" \xc2\xa0", b"\x0c ", b'"', b"`", b"'", b"*/", b"/*", b" y\n\n"]
LEX_ACT = [b'{{"x"}}', b'{{- "x" -}}', b'{{- "x"}}', b'{{"x" -}}', b'{{ "a}}b" }}', b'{{`r}}`}}', b'{{/* c */}}', b'{{- /* c */ -}}',
           b'{{/* }} */}}', b'{{- /* {{ */}}', b'{{/* c */ -}}', b'{{"x"  -}}', b'{{ "q\\"}}" }}', b'{{ `a\nb` }}', b'{{-3}}', b'{{ 3 -}}', b'{{- 42 -}}',
           b'{{"{{"}}', b'{{"}}"}}', b'{{"{"}}', b'{{ "" }}', b'{{\t"t"\t}}', b'{{ "x"\t-}}', b'{{- "-}}" -}}', b'{{ ` -}}` -}}',
           b'{{"x"', b'{{/* c', b'{{"a\n"}}', b"{{ 'c' }}", b'{{/* c */ }}', b'{{ "x"\n}}', b'{{`r', b'{{ "\\\\" }}', b'{{-"x"}}', b'{{ "x"-}}']


def lex_source(rng):
    parts = []
    for _ in range(rng.choice([1, 2, 3, 3, 4, 5, 6])):
        if rng.random() < 0.5:
            parts.append(rng.choice(LEX_TEXT))
        else:
            a = rng.choice(LEX_ACT)
            # the erroneous forms rarely, so that most sources reach the executor
            if a in LEX_ACT[25:] and rng.random() < 0.6:
                a = rng.choice(LEX_ACT[:25])
            parts.append(a)
    return b"".join(parts)


def shrink_text(s):
    if len(s) > 1:
        yield s[:len(s) // 2]
        yield s[len(s) // 2:]
        for i in range(min(len(s), 12)):
            yield s[:i] + s[i + 1:]


def shrink_list(nodes, fine=True):
    """candidates, boldest first: drop a node; a tag / conditional replaced by its children; the same inside any child
    list (AST fields kept); an element's AST fields dropped, one by one; a text shortened"""
    for i in range(len(nodes)):
        yield nodes[:i] + nodes[i + 1:]
    for i, n in enumerate(nodes):
        if n[0] == 'tag' and n[5]:
            yield nodes[:i] + n[5] + nodes[i + 1:]
        elif n[0] == 'cond' and n[2]:
            yield nodes[:i] + n[2] + nodes[i + 1:]
    for i, n in enumerate(nodes):
        for lst, put in sub_lists(n):
            for cand in shrink_list(lst, fine):
                yield nodes[:i] + [put(cand)] + nodes[i + 1:]
    for i, n in enumerate(nodes):
        if n[0] == 'tag' and len(n) > 6:
            yield nodes[:i] + [n[:6]] + nodes[i + 1:]
            if fine:
                for k in n[6]:
                    yield nodes[:i] + [n[:6] + ({a: b for a, b in n[6].items() if a != k},)] + nodes[i + 1:]
        elif n[0] == 'text' and fine:
            for t in shrink_text(n[1]):
                yield nodes[:i] + [('text', t)] + nodes[i + 1:]


PROP = C06()
