# C06 — static structure and text are reproduced faithfully.
import tgen
import tmpl
from core import CoreProp, ser, de, shrink_nodes
from common import run_harness, judge_in_coq, cq_bytes, cq_nat, unhx, BuildError

# delimiter-heavy alphabet: the template engine's own delimiters, trim markers, comment markers, quotes,
# back-ticks, backslashes, white space of every kind the lexer trims, multi-byte UTF-8, inline markup
PIECES = [b"{", b"}", b"{{", b"}}", b"-", b'"', b"`", b"\\", b"/", b"*", b" ", b"\n", b"\t", b"\r", b"'",
          b"\xc3\xa9", b"\xe2\x82\xac", b"a", b"b", b"x", b"{{-", b"-}}", b"{{- ", b" -}}", b"{{/*", b"*/}}",
          b"{}}", b"{{{", b"}}}", b"--{{--", b"--}}--", b'{{"{{"}}', b'{{"{"}}', b"<b>", b"&", b"1 < 2", b"{{.}}",
          b"{{ x }}", b"--", b"${x}", b"$", b". ", b"word", b"{ {", b"} }",
          # characters other layers of the pipeline give a meaning to (printf verbs, escapes, entities, NUL-free controls)
          b"%", b"50% off", b"%s", b"%d%%", b"%!", b"\\n", b"&amp;", b"&#34;", b"\x0b", b"#{x}", b"!{x}", b"| ", b"//",
          b"\x0c", b"\xc2\xa0", b" \x0c", b"\xc2\xa0 "]   # form feed, no-break space: white space the lexer must NOT trim
BRACEY = [b"{", b"}", b"{{", b"}}", b"{}}", b"{{{", b"}}}", b"{", b"}"]
BLOCK_TAGS = [b"div", b"p", b"ul", b"li", b"h1", b"section", b"td", b"main", b"x-y"]
INLINE_TAGS = [b"span", b"b", b"i", b"a", b"em", b"q"]
VOID = [b"br", b"hr", b"img", b"input", b"meta", b"link", b"wbr", b"area", b"base", b"col", b"embed", b"param",
        b"source", b"track", b"command", b"keygen"]
DOCTYPES = [b"html", b"html PUBLIC \"-//W3C//DTD XHTML 1.0 Strict//EN\"", b"xml", b"{x}"]


def text(rng, edge_ws=True):
    k = rng.random()
    if k < 0.12:
        s = rng.choice(BRACEY)
    elif k < 0.2:
        s = rng.choice(PIECES)
    else:
        n = rng.choice([1, 2, 2, 3, 3, 4, 5, 6, 8])
        if rng.random() < 0.5:
            s = b"".join(rng.choice(BRACEY + [b"a", b"-", b'"', b" "]) for _ in range(n))
        else:
            s = b"".join(rng.choice(PIECES) for _ in range(n))
    if not edge_ws:
        s = s.strip(b" \t\r\n") or b"x"
    return ('text', s)


def static_nodes(rng, depth, width):
    out = []
    for _ in range(width):
        k = rng.random()
        if k < 0.42 or depth <= 0:
            out.append(text(rng))
        elif k < 0.47:
            out.append(('comment',))
        elif k < 0.57:
            body = static_nodes(rng, depth - 1, rng.choice([0, 1, 2])) if rng.random() < 0.25 else []
            out.append(('tag', rng.choice(VOID), True, [], [], body))
        elif k < 0.61:
            out.append(('block', static_nodes(rng, depth - 1, rng.choice([1, 2]))))
        else:
            inline = rng.random() < 0.45
            name = rng.choice(INLINE_TAGS if inline else BLOCK_TAGS)
            out.append(('tag', name, inline, [], [], static_nodes(rng, depth - 1, rng.choice([0, 1, 1, 2, 2, 3]))))
    return out


def tree_depth(nodes):
    best = 0
    for n in nodes:
        for x in n[1:]:
            if isinstance(x, list) and x and isinstance(x[0], tuple) and isinstance(x[0][0], str) and x[0][0] in KINDS:
                best = max(best, tree_depth(x))
        if n[0] == 'cond' and n[3] is not None:
            best = max(best, tree_depth([n[3]]) - 1)
        if n[0] == 'case':
            for _, body in n[2]:
                best = max(best, tree_depth(body))
    return 1 + best if nodes else 0


KINDS = ('tag', 'text', 'code', 'cond', 'case', 'each', 'while', 'mixin', 'call', 'mixinblock', 'block', 'doctype', 'comment')


def all_texts(nodes, acc):
    for n in nodes:
        if n[0] == 'text':
            acc.append(n[1])
        for x in n[1:]:
            if isinstance(x, list) and x and isinstance(x[0], tuple) and isinstance(x[0][0], str) and x[0][0] in KINDS:
                all_texts(x, acc)
            elif isinstance(x, tuple) and x and x[0] in ('cond', 'block'):
                all_texts([x], acc)
        if n[0] == 'case':
            for _, body in n[2]:
                all_texts(body, acc)
    return acc


class G(tgen.TGen):
    """tgen's typed program generator with this property's texts"""

    def text(self):
        return text(self.rng)


# pop()/shift() are left to C20 (Tmpl/Runtime.v does not follow the repaired empty-array cases)
UNBUF = [(b"unshift", True), (b"push", True), (b"unshift", True)]


CODE_LITERALS = [b"{", b"a{", b"{{", b"a{{b", b"}}", b"{}}", b"{{{", b"x}}y{", b"{ {", b"<b>{", b"{{- x -}}", b"}", b"a", b"{a", b" {"]


def code_literal(rng):
    """`= "<literal>"`: escaped buffered code whose expression is a string literal with braces"""
    s = rng.choice(CODE_LITERALS) if rng.random() < 0.7 else b"".join(rng.choice(BRACEY + [b"a", b"-", b" "]) for _ in range(rng.choice([1, 2, 3, 4])))
    return ('code', [('expr', ('str', s))], True, True)


def unbuffered(rng):
    m, arg = rng.choice(UNBUF)
    args = [('num', rng.choice([1, 7, 42]))] if arg else []
    return ('code', [('expr', ('call', ('dot', ('id', b"xs"), m), args))], False, False)


class C06(CoreProp):
    id = "C06"
    judge_module = "Run.Judge_C06"
    prop_module = "Props.C06"
    prop_file = "Props/C06.v"
    coq_targets = ["Props/C06.vo", "Run/Judge_C06.vo", "Props/Tables.vo"]
    sizes = {"quick": 1500, "thorough": 40000}
    shard = 120
    design_ref = "DESIGN.md section 6/C06"
    rule = ("half of the cases are STATIC tag trees (block/inline, void/non-void incl. void elements with children, depth <= 8, "
            "doctype first, comments, nested blocks) whose texts are drawn from a delimiter-heavy alphabet ({ } {{ }} {}} {{{ - \" ` \\ / * "
            "trim and comment markers, space/tab/CR/LF, multi-byte UTF-8) in every adjacency (text|text, text|tag, tag|text); oracle on "
            "Go's own output: exact equality with the HTML serialiser, and the byte-level lexer model run on the engine's emitted "
            "template source must yield text/string-literal items whose values concatenate to the engine's output. The other half are "
            "MIXED programs (the same texts next to buffered code, buffered string literals with braces (`= \"a{\"`, F-C06-f), "
            "assignments, if/else, case, each, while, mixin definition/call/block, unbuffered calls) rendered with data; oracle: the independent pug semantics, white space only at text edges in "
            "trees with control constructs. non-trivial = some text contains a brace and has a neighbour, or tree depth >= 3; "
            "distinct by SHA-1 of the case")
    trusted = [
        "M = Pug/Compile.v (buildNode Text arm, Tag/Text/Doctype/Block/Comment Render), Tmpl/IR.v (token-level trimming), "
        "Tmpl/Lexer.v (byte-level model of the top level of parse/lex.go), Tmpl/Exec.v: hand-written Gallina readings of the Go code, "
        "compared with the real engine on every case (output, emitted template text, lexer seam)",
        "S = Spec/HtmlSer.v (HTML serialiser and balanced-document predicate; void elements written down from the HTML5 standard) "
        "and Spec/Sem.v for programs with control constructs",
        "what lexInsideAction and the parser make of the bytes INSIDE an action is not modelled by Lexer.v (DESIGN section 8): the three "
        "actions a quoted text consists of are single interpreted string literals; their value is read off by str_lit",
        "the pug front end (pug-lexer/parser) is not available offline: the AST JSON is generated (isInline, mustEscape as the real "
        "compiler sets them); text must be valid UTF-8 to survive encoding/json",
    ]
    assumptions = [
        "tag names and doctype values contain no '{{' (the generator uses HTML names)",
        "a block-level unescaped code line that is a bare method call is the unbuffered form `- f(x)` (Code.Buffer is not part of the "
        "modelled AST): pug prints nothing for it",
        "listed deviations (KNOWN_FINDINGS.txt) are reported as KNOWN-FINDING, not judged as violations",
    ]
    not_yet_proved = [
        "the lexer seam segment (show_toks ts) = Some (map seg_of_tok (lexed ts)) is a THEOREM for every compiled program of the domain "
        "node_dom, all node kinds and all expressions (template literals included), production and debug mode "
        "(C06_lexer_seam_partial = C06_compile_wf, by induction over the compiler incl. all of jexpr, followed by C06_lexer_seam_wf, for "
        "all well-formed token lists). node_dom excludes only an element name ending in '{' with attributes (outside the pug grammar) and "
        "a float literal whose text is not a number (artefact of the model's JNumF); for both the statement is false "
        "(C06_lexer_seam_refuted). The two former exclusions were defects of the code and are repaired (F-C06-f buffered string literal "
        "ending in '{', F-C01-h template literal with a double quote in a literal part; C06_lexer_seam_unrepaired_refuted shows the old "
        "arms failing; C06_code_literal: a buffered string literal never makes the compiler decline). Not proved: that the bytes INSIDE "
        "an action parse to the `act` its token carries (Tmpl/Lexer.v models only where an action ends; DESIGN section 8) -- compared "
        "per case through the engine's output and emitted text (lexer_seam_ok)",
        "C06_trim_only_ws at the level of the rendered OUTPUT (render_prod p related to the ideal concatenation by white space at text "
        "edges, through the executor, for all mixed programs): proved are the relation trims_rel for ALL token lists "
        "(C06_lexer_trims_only_ws), the shape theorem that only control actions carry markers for ALL programs (C06_trim_only_ws) and "
        "the exact output for all static trees (C06_static_model_output); the output-level statement for mixed programs is checked by "
        "the oracle (ws_subseq against the independent semantics) on the implementation's own output",
    ]

    # ---------------------------------------------------------------- generation
    def gen_static(self, rng, tier):
        depth = rng.choice([0, 1, 1, 2, 2, 3, 3, 4, 5, 8 if tier != "quick" else 6])
        nodes = static_nodes(rng, depth, rng.choice([1, 2, 2, 3, 4]))
        k = rng.random()
        if k < 0.3:
            nodes.insert(0, ('doctype', rng.choice(DOCTYPES)))
        if rng.random() < 0.03:
            # F-C06-e stays visible: a script element with a line feed in its body
            nodes.append(('tag', b"script", False, [], [], [('text', b"var a = 1;"), ('text', b"\n"), ('text', b"a++;")]))
        elif rng.random() < 0.03:
            nodes.append(('tag', b"script", False, [], [], [('text', rng.choice([b"f({})", b"x = {a: {b: 1}}", b"if (a) { b() }"]))]))
        return {"nodes": ser(nodes), "datas": [ser({})]}

    def gen_mixed(self, rng, tier):
        g = G(rng, max_depth=2)
        data, env = g.data()
        types0 = dict(env.types)
        kinds = {'text': 6, 'buf': 2, 'assign': 1, 'tag': 3, 'void': 1, 'if': 2.5, 'case': 1, 'each': 2, 'while': 0.4}
        depth = rng.choice([1, 1, 2, 2, 3])
        nodes = g.nodes(env, rng.choice([2, 3, 3, 4, 5]), depth, kinds)
        # this property's own neighbours: unbuffered calls, mixins, comments, doctype
        if rng.random() < 0.25:
            for _ in range(rng.choice([1, 1, 2])):
                nodes.insert(rng.randrange(len(nodes) + 1), unbuffered(rng))
        if rng.random() < 0.3:
            nodes.insert(rng.randrange(len(nodes) + 1), ('comment',))
        if rng.random() < 0.3:
            # F-C06-f: buffered string literals (`= "a{"`) are written into the template source as text: ending in {,
            # holding {{ or }}, next to actions and texts (and to each other)
            for _ in range(rng.choice([1, 1, 2, 3])):
                nodes.insert(rng.randrange(len(nodes) + 1), code_literal(rng))
        if rng.random() < 0.25:
            name = rng.choice([b"m1", b"card", b"it"])
            body = [text(rng), ('code', [('expr', ('id', b"a"))], True, True), text(rng)]
            if rng.random() < 0.6:
                body.insert(rng.randrange(len(body) + 1), ('mixinblock',))
            if rng.random() < 0.4:
                body = [('tag', rng.choice(BLOCK_TAGS), False, [], [], body)]
            nodes.insert(0, ('mixin', name, [b"a"], body))
            for _ in range(rng.choice([1, 1, 2])):
                blk = [text(rng)] + ([g.buffered(env)] if rng.random() < 0.4 else []) if rng.random() < 0.6 else []
                call = ('call', name, [g.expr(env, rng.choice(['str', 'num']), 1)], [], blk)
                pos = rng.randrange(1, len(nodes) + 1)
                nodes[pos:pos] = [text(rng), call, text(rng)] if rng.random() < 0.5 else [call]
        if rng.random() < 0.15:
            nodes.insert(0, ('doctype', b"html"))
        datas = [data]
        if rng.random() < 0.3:
            datas.append({k: g.value_of(t) for k, t in types0.items()})
        return {"nodes": ser(nodes), "datas": [ser(d) for d in datas]}

    def generate(self, rng, n, tier):
        cases = []
        for i in range(n):
            cases.append(self.gen_static(rng, tier) if rng.random() < 0.5 else self.gen_mixed(rng, tier))
        return cases

    # ---------------------------------------------------------------- evidence
    def nontrivial(self, case, obs):
        nodes = de(case["nodes"])
        texts = all_texts(nodes, [])
        total = sum(tgen.node_kinds(nodes).values())
        return (total >= 2 and any(b"{" in t or b"}" in t for t in texts)) or tree_depth(nodes) >= 3

    def distribution(self, cases, obss):
        d = CoreProp.distribution(self, cases, obss)
        depth = {}
        static = 0
        brace_texts = 0
        ntexts = 0
        for c in cases:
            nodes = de(c["nodes"])
            k = tree_depth(nodes)
            depth[str(k)] = depth.get(str(k), 0) + 1
            kinds = tgen.node_kinds(nodes)
            if all(x in ('tag', 'text', 'block', 'doctype', 'comment') for x in kinds):
                static += 1
            for t in all_texts(nodes, []):
                ntexts += 1
                if b"{" in t or b"}" in t:
                    brace_texts += 1
        d.update({"tree_depth": depth, "static_cases": static, "mixed_cases": len(cases) - static,
                  "texts": ntexts, "texts_with_braces": brace_texts})
        return d

    def model_expr(self):
        return ("(forallb Spec.HtmlSer.static (nodes_of c), string_of_list_ascii (Spec.HtmlSer.html_ser (nodes_of c)), lexer_seam_ok c, "
                "match Tmpl.Lexer.segment (o_code (c_prod c)) with Some l => Some (map (fun g => match g with Tmpl.Lexer.SText s => (0, string_of_list_ascii s) "
                "| Tmpl.Lexer.SAct l b r => ((if l then 1 else 0) + (if r then 2 else 0) + 10, string_of_list_ascii b) end) l) | None => None end, "
                "match model_toks false c with Some ts => Some (string_of_list_ascii (show_toks ts)) | None => None end, "
                "map (fun d => (match model_out false c d with OOk o => (0, string_of_list_ascii o) | OPanic => (1, EmptyString) "
                "| OUnmod => (3, EmptyString) | OFuel => (4, EmptyString) end, "
                "match spec06 c d with Spec.Sem.SOut o f => (0, string_of_list_ascii o, f) | Spec.Sem.SError f => (1, EmptyString, f) "
                "| Spec.Sem.SOffDomain => (2, EmptyString, []) | Spec.Sem.SNoFuel => (4, EmptyString, []) end)) (c_datas c))")

    # ---------------------------------------------------------------- direct lexer stream
    def extra(self, binary, tmp, tier, rng, ev):
        """template SOURCE TEXT (text pieces, literal actions with and without trim markers, comments, quotes holding
        delimiters, unterminated constructs) through the real lexer/parser/executor; Tmpl/Lexer.v must predict the output"""
        n = 800 if tier == "quick" else 12000
        srcs = [lex_source(rng) for _ in range(n)]
        obss = run_harness(binary, "C06L", [{"src": s.hex()} for s in srcs])
        cls = {"ok": 0, "parse_error": 1}
        terms = [b"{| l_src := " + cq_bytes(s) + b"; l_class := " + cq_nat(cls.get(o["class"], 2)) + b"; l_out := "
                 + cq_bytes(unhx(o.get("out", ""))) + b" |}" for s, o in zip(srcs, obss)]
        codes = judge_in_coq(self.judge_module, terms, tmp, shard=400, judge_fn="judge_lex", tag="L")
        hist = {}
        for c in codes:
            hist[str(c)] = hist.get(str(c), 0) + 1
        ev["coverage"]["lexer_stream"] = {
            "what": "template source text -> pugjs.New(..).Parse + Execute (real lexer) vs Tmpl/Lexer.v segment + literal values",
            "evaluations": n, "agree": hist.get("0", 0), "disagree": hist.get("2", 0), "not_evaluated": hist.get("3", 0),
            "go_classes": {k: sum(1 for o in obss if o["class"] == k) for k in sorted({o["class"] for o in obss})},
            "samples": [srcs[i].decode("utf-8", "replace") for i in range(3)]}
        bad = sorted((len(srcs[i]), i) for i, c in enumerate(codes) if c not in (0, 3))
        if not bad:
            return []
        i = bad[0][1]
        return [{"index": "lexer%d" % i, "case": {"src": srcs[i].hex(), "text": srcs[i].decode("utf-8", "replace")},
                 "observation": obss[i],
                 "what": "Tmpl/Lexer.v (byte-level model of parse/lex.go) and the real lexer disagree on this template source: "
                         "text items / trimming / where an action ends (%d of %d sources disagree)" % (len(bad), n)}]

    # ---------------------------------------------------------------- shrinking
    def shrink(self, case):
        out = list(CoreProp.shrink(self, case))
        nodes = de(case["nodes"])
        for cand in shrink_texts(nodes):
            out.append(dict(case, nodes=ser(cand)))
        return out


LEX_TEXT = [b"a", b" a ", b"  ", b"\n", b"\t x", b" \r\n", b"}}", b"}", b"-", b"- ", b" -", b"{", b"x{", b"<p>", b"</p>", b"\xc3\xa9 ",
            b" \xc2\xa0", b"\x0c ", b'"', b"`", b"'", b"*/", b"/*", b" y\n\n"]
LEX_ACT = [b'{{"x"}}', b'{{- "x" -}}', b'{{- "x"}}', b'{{"x" -}}', b'{{ "a}}b" }}', b'{{`r}}`}}', b'{{/* c */}}', b'{{- /* c */ -}}',
           b'{{/* }} */}}', b'{{- /* {{ */}}', b'{{/* c */ -}}', b'{{"x"  -}}', b'{{ "q\\"}}" }}', b'{{ `a\nb` }}', b'{{-3}}', b'{{ 3 -}}', b'{{- 42 -}}',
           b'{{"{{"}}', b'{{"}}"}}', b'{{"{"}}', b'{{ "" }}', b'{{\t"t"\t}}', b'{{ "x"\t-}}', b'{{- "-}}" -}}', b'{{ ` -}}` -}}',
           b'{{"x"', b'{{/* c', b'{{"a\n"}}', b"{{ 'c' }}", b'{{/* c */ }}', b'{{ "x"\n}}', b'{{`r', b'{{ "\\\\" }}', b'{{-"x"}}', b'{{ "x"-}}']


def lex_source(rng):
    parts = []
    for _ in range(rng.choice([1, 2, 3, 3, 4, 5, 6])):
        if rng.random() < 0.5:
            parts.append(rng.choice(LEX_TEXT))
        else:
            a = rng.choice(LEX_ACT)
            # the erroneous forms rarely, so that most sources reach the executor
            if a in LEX_ACT[25:] and rng.random() < 0.6:
                a = rng.choice(LEX_ACT[:25])
            parts.append(a)
    return b"".join(parts)


def shrink_text(s):
    if len(s) > 1:
        yield s[:len(s) // 2]
        yield s[len(s) // 2:]
        for i in range(min(len(s), 12)):
            yield s[:i] + s[i + 1:]


def shrink_texts(nodes):
    """candidates with one text node shortened, anywhere in the tree"""
    for i, n in enumerate(nodes):
        if n[0] == 'text':
            for t in shrink_text(n[1]):
                yield nodes[:i] + [('text', t)] + nodes[i + 1:]
        elif n[0] == 'tag':
            for b in shrink_texts(n[5]):
                yield nodes[:i] + [n[:5] + (b,)] + nodes[i + 1:]
        elif n[0] == 'block':
            for b in shrink_texts(n[1]):
                yield nodes[:i] + [('block', b)] + nodes[i + 1:]
        elif n[0] == 'cond':
            for b in shrink_texts(n[2]):
                yield nodes[:i] + [(n[0], n[1], b, n[3])] + nodes[i + 1:]
        elif n[0] == 'each':
            for b in shrink_texts(n[4]):
                yield nodes[:i] + [n[:4] + (b,)] + nodes[i + 1:]
        elif n[0] == 'mixin':
            for b in shrink_texts(n[3]):
                yield nodes[:i] + [n[:3] + (b,)] + nodes[i + 1:]
        elif n[0] == 'call':
            for b in shrink_texts(n[4]):
                yield nodes[:i] + [n[:4] + (b,)] + nodes[i + 1:]


PROP = C06()
