# C17 — RenderPartials vs Render of each partial alone.
#
# A case = a template tree with `.partial/` folders, a request list, the request data, the HISTORY of
# the engine that receives the request (`prep`, possibly empty = fresh engine) and its configuration
# (debug mode, rate limit).  The harness computes the reference on a SEPARATE engine: every partial
# name of the universe rendered alone by Engine.Render with its own fresh copy of the data.
#
# What the generator explores (every dimension is drawn independently for each case):
#   * engine history before the judged call: none at all (fresh engine: no LoadTemplates, no Render) |
#     LoadTemplates("") | a page render | a single partial render (existing, mutating or unknown) |
#     an earlier RenderPartials (same request, another request, one that fails) | several of these;
#     about half of the earlier render calls carry OTHER data than the judged call;
#   * partial templates: plain ones that print scalars, READERS of list/object/number fields
#     (length, join, each, member, each-over-keys) and MUTATORS of the data they are given
#     (push, pop, shift, unshift, sort, splice, member assignment, new member, top-level assignment,
#     counter increment, push through an alias) that print the field afterwards;
#   * request lists: empty, single, duplicates, permutations, unknown names, mutators before/after
#     readers of the same field;
#   * data as ordinary Go values: map[string]interface{} with []interface{} / []string lists,
#     map[string]interface{} / map[string]string objects, strings, ints;
#   * configuration of the engine under test: debug mode (templates compiled on demand), rate limit;
#   * WHICH partials exist ("paths" stream, ~40% of the cases): a partial p of T exists iff the file
#     T.partial/p.ast.json is in the generated tree - plain set membership of the literal string
#     T.partial/p.  The request names partials (and/or the template T itself) written with path syntax
#     that merely RESOLVES to some template of the tree when cleaned like a file path: trailing slash,
#     "./" prefix, "/." suffix, "x/../b", doubled slashes, leading slash, "../T" (the page itself),
#     "../T.partial/b" (the same partial the long way round), "../other.partial/z" (a partial of another
#     template), directory names, "", ".", "..", the ".ast.json" suffix, other letter case, another
#     unicode normal form, backslashes - alone, several, and mixed with existing names in any position;
#     the same decorations on the template name T; such names also occur in the engine's history.
#     Trees of this stream also contain partials with odd but REAL names (the empty name = file
#     ".ast.json", "a.ast.json" = file "a.ast.json.ast.json", nested folders), which must be found.
import json
import posixpath
import unicodedata
from common import *

NAMES = ["a", "b", "head", "foot", "nav.item", "x/y", "A", "b b", "é", "a.partial", "0"]
TEMPLATES = ["home", "shop/cart", "p", "deep/er/page"]

LISTS = ["items", "tags"]      # list fields of the data
OBJS = ["cfg", "opts"]         # object fields
SCALARS = ["x", "y"]           # string fields
NUMS = ["n"]                   # number fields
WORDS = ["a", "b", "c", "zz", "M", "<i>", "ü", "", "0", "a b"]
KEYS = ["k", "id", "z"]


# ------------------------------------------------------------------ pug AST pieces

def n_code(val, buffer):
    return {"type": "Code", "val": val, "buffer": buffer, "mustEscape": True, "isInline": buffer}


def n_tag(name, nodes, inline=False):
    return {"type": "Tag", "name": name, "isInline": inline, "attrs": [], "attributeBlocks": [],
            "block": {"type": "Block", "nodes": nodes}}


def n_each(obj, val, nodes, key=None):
    return {"type": "Each", "obj": obj, "val": val, "key": key, "block": {"type": "Block", "nodes": nodes}}


def n_text(s):
    return {"type": "Text", "val": s}


def js_str(s):
    return json.dumps(s, ensure_ascii=False)


def tpl_ast(label, var):
    # <section>LABEL:#{var}</section> with the data field escaped-printed
    return json.dumps({"type": "Block", "nodes": [
        n_tag("section", [n_text(label + ":"), n_code(var, True)])]})


def reader(rng, field):
    """AST nodes that print the field `field` (never change it)"""
    if field in LISTS:
        k = rng.randrange(3)
        if k == 0:
            return [n_tag("span", [n_code(field + ".length", True)], True)]
        if k == 1:
            return [n_tag("p", [n_code(field + ".join(%s)" % js_str(rng.choice([",", "|", ""])), True)])]
        return [n_tag("ul", [n_each(field, "it", [n_tag("li", [n_code("it", True)])])])]
    if field in OBJS:
        if rng.random() < 0.6:
            return [n_tag("b", [n_code(field + "." + rng.choice(KEYS), True)], True)]
        return [n_each(field, "v", [n_tag("i", [n_code("k", True), n_text("="), n_code("v", True)], True)], "k")]
    return [n_tag("em", [n_code(field, True)], True)]


def mutator(rng, field):
    """unbuffered code that changes the data object the template was given"""
    if field in LISTS:
        k = rng.randrange(7)
        w = js_str(rng.choice(WORDS))
        return [[n_code("%s.push(%s)" % (field, w), False)],
                [n_code("%s.unshift(%s)" % (field, w), False)],
                [n_tag("q", [n_code(field + ".pop()", True)], True)],
                [n_tag("q", [n_code(field + ".shift()", True)], True)],
                [n_code(field + ".sort()", False)],
                [n_tag("q", [n_code(field + ".splice(1)", True)], True)],
                [n_code("var l = " + field, False), n_code("l.push(%s)" % w, False)]][k]
    if field in OBJS:
        key = rng.choice(KEYS)
        return [n_code("%s.%s = %s" % (field, key, js_str(rng.choice(WORDS))), False)]
    if field in NUMS:
        return [n_code("%s = %s + %d" % (field, field, rng.randint(1, 9)), False)]
    return [n_code("%s = %s" % (field, js_str(rng.choice(WORDS))), False)]


def gen_partial(rng, label, kind, fields):
    """kind: plain | reader | mutator.  Returns (ast json, reads, writes) over the given data fields."""
    if kind == "plain":
        v = rng.choice(SCALARS)
        return tpl_ast(label, v), {v}, set()
    nodes = [n_text(label + ":")]
    reads, writes = set(), set()
    if kind == "mutator":
        for f in rng.sample(fields, min(len(fields), rng.choice([1, 1, 2]))):
            nodes += mutator(rng, f)
            writes.add(f)
            reads.add(f)
            if rng.random() < 0.8:      # its own output depends on what it changed
                nodes += reader(rng, f)
    for f in rng.sample(fields, min(len(fields), rng.choice([1, 2, 3]) if kind == "reader" else rng.choice([0, 1]))):
        nodes += reader(rng, f)
        reads.add(f)
    return json.dumps({"type": "Block", "nodes": [n_tag("section", nodes)]}), reads, writes


# ------------------------------------------------------------------ data (typed, see harness c17Val)

def d_str(s):
    return {"t": "str", "v": hx(s)}


def gen_data(rng):
    def lst():
        ws = [rng.choice(WORDS) for _ in range(rng.choice([0, 1, 2, 3, 5]))]
        if rng.random() < 0.4:
            return {"t": "strs", "v": [hx(w) for w in ws]}
        return {"t": "arr", "v": [d_str(w) if rng.random() < 0.85 else {"t": "int", "v": rng.randint(-3, 40)}
                                  for w in ws]}

    def obj():
        ks = rng.sample(KEYS, rng.choice([0, 1, 2, 3]))
        if rng.random() < 0.4:
            return {"t": "strmap", "v": [[hx(k), hx(rng.choice(WORDS))] for k in ks]}
        return {"t": "map", "v": [[hx(k), d_str(rng.choice(WORDS)) if rng.random() < 0.8
                                   else {"t": "int", "v": rng.randint(0, 9)}] for k in ks]}
    ents = [[hx("x"), d_str(rng.choice(["v1", "<b>&\"'", "", "ünï"]))], [hx("y"), d_str(rng.choice(["w", "2"]))],
            [hx("n"), {"t": "int", "v": rng.randint(-2, 50)}]]
    for f in LISTS:
        ents.append([hx(f), lst()])
    for f in OBJS:
        ents.append([hx(f), obj()])
    return {"t": "map", "v": ents}


# ------------------------------------------------------------------ names written with path syntax

ODD_REAL_NAMES = ["", "a.ast.json", "x/y/z", "x/y.partial/a", "b/"]   # "b/" = file "b/.ast.json"


def swap_case(s):
    for v in (s.upper(), s.lower(), s.capitalize(), s.swapcase()):
        if v != s:
            return v
    return s + "A"


def other_form(s):
    for f in ("NFD", "NFC"):
        v = unicodedata.normalize(f, s)
        if v != s:
            return v
    return None


def rel_from(folder, target):
    """how `target` (a template name of the tree) is written relative to the folder `folder`"""
    return posixpath.relpath(target, start=folder)


def decorate_partial(rng, t0, name, tree):
    """A request name with path syntax derived from the partial name `name` of the page t0.  Whether the
    result is a partial of t0 is decided later by membership of the literal string in the tree."""
    folder = t0 + ".partial"
    pages = [k for k in tree if ".partial/" not in k]
    foreign = [k for k in tree if ".partial/" in k and not k.startswith(folder + "/")]
    alts = [
        ("trailing-slash", lambda: name + "/"),
        ("dot-slash", lambda: "./" + name),
        ("slash-dot", lambda: name + "/."),
        ("up-and-back", lambda: rng.choice(["x", "nothing", "a", "x/y"]) + "/" +
            "/".join([".."] * rng.choice([1, 1, 2])) + "/" + name),
        ("up-and-back", lambda: "../" + posixpath.basename(folder) + "/" + name),
        ("double-slash", lambda: name.replace("/", "//") if "/" in name and rng.random() < 0.6
            else rng.choice(["/" + name, name + "//", ".//" + name])),
        ("page-itself", lambda: rel_from(folder, t0)),
        ("other-page", lambda: rel_from(folder, rng.choice(pages)) if pages else "../nope"),
        ("foreign-partial", lambda: rel_from(folder, rng.choice(foreign)) if foreign else "../nope.partial/z"),
        ("absolute", lambda: "/" + folder + "/" + name),
        ("ast-suffix", lambda: name + ".ast.json"),
        ("other-case", lambda: swap_case(name)),
        ("other-normal-form", lambda: other_form(name) or swap_case(name)),
        ("directory", lambda: posixpath.dirname(name) + rng.choice(["", "/"]) if "/" in name else rng.choice([".", "..", ""])),
        ("empty-or-dots", lambda: rng.choice(["", ".", "..", "/", "./", "../"])),
        ("inner-dot", lambda: name.replace("/", rng.choice(["/./", "/z/../"]), 1) if "/" in name else "./././" + name),
        ("backslash", lambda: name.replace("/", "\\") if "/" in name else rng.choice([".\\" + name, name + "\\"])),
        ("space-or-newline", lambda: rng.choice([name + " ", " " + name, name + "\n", name + "%2f", "%2e/" + name])),
    ]
    weights = [12, 10, 8, 8, 4, 8, 8, 3, 8, 3, 5, 6, 2, 4, 4, 4, 2, 2]
    kind, f = rng.choices(alts, weights)[0]
    return kind, f()


def decorate_template(rng, t0, tree):
    pages = [k for k in tree if ".partial/" not in k and k != t0]
    d, b = posixpath.dirname(t0), posixpath.basename(t0)
    alts = [
        ("trailing-slash", lambda: t0 + "/"),
        ("dot-slash", lambda: "./" + t0),
        ("slash-dot", lambda: t0 + "/."),
        ("up-and-back", lambda: (lambda o: o + "/.." * (o.count("/") + 1) + "/" + t0)(rng.choice(pages) if pages else "x")),
        ("up-and-back", lambda: (d + "/" if d else "") + "x/../" + b),
        ("double-slash", lambda: t0.replace("/", "//") if "/" in t0 else rng.choice(["/" + t0, ".//" + t0])),
        ("absolute", lambda: "/" + t0),
        ("ast-suffix", lambda: t0 + ".ast.json"),
        ("other-case", lambda: swap_case(t0)),
        ("empty-or-dots", lambda: rng.choice(["", ".", ".."])),
        ("through-partial-folder", lambda: t0 + ".partial/../" + b),
        ("inner-dot", lambda: t0.replace("/", "/./", 1) if "/" in t0 else "./././" + t0),
    ]
    weights = [10, 10, 6, 4, 6, 6, 3, 3, 5, 3, 4, 4]
    kind, f = rng.choices(alts, weights)[0]
    return kind, f()


def resolves(tree, t, p):
    """statistics only: the literal name is no file of the tree, but cleaned like a file path it is one"""
    lit = t + ".partial/" + p
    return lit not in tree and posixpath.normpath(lit).lstrip("/") in tree


# ------------------------------------------------------------------ engine history

HISTORIES = [("fresh", 34), ("load", 18), ("page", 12), ("one", 12), ("partials", 16), ("mixed", 8)]


def gen_prep(rng, t, existing, req, tree=None, treq=None):
    """history of the engine under test.  t = the page of the tree; tree (paths stream only) = names of
    all files: then some earlier calls also carry names written with path syntax; treq = the (possibly
    decorated) template name of the judged call."""
    kind = rng.choices([h for h, _ in HISTORIES], [w for _, w in HISTORIES])[0]

    def odd(base=None):
        return decorate_partial(rng, t, base or rng.choice(existing or NAMES), tree)[1]

    def one():
        r = rng.random()
        if tree is not None and rng.random() < 0.4:
            if rng.random() < 0.3:
                return {"op": "render", "name": hx(decorate_template(rng, t, tree)[1])}
            return {"op": "render", "name": hx(t + ".partial/" + odd())}
        if r < 0.55 and existing:
            return {"op": "render", "name": hx(t + ".partial/" + rng.choice(existing))}
        if r < 0.8:
            return {"op": "render", "name": hx(t + ".partial/nope")}
        return {"op": "render", "name": hx("no/such/page")}

    def partials():
        r = rng.random()
        same = r < 0.35
        if same:
            names = list(req)                                  # the very same request, earlier
        elif r < 0.7 and existing:
            names = [rng.choice(existing) for _ in range(rng.randint(1, 4))]
        else:
            names = [rng.choice(existing + ["nope"]) for _ in range(rng.randint(1, 3))] + ["nope"]
            rng.shuffle(names)
        op = {"op": "partials", "names": [hx(p) for p in names], "t": hx(treq if same and treq is not None else t)}
        if tree is not None and not same and rng.random() < 0.5:
            r = rng.random()
            if r < 0.3:
                op["t"] = hx(treq)
            elif r < 0.5:
                op["t"] = hx(decorate_template(rng, t, tree)[1])
            if r >= 0.3 or treq == t:
                names.insert(rng.randint(0, len(names)), odd())
                op["names"] = [hx(p) for p in names]
        return op
    if kind == "fresh":
        return kind, []
    if kind == "load":
        return kind, [{"op": "load"}]
    if kind == "page":
        return kind, [{"op": "render", "name": hx(t)}]
    if kind == "one":
        return kind, [one()]
    if kind == "partials":
        return kind, [partials()]
    ops = []
    for _ in range(rng.randint(2, 4)):
        ops.append(rng.choice([{"op": "load"}, {"op": "render", "name": hx(t)}, one(), partials()]))
    return kind, ops


def other_data(rng, prep):
    """about half of the earlier render calls belong to another request: they come with other data"""
    for op in prep:
        if op["op"] != "load" and rng.random() < 0.5:
            op["data"] = gen_data(rng)
    return prep


class C17(Prop):
    id = "C17"
    engine = "C17"
    judge_module = "Run.Judge_C17"
    prop_module = "Props.C17"
    prop_file = "Props/C17.v"
    coq_targets = ["Props/C17.vo", "Run/Judge_C17.vo"]
    sizes = {"quick": 400, "thorough": 10000}
    design_ref = "DESIGN.md section 6 C17"
    rule = ("generated template trees with .partial/ folders and request lists (empty, duplicates, unknown names, "
            "permutations) x engine history before the judged RenderPartials call (fresh engine with no "
            "LoadTemplates/Render ~1/3; preloaded; page render; one partial render; earlier RenderPartials incl. "
            "failing ones; mixed; earlier calls with the same or with other data) x partial templates (plain, readers of list/object/number fields, mutators "
            "of the data they are given: push/pop/shift/unshift/sort/splice/member and top-level assignment) x typed "
            "Go data (map[string]interface{}, []interface{}, []string, map[string]string, int, string) x "
            "configuration (debug mode, rate limit 0/1/2). ~40% of the cases are the 'which partials exist' stream: "
            "the request names partials and/or the template T with path syntax that only RESOLVES to a template "
            "of the tree when cleaned like a file path (trailing slash, './' prefix, '/.' suffix, 'x/../b', doubled "
            "and leading slashes, '../T' = the page itself, '../T.partial/b', '../other.partial/z' = partial of "
            "another template, directory names, '', '.', '..', '.ast.json' suffix, other letter case, other unicode "
            "normal form, backslashes, blanks) - alone, several, mixed with existing names at any position, also "
            "in the engine's history - and trees with odd but real partial names (empty name = file '.ast.json', "
            "'a.ast.json', 'b/', nested folders). A partial EXISTS iff the literal string T.partial/p is a file "
            "of the generated tree (the harness reports the files found on disk; they must equal the generated "
            "set): the oracle demands error + nil map as soon as one requested name is not in that set, whatever "
            "Engine.Render says about the name. Reference for contents = every requested/universe name rendered "
            "alone by Engine.Render on a separate preloaded engine with a fresh copy of the data. Non-trivial = at "
            "least two requested names, an unknown one, or a fresh engine; distinct by SHA-1 of the case")
    trusted = ["Engine.Render is a Section variable of C17_keys/_content/_error_atomic/_order_irrelevant/"
               "_history_independent (arbitrary function of the template name); in C17_spec_tree/"
               "_unknown_name_errors/_success_iff_all_exist it is the exact lookup of the name in the set of files "
               "of the tree followed by an arbitrary execution function. The judge instantiates the file set with "
               "the generated tree (= the files the harness found on disk) and the execution with the per-name "
               "results observed on a SEPARATE reference engine (same tree, same debug mode, preloaded), each with "
               "its own freshly built copy of the data",
               "existence of a partial in the oracle is string membership of T.partial/p in the file set, computed "
               "in Coq from the generated tree; it does not consult Engine.Render or the model",
               "the harness builds the data as ordinary Go values anew for every call (reference renders, "
               "history operations, the judged call); equal data means equal value, not the same object"]
    assumptions = ["data is given as ordinary Go values (maps, slices, strings, ints), not as already converted "
                   "pugjs.Object trees: a caller who hands in one shared mutable pugjs.Object shares it by "
                   "construction",
                   "generated partials execute without template errors on the generated data; the template files "
                   "do not change between the calls of one case; one goroutine per engine",
                   "the file tree has clean relative paths only and lives on a case-sensitive file system without "
                   "unicode normalisation (Linux); no symbolic links; request names are valid UTF-8 without NUL",
                   "C17_history_independent assumes that Render's result does not depend on the engine/data state "
                   "left by earlier calls (hypothesis visible in the theorem); the correspondence check tests that "
                   "hypothesis on the real code via the history and mutator dimensions"]
    not_yet_proved = ["that compileDir registers exactly one key per file <name>.ast.json (key = clean relative path) and "
                      "that Engine.Render looks the name up verbatim is modelled (render_lookup) and checked by "
                      "correspondence on the generated trees and names, not derived from the Go source",
                      "that the real Engine.Render is a function of (template tree, name, data value) only is "
                      "observed (separate reference engine, histories, mutating partials), not proved: Render itself "
                      "is a parameter of the C17 theorems",
                      "partials that include/extend other templates or call mixins of other files; concurrent "
                      "RenderPartials calls on one engine (C08/C09 cover concurrency of Render)"]

    def generate(self, rng, n, tier):
        cases = []
        for _ in range(n):
            t0 = rng.choice(TEMPLATES)            # the page whose file is in the tree
            paths = rng.random() < 0.4            # the "which partials exist" stream
            k = rng.choice([0, 1, 2, 3, 4, 6]) if not paths else rng.choice([1, 2, 3, 4])
            existing = rng.sample(NAMES, k)
            if paths and rng.random() < 0.3:
                existing += rng.sample(ODD_REAL_NAMES, rng.choice([1, 1, 2]))
            files = {hx(t0): hx(tpl_ast("main", "x"))}
            # stateful: partials share a few mutable data fields, some partials change them
            stateful = rng.random() < 0.55
            fields = rng.sample(LISTS + OBJS + NUMS + SCALARS, rng.choice([1, 2, 3]))
            info = {}
            for p in existing:
                if stateful:
                    kind = rng.choices(["mutator", "reader", "plain"], [45, 40, 15])[0]
                else:
                    kind = "plain"
                ast, reads, writes = gen_partial(rng, "P[" + p + "]", kind, fields)
                files[hx(t0 + ".partial/" + p)] = hx(ast)
                info[p] = (reads, writes)
            # a sibling template's partials must never leak in
            if rng.random() < (0.5 if not paths else 0.7):
                other = rng.choice([u for u in TEMPLATES if u != t0])
                files[hx(other)] = hx(tpl_ast("other", "x"))
                for p in rng.sample(NAMES, 2):
                    files[hx(other + ".partial/" + p)] = hx(tpl_ast("OTHER[" + p + "]", "x"))
            tree = sorted(unhx(k).decode() for k in files)
            mode = rng.random()
            if mode < 0.12 and not paths:
                req = []
            elif mode < 0.75 and existing:
                req = [rng.choice(existing) for _ in range(rng.randint(1, 6))]
            else:
                pool = existing + [rng.choice(NAMES)] + ["nope"]
                req = [rng.choice(pool) for _ in range(rng.randint(1, 5))]
            # names with path syntax: in the request (alone / several / mixed with existing names at any
            # position), and/or on the template name
            t, syntax = t0, []
            if paths:
                where = rng.choices(["partial", "template", "both", "real"], [62, 18, 8, 12])[0]
                if where == "real":
                    # positive control: odd but REAL names (files of the tree), requested verbatim
                    odd = [p for p in existing if p in ODD_REAL_NAMES]
                    if not odd:
                        odd = [rng.choice(ODD_REAL_NAMES)]
                        ast, reads, writes = gen_partial(rng, "P[" + odd[0] + "]", "plain", fields)
                        files[hx(t0 + ".partial/" + odd[0])] = hx(ast)
                        info[odd[0]] = (reads, writes)
                        existing = existing + odd
                        tree = sorted(unhx(k).decode() for k in files)
                    req = [rng.choice(existing) for _ in range(rng.randint(0, 3))]
                    req.insert(rng.randint(0, len(req)), rng.choice(odd))
                    syntax.append("partial:odd-real-name")
                elif where != "template":
                    r = rng.random()
                    if r < 0.25:
                        req = []                                   # decorated names alone
                    elif r < 0.5 and existing:
                        req = [rng.choice(existing) for _ in range(rng.randint(1, 3))]   # among existing names only
                    for _ in range(rng.choice([1, 1, 1, 2, 3])):
                        base = rng.choice(existing) if existing and rng.random() < 0.85 else rng.choice(NAMES + ["nope"])
                        kind, name = decorate_partial(rng, t0, base, tree)
                        syntax.append("partial:" + kind)
                        req.insert(rng.randint(0, len(req)), name)
                if where in ("template", "both"):
                    kind, t = decorate_template(rng, t0, tree)
                    syntax.append("template:" + kind)
            universe = sorted(set(NAMES + ["nope"] + req))
            hist, prep = gen_prep(rng, t0, existing, req, tree if paths else None, t)
            prep = other_data(rng, prep)
            # mutator requested before a partial that reads what it changed (or requested twice)
            sens = any(info[req[i]][1] & info[req[j]][0]
                       for i in range(len(req)) for j in range(i + 1, len(req))
                       if req[i] in info and req[j] in info)
            cases.append({"files": files, "template": hx(t), "partials": [hx(p) for p in req],
                          "universe": [hx(u) for u in universe], "data": gen_data(rng),
                          "prep": prep, "debug": rng.random() < 0.1, "limit": rng.choice([0, 0, 0, 1, 2]),
                          "meta": {"history": hist, "stateful": stateful, "mutator_before_reader": sens,
                                   "path_syntax": syntax,
                                   "resolves_only": sum(resolves(tree, t, p) for p in set(req))}})
        return cases

    def emit(self, case, obs):
        t = unhx(case["template"])
        table = []
        for a in obs["alone"]:
            r = a["res"]
            val = cq_opt(cq_bytes(unhx(r["out"]))) if r["class"] == "ok" else b"None"
            table.append(cq_pair(cq_bytes(t + b".partial/" + unhx(a["name"])), val))
        # the spec side decides existence by membership in the file tree: what was generated must be
        # exactly what the harness found on disk
        tree = sorted(unhx(k) for k in case["files"])
        if sorted(unhx(k) for k in obs["tree"]) != tree:
            raise RuntimeError("C17: generated file tree and the files on disk differ: %r / %r" % (
                tree, sorted(unhx(k) for k in obs["tree"])))
        if obs["class"] == "ok":
            go = cq_opt(cq_list([cq_pair(cq_bytes(unhx(e["key"])), cq_bytes(unhx(e["out"])))
                                 for e in (obs["entries"] or [])]))
        else:
            go = b"None"
        return (b"{| files := " + cq_list([cq_bytes(k) for k in tree]) + b"; table := " + cq_list(table) + b"; tname := " + cq_bytes(t) +
                b"; req := " + cq_list([cq_bytes(unhx(p)) for p in case["partials"]]) +
                b"; go := " + go + b"; go_nil_on_err := " + cq_bool(obs["nil_map"]) + b" |}")

    def nontrivial(self, case, obs):
        return len(case["partials"]) >= 2 or obs["class"] != "ok" or not case.get("prep")

    def sample(self, case, obs):
        return {"template": unhx(case["template"]).decode(), "files": sorted(unhx(k).decode() for k in case["files"]),
                "request": [unhx(p).decode() for p in case["partials"]],
                "history": [o["op"] for o in case.get("prep", [])], "debug": case.get("debug", False),
                "path_syntax": case.get("meta", {}).get("path_syntax", []),
                "go_class": obs["class"],
                "go_keys": [unhx(e["key"]).decode() for e in (obs["entries"] or [])]}

    def shrink(self, case):
        def w(**kw):
            c = dict(case)
            c.update(kw)
            return c
        prep = case.get("prep", [])
        for i in range(len(prep)):
            yield w(prep=prep[:i] + prep[i + 1:])
        for i in range(len(prep)):
            if "data" in prep[i]:
                yield w(prep=prep[:i] + [{k: v for k, v in prep[i].items() if k != "data"}] + prep[i + 1:])
        if case.get("debug"):
            yield w(debug=False)
        if case.get("limit"):
            yield w(limit=0)
        ps = case["partials"]
        for i in range(len(ps)):
            yield w(partials=ps[:i] + ps[i + 1:])
        for k in list(case["files"]):
            if k != case["template"]:
                yield w(files={a: b for a, b in case["files"].items() if a != k})
        # fewer data fields / shorter lists (a template that needs the field then fails on the reference too,
        # which changes the verdict, so such a step is simply not kept)
        ents = case["data"]["v"]
        for i in range(len(ents)):
            yield w(data={"t": "map", "v": ents[:i] + ents[i + 1:]})
        for i, (k, v) in enumerate(ents):
            if v["t"] in ("arr", "strs", "map", "strmap") and len(v["v"]) > 1:
                for j in range(len(v["v"])):
                    v2 = {"t": v["t"], "v": v["v"][:j] + v["v"][j + 1:]}
                    yield w(data={"t": "map", "v": ents[:i] + [[k, v2]] + ents[i + 1:]})
        # drop single statements of a partial template
        t = unhx(case["template"])
        for k, v in case["files"].items():
            if not unhx(k).startswith(t + b".partial/"):
                continue
            ast = json.loads(unhx(v))
            try:
                nodes = ast["nodes"][0]["block"]["nodes"]
            except (KeyError, IndexError):
                continue
            if len(nodes) <= 1:
                continue
            for i in range(len(nodes)):
                a2 = json.loads(unhx(v))
                del a2["nodes"][0]["block"]["nodes"][i]
                f2 = dict(case["files"])
                f2[k] = hx(json.dumps(a2))
                yield w(files=f2)

    def model_expr(self):
        return "(model17 c, exists17 c)"

    def distribution(self, cases, obss):
        d = {"empty_request": 0, "with_duplicates": 0, "with_unknown": 0, "go_error": 0,
             "fresh_engine": 0, "fresh_engine_all_known_nonempty": 0, "stateful_partials": 0,
             "mutator_before_reader": 0, "debug_engine": 0, "rate_limited": 0, "history": {},
             "path_syntax_cases": 0, "path_syntax_in_request": 0, "path_syntax_on_template": 0,
             "request_with_name_that_only_resolves": 0, "only_resolving_mixed_with_existing": 0,
             "path_syntax_request_succeeds": 0, "path_syntax": {}}
        for c, o in zip(cases, obss):
            ps = c["partials"]
            d["empty_request"] += not ps
            d["with_duplicates"] += len(set(ps)) < len(ps)
            d["go_error"] += o["class"] != "ok"
            unk = any(hx(unhx(c["template"]) + b".partial/" + unhx(p)) not in c["files"] for p in ps)
            d["with_unknown"] += unk
            fresh = not c.get("prep")
            d["fresh_engine"] += fresh
            d["fresh_engine_all_known_nonempty"] += bool(fresh and ps and not unk)
            m = c.get("meta", {})
            d["stateful_partials"] += bool(m.get("stateful"))
            d["mutator_before_reader"] += bool(m.get("mutator_before_reader"))
            d["debug_engine"] += bool(c.get("debug"))
            d["rate_limited"] += bool(c.get("limit"))
            syn = m.get("path_syntax") or []
            d["path_syntax_cases"] += bool(syn)
            d["path_syntax_in_request"] += any(x.startswith("partial:") for x in syn)
            d["path_syntax_on_template"] += any(x.startswith("template:") for x in syn)
            d["request_with_name_that_only_resolves"] += bool(m.get("resolves_only"))
            d["only_resolving_mixed_with_existing"] += bool(m.get("resolves_only")) and any(
                hx(unhx(c["template"]) + b".partial/" + unhx(p)) in c["files"] for p in ps)
            d["path_syntax_request_succeeds"] += bool(syn) and o["class"] == "ok"
            for x in syn:
                d["path_syntax"][x] = d["path_syntax"].get(x, 0) + 1
            h = m.get("history", "corpus")
            d["history"][h] = d["history"].get(h, 0) + 1
        return d


PROP = C17()
