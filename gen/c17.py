# C17 — RenderPartials vs Render of each partial alone.
import json
from common import *

NAMES = ["a", "b", "head", "foot", "nav.item", "x/y", "A", "b b", "é", "a.partial", "0"]
TEMPLATES = ["home", "shop/cart", "p", "deep/er/page"]


def tpl_ast(label, var):
    # <section>LABEL:#{var}</section> with the data field escaped-printed
    return json.dumps({"type": "Block", "nodes": [
        {"type": "Tag", "name": "section", "isInline": False, "attrs": [], "attributeBlocks": [],
         "block": {"type": "Block", "nodes": [
             {"type": "Text", "val": label + ":"},
             {"type": "Code", "val": var, "buffer": True, "mustEscape": True, "isInline": True}]}}]})


class C17(Prop):
    id = "C17"
    engine = "C17"
    judge_module = "Run.Judge_C17"
    prop_module = "Props.C17"
    prop_file = "Props/C17.v"
    coq_targets = ["Props/C17.vo", "Run/Judge_C17.vo"]
    sizes = {"quick": 300, "thorough": 10000}
    design_ref = "DESIGN.md section 6 C17"
    rule = ("generated template trees with .partial/ folders and request lists (empty, duplicates, "
            "unknown names, permutations); non-trivial = at least two requested names or an unknown one; "
            "distinct by SHA-1 of the case")
    trusted = ["Engine.Render is a Section variable of the theorems (arbitrary function); the judge "
               "instantiates it with the per-name results observed on the same engine"]

    def generate(self, rng, n, tier):
        cases = []
        for _ in range(n):
            t = rng.choice(TEMPLATES)
            k = rng.choice([0, 1, 2, 3, 4, 6])
            existing = rng.sample(NAMES, k)
            files = {hx(t): hx(tpl_ast("main", "x"))}
            for p in existing:
                files[hx(t + ".partial/" + p)] = hx(tpl_ast("P[" + p + "]", rng.choice(["x", "y"])))
            # a sibling template's partials must never leak in
            if rng.random() < 0.5:
                other = rng.choice([u for u in TEMPLATES if u != t])
                files[hx(other)] = hx(tpl_ast("other", "x"))
                for p in rng.sample(NAMES, 2):
                    files[hx(other + ".partial/" + p)] = hx(tpl_ast("OTHER[" + p + "]", "x"))
            mode = rng.random()
            if mode < 0.15:
                req = []
            elif mode < 0.7 and existing:
                req = [rng.choice(existing) for _ in range(rng.randint(1, 6))]
            else:
                pool = existing + [rng.choice(NAMES)] + ["nope"]
                req = [rng.choice(pool) for _ in range(rng.randint(1, 5))]
            universe = sorted(set(NAMES + ["nope"]))
            data = {"x": hx(rng.choice(["v1", "<b>&\"'", "", "ünï"])), "y": hx(rng.choice(["w", "2"]))}
            cases.append({"files": files, "template": hx(t), "partials": [hx(p) for p in req],
                          "universe": [hx(u) for u in universe], "data": data})
        return cases

    def emit(self, case, obs):
        t = unhx(case["template"])
        table = []
        for a in obs["alone"]:
            r = a["res"]
            val = cq_opt(cq_bytes(unhx(r["out"]))) if r["class"] == "ok" else b"None"
            table.append(cq_pair(cq_bytes(t + b".partial/" + unhx(a["name"])), val))
        if obs["class"] == "ok":
            go = cq_opt(cq_list([cq_pair(cq_bytes(unhx(e["key"])), cq_bytes(unhx(e["out"])))
                                 for e in (obs["entries"] or [])]))
        else:
            go = b"None"
        return (b"{| table := " + cq_list(table) + b"; tname := " + cq_bytes(t) +
                b"; req := " + cq_list([cq_bytes(unhx(p)) for p in case["partials"]]) +
                b"; go := " + go + b"; go_nil_on_err := " + cq_bool(obs["nil_map"]) + b" |}")

    def nontrivial(self, case, obs):
        return len(case["partials"]) >= 2 or obs["class"] != "ok"

    def sample(self, case, obs):
        return {"template": unhx(case["template"]).decode(), "files": sorted(unhx(k).decode() for k in case["files"]),
                "request": [unhx(p).decode() for p in case["partials"]], "go_class": obs["class"],
                "go_keys": [unhx(e["key"]).decode() for e in (obs["entries"] or [])]}

    def shrink(self, case):
        ps = case["partials"]
        for i in range(len(ps)):
            c = dict(case)
            c["partials"] = ps[:i] + ps[i + 1:]
            yield c
        for k in list(case["files"]):
            if k != case["template"]:
                c = dict(case)
                c["files"] = {a: b for a, b in case["files"].items() if a != k}
                yield c

    def model_expr(self):
        return "render_partials (render_of c) (tname c) (req c)"

    def distribution(self, cases, obss):
        d = {"empty_request": 0, "with_duplicates": 0, "with_unknown": 0, "go_error": 0}
        for c, o in zip(cases, obss):
            ps = c["partials"]
            d["empty_request"] += not ps
            d["with_duplicates"] += len(set(ps)) < len(ps)
            d["go_error"] += o["class"] != "ok"
            d["with_unknown"] += any(hx(unhx(c["template"]) + b".partial/" + unhx(p)) not in c["files"] for p in ps)
        return d


PROP = C17()
