# C17 — RenderPartials vs Render of each partial alone.
#
# A case = a template tree with `.partial/` folders, a request list, the request data, the HISTORY of
# the engine that receives the request (`prep`, possibly empty = fresh engine) and its configuration
# (debug mode, rate limit).  The harness computes the reference on a SEPARATE engine: every partial
# name of the universe rendered alone by Engine.Render with its own fresh copy of the data.
#
# What the generator explores (every dimension is drawn independently for each case):
#   * engine history before the judged call: none at all (fresh engine: no LoadTemplates, no Render) |
#     LoadTemplates("") | a page render | a single partial render (existing, mutating or unknown) |
#     an earlier RenderPartials (same request, another request, one that fails) | several of these;
#     about half of the earlier render calls carry OTHER data than the judged call;
#   * partial templates: plain ones that print scalars, READERS of list/object/number fields
#     (length, join, each, member, each-over-keys) and MUTATORS of the data they are given
#     (push, pop, shift, unshift, sort, splice, member assignment, new member, top-level assignment,
#     counter increment, push through an alias) that print the field afterwards;
#   * request lists: empty, single, duplicates, permutations, unknown names, mutators before/after
#     readers of the same field;
#   * data as ordinary Go values: map[string]interface{} with []interface{} / []string lists,
#     map[string]interface{} / map[string]string objects, strings, ints;
#   * configuration of the engine under test: debug mode (templates compiled on demand), rate limit;
#   * WHICH partials exist ("paths" stream, ~40% of the cases): a partial p of T exists iff the file
#     T.partial/p.ast.json is in the generated tree - plain set membership of the literal string
#     T.partial/p.  The request names partials (and/or the template T itself) written with path syntax
#     that merely RESOLVES to some template of the tree when cleaned like a file path: trailing slash,
#     "./" prefix, "/." suffix, "x/../b", doubled slashes, leading slash, "../T" (the page itself),
#     "../T.partial/b" (the same partial the long way round), "../other.partial/z" (a partial of another
#     template), directory names, "", ".", "..", the ".ast.json" suffix, other letter case, another
#     unicode normal form, backslashes - alone, several, and mixed with existing names in any position;
#     the same decorations on the template name T; such names also occur in the engine's history.
#     Trees of this stream also contain partials with odd but REAL names (the empty name = file
#     ".ast.json", "a.ast.json" = file "a.ast.json.ast.json", nested folders), which must be found.
#   * PROCESS-WIDE STATE of the module's template functions ("funcs" stream, ~27% of the cases): the
#     partials call the REAL functions of /repo/templatefunctions that the module registers (debug, JSON,
#     Math, Object, stripTags, truncate, capitalize, trim, escapeHtml, startsWith, parseInt, parseFloat),
#     with and without their optional arguments (debug(v, false), debug(v, true), stripTags(s, [..])),
#     on ordinary values and on awkward ones: numbers that cannot be JSON-encoded (NaN, +-Inf), a value
#     whose MarshalJSON fails, objects with zero-argument methods (getters, one of which yields NaN for
#     some data), nil pointers, Go funcs, undefined names, null.  Whatever such a call leaves behind in
#     the process shows in a LATER partial of the same request or in the judged call after an earlier
#     request of the history, because the reference renders every name in a process of its own.
#   * LOADS in the engine's history ("reload" histories ~19%, also inside "mixed"): LoadTemplates(f) and
#     the module's DebugController (GET /_pugtpl/debug?tpl=f) with f = the page template itself, one of
#     its partials, the partial folder, a proper prefix of the page name, another template, a name that
#     does not exist, "" - before, between and after renders and partial requests.  About a third of
#     these histories start with the filtered load on an engine that never loaded (the debug controller
#     opened before the first page view): since repair dd313c0 of /repo such a load no longer marks the
#     engine as loaded (F-C17-a, corpus/C17/F-C17-a.json; C17_filtered_first_unrepaired_refuted).
#   * REQUESTS THAT GO AWAY ("gone", ~16% of the cases, drawn independently of everything above): the
#     context of the judged call is cancelled (client disconnected) or its deadline passes - already
#     before the call, or while its k-th partial is being rendered (every partial template of such a
#     case calls the harness function c17tick() first, which ends the context at the chosen partial), or
#     a fixed time after the call began (while it waits for a render slot) - on engines without and with
#     rate limit (1..3), while 0..limit OTHER renders are inside Engine.Render and hold render slots
#     (template c17holder, blocked in c17hold() until the judged call is back): no slot held, some, all.
#     Such a call may be refused (error, nil map) at whatever point the engine notices the context; if it
#     answers without error it must answer completely (every requested key, contents as alone).
import json
import posixpath
import unicodedata
from common import *

NAMES = ["a", "b", "head", "foot", "nav.item", "x/y", "A", "b b", "é", "a.partial", "0"]
TEMPLATES = ["home", "shop/cart", "p", "deep/er/page"]

LISTS = ["items", "tags"]      # list fields of the data
OBJS = ["cfg", "opts"]         # object fields
SCALARS = ["x", "y"]           # string fields
NUMS = ["n"]                   # number fields
WORDS = ["a", "b", "c", "zz", "M", "<i>", "ü", "", "0", "a b"]
KEYS = ["k", "id", "z"]


# ------------------------------------------------------------------ pug AST pieces

def n_code(val, buffer):
    return {"type": "Code", "val": val, "buffer": buffer, "mustEscape": True, "isInline": buffer}


def n_tag(name, nodes, inline=False):
    return {"type": "Tag", "name": name, "isInline": inline, "attrs": [], "attributeBlocks": [],
            "block": {"type": "Block", "nodes": nodes}}


def n_each(obj, val, nodes, key=None):
    return {"type": "Each", "obj": obj, "val": val, "key": key, "block": {"type": "Block", "nodes": nodes}}


def n_text(s):
    return {"type": "Text", "val": s}


def js_str(s):
    return json.dumps(s, ensure_ascii=False)


def tpl_ast(label, var):
    # <section>LABEL:#{var}</section> with the data field escaped-printed
    return json.dumps({"type": "Block", "nodes": [
        n_tag("section", [n_text(label + ":"), n_code(var, True)])]})


def reader(rng, field):
    """AST nodes that print the field `field` (never change it)"""
    if field in LISTS:
        k = rng.randrange(3)
        if k == 0:
            return [n_tag("span", [n_code(field + ".length", True)], True)]
        if k == 1:
            return [n_tag("p", [n_code(field + ".join(%s)" % js_str(rng.choice([",", "|", ""])), True)])]
        return [n_tag("ul", [n_each(field, "it", [n_tag("li", [n_code("it", True)])])])]
    if field in OBJS:
        if rng.random() < 0.6:
            return [n_tag("b", [n_code(field + "." + rng.choice(KEYS), True)], True)]
        return [n_each(field, "v", [n_tag("i", [n_code("k", True), n_text("="), n_code("v", True)], True)], "k")]
    return [n_tag("em", [n_code(field, True)], True)]


def mutator(rng, field):
    """unbuffered code that changes the data object the template was given"""
    if field in LISTS:
        k = rng.randrange(7)
        w = js_str(rng.choice(WORDS))
        return [[n_code("%s.push(%s)" % (field, w), False)],
                [n_code("%s.unshift(%s)" % (field, w), False)],
                [n_tag("q", [n_code(field + ".pop()", True)], True)],
                [n_tag("q", [n_code(field + ".shift()", True)], True)],
                [n_code(field + ".sort()", False)],
                [n_tag("q", [n_code(field + ".splice(1)", True)], True)],
                [n_code("var l = " + field, False), n_code("l.push(%s)" % w, False)]][k]
    if field in OBJS:
        key = rng.choice(KEYS)
        return [n_code("%s.%s = %s" % (field, key, js_str(rng.choice(WORDS))), False)]
    if field in NUMS:
        return [n_code("%s = %s + %d" % (field, field, rng.randint(1, 9)), False)]
    return [n_code("%s = %s" % (field, js_str(rng.choice(WORDS))), False)]


def gen_partial(rng, label, kind, fields):
    """kind: plain | reader | mutator.  Returns (ast json, reads, writes) over the given data fields."""
    if kind == "plain":
        v = rng.choice(SCALARS)
        return tpl_ast(label, v), {v}, set()
    nodes = [n_text(label + ":")]
    reads, writes = set(), set()
    if kind == "mutator":
        for f in rng.sample(fields, min(len(fields), rng.choice([1, 1, 2]))):
            nodes += mutator(rng, f)
            writes.add(f)
            reads.add(f)
            if rng.random() < 0.8:      # its own output depends on what it changed
                nodes += reader(rng, f)
    for f in rng.sample(fields, min(len(fields), rng.choice([1, 2, 3]) if kind == "reader" else rng.choice([0, 1]))):
        nodes += reader(rng, f)
        reads.add(f)
    return json.dumps({"type": "Block", "nodes": [n_tag("section", nodes)]}), reads, writes


# ------------------------------------------------------------------ partials that call template functions

ORDINARY = ["x", "y", "n", "items", "tags", "cfg", "opts", "cust.firstname", "stats.orders",
            "items.length", "'lit'", "3", "{a: 1, b: 'two'}", "[1, 'b']"]
# objects with zero-argument methods (getters) and bound getters themselves: how they are JSON-encoded
# (method called / described) is the module's business
GETTERS = ["cust", "cust", "cust", "{c: cust}", "[cust, 1]", "{c: [cust]}", "cust.displayName"]
# values a function may choke on: not encodable (NaN / Inf for some data, a failing MarshalJSON) ...
UNENCODABLE = ["stats", "stats", "bad", "{b: bad}", "[1, bad]", "[stats.conversion]", "{v: stats}", "stats.conversion"]
# ... nil pointers, Go funcs, undefined names, null
ODD = ["np", "cb", "missing", "null"]
AWKWARD = UNENCODABLE + ODD
STRINGS = ["x", "y", "'<b>t</b><i>u</i> &amp; <script>s</script>'", "cust.firstname", "cust.lastname", "'  pad  '"]
JSON_TEXTS = ['{"k":[1,2],"z":"v"}', '[1,"a",null]', '"s"', '{"k":{"id":7}}']


def fvalue(rng, getters, unenc, odd):
    r = rng.random()
    if r < getters:
        return rng.choice(GETTERS)
    if r < getters + unenc:
        return rng.choice(UNENCODABLE)
    if r < getters + unenc + odd:
        return rng.choice(ODD)
    return rng.choice(ORDINARY)


def fstring(rng):
    r = rng.random()
    if r < 0.08:
        return rng.choice(["missing", "null", "n", "np", "items", "bad"])     # not a string at all
    return rng.choice(STRINGS)


def func_stmt(rng, family=None):
    """one statement calling a real template function; returns (js expression, tags for the statistics).
    family "json": only the functions that JSON-encode their argument (a page of debug / data-island partials)"""
    weights = [38, 20, 4, 10, 12, 9, 7] if family != "json" else [62, 34, 4, 0, 0, 0, 0]
    k = rng.choices(["debug", "stringify", "parse", "strip", "text", "num", "object"], weights)[0]
    if k == "debug":
        v = fvalue(rng, 0.25, 0.3, 0.1) if family != "json" else fvalue(rng, 0.4, 0.42, 0.04)
        opt = rng.choices(["", ", false", ", true"], [32, 50, 18])[0]
        tags = {"debug"}
        if opt:
            tags.add("debug-option")
        if opt == ", false" and v in UNENCODABLE:
            tags.add("option-on-awkward")
        if v in GETTERS:
            tags.add("encodes-getters")
        return "debug(%s%s)" % (v, opt), tags
    if k == "stringify":
        v = fvalue(rng, 0.35, 0.08, 0.1) if family != "json" else fvalue(rng, 0.62, 0.05, 0.06)
        tags = {"stringify"}
        if v in GETTERS:
            tags.add("encodes-getters")
        return "JSON.stringify(%s)" % v, tags
    if k == "parse":
        return "JSON.parse(%s).k" % js_str(rng.choice(JSON_TEXTS)), {"parse"}
    if k == "strip":
        if rng.random() < 0.3:
            return "stripTags(%s, %s)" % (fstring(rng), rng.choice(["['b']", "['i', 'b']", "[]", "null"])), {"stripTags"}
        return "stripTags(%s)" % fstring(rng), {"stripTags"}
    if k == "text":
        f = rng.choice(["truncate(%s, 3)", "capitalize(%s)", "trim(%s)", "escapeHtml(%s)", "startsWith(%s, 'v')"])
        return f % fstring(rng), {"text"}
    if k == "num":
        f = rng.choice(["parseInt(%s)", "parseFloat(%s)", "Math.max(%s, 2)", "Math.min(3, %s)", "Math.ceil(%s)",
                        "Math.round(%s)", "Math.trunc(%s)"])
        return f % rng.choice(["n", "stats.orders", "'12'", "y", "stats.conversion", "missing", "items.length"]), {"num"}
    return rng.choice(["Object.keys(%s)" % rng.choice(["cfg", "opts", "{b: 1, a: 2}", "cust", "missing"]),
                       "Object.assign({}, cfg, opts).k", "Object.assign({k: 'own'}, opts).k"]), {"object"}


def gen_func_partial(rng, label, family=None):
    nodes = [n_text(label + ":")]
    tags = set()
    for _ in range(rng.choice([1, 1, 2, 2, 3] if family != "json" else [1, 1, 1, 2])):
        expr, tg = func_stmt(rng, family)
        tags |= tg
        r = rng.random()
        if r < 0.15:
            nodes.append(n_code("var d = " + expr, False))          # result kept in a variable, printed or not
            if rng.random() < 0.6:
                nodes.append(n_tag("i", [n_code("d", True)], True))
        else:
            c = n_code(expr, True)
            c["mustEscape"] = rng.random() < 0.5
            nodes.append(n_tag(rng.choice(["pre", "span", "script"]), [c], rng.random() < 0.5))
    return json.dumps({"type": "Block", "nodes": [n_tag("section", nodes)]}), tags


def func_data(rng):
    """the extra data fields the function partials use (typed values, see harness c17Val)"""
    def fl():
        return {"t": "float", "v": rng.choice(["nan", "nan", "nan", "inf", "inf", "-inf", "0.25", "1e21"])}
    orders = rng.choice([0, 0, 3, 12])
    visits = rng.choice([0, 4, 7, 40])          # no visits: conversion = orders/0 (Inf) or 0/0 (NaN)
    stats = [[hx("orders"), {"t": "float", "v": str(orders)}], [hx("visits"), {"t": "float", "v": str(visits)}],
             [hx("conversion"), fl()]]
    return [[hx("cust"), {"t": "getter", "v": {"First": hx(rng.choice(["Jane", "<J>", "é"])), "Last": hx(rng.choice(["Doe", ""])),
                                                "Orders": orders, "Visits": visits}}],
            [hx("stats"), {"t": "map", "v": stats}],
            [hx("bad"), {"t": "unenc", "v": "no"}],
            [hx("np"), {"t": "nilptr", "v": None}],
            [hx("cb"), {"t": "fn", "v": None}]]


# ------------------------------------------------------------------ data (typed, see harness c17Val)

def d_str(s):
    return {"t": "str", "v": hx(s)}


def gen_data(rng, funcs=False):
    def lst():
        ws = [rng.choice(WORDS) for _ in range(rng.choice([0, 1, 2, 3, 5]))]
        if rng.random() < 0.4:
            return {"t": "strs", "v": [hx(w) for w in ws]}
        return {"t": "arr", "v": [d_str(w) if rng.random() < 0.85 else {"t": "int", "v": rng.randint(-3, 40)}
                                  for w in ws]}

    def obj():
        ks = rng.sample(KEYS, rng.choice([0, 1, 2, 3]))
        if rng.random() < 0.4:
            return {"t": "strmap", "v": [[hx(k), hx(rng.choice(WORDS))] for k in ks]}
        return {"t": "map", "v": [[hx(k), d_str(rng.choice(WORDS)) if rng.random() < 0.8
                                   else {"t": "int", "v": rng.randint(0, 9)}] for k in ks]}
    ents = [[hx("x"), d_str(rng.choice(["v1", "<b>&\"'", "", "ünï"]))], [hx("y"), d_str(rng.choice(["w", "2"]))],
            [hx("n"), {"t": "int", "v": rng.randint(-2, 50)}]]
    for f in LISTS:
        ents.append([hx(f), lst()])
    for f in OBJS:
        ents.append([hx(f), obj()])
    if funcs:
        ents += func_data(rng)
    return {"t": "map", "v": ents}


# ------------------------------------------------------------------ names written with path syntax

ODD_REAL_NAMES = ["", "a.ast.json", "x/y/z", "x/y.partial/a", "b/"]   # "b/" = file "b/.ast.json"


def swap_case(s):
    for v in (s.upper(), s.lower(), s.capitalize(), s.swapcase()):
        if v != s:
            return v
    return s + "A"


def other_form(s):
    for f in ("NFD", "NFC"):
        v = unicodedata.normalize(f, s)
        if v != s:
            return v
    return None


def rel_from(folder, target):
    """how `target` (a template name of the tree) is written relative to the folder `folder`"""
    return posixpath.relpath(target, start=folder)


def decorate_partial(rng, t0, name, tree):
    """A request name with path syntax derived from the partial name `name` of the page t0.  Whether the
    result is a partial of t0 is decided later by membership of the literal string in the tree."""
    folder = t0 + ".partial"
    pages = [k for k in tree if ".partial/" not in k]
    foreign = [k for k in tree if ".partial/" in k and not k.startswith(folder + "/")]
    alts = [
        ("trailing-slash", lambda: name + "/"),
        ("dot-slash", lambda: "./" + name),
        ("slash-dot", lambda: name + "/."),
        ("up-and-back", lambda: rng.choice(["x", "nothing", "a", "x/y"]) + "/" +
            "/".join([".."] * rng.choice([1, 1, 2])) + "/" + name),
        ("up-and-back", lambda: "../" + posixpath.basename(folder) + "/" + name),
        ("double-slash", lambda: name.replace("/", "//") if "/" in name and rng.random() < 0.6
            else rng.choice(["/" + name, name + "//", ".//" + name])),
        ("page-itself", lambda: rel_from(folder, t0)),
        ("other-page", lambda: rel_from(folder, rng.choice(pages)) if pages else "../nope"),
        ("foreign-partial", lambda: rel_from(folder, rng.choice(foreign)) if foreign else "../nope.partial/z"),
        ("absolute", lambda: "/" + folder + "/" + name),
        ("ast-suffix", lambda: name + ".ast.json"),
        ("other-case", lambda: swap_case(name)),
        ("other-normal-form", lambda: other_form(name) or swap_case(name)),
        ("directory", lambda: posixpath.dirname(name) + rng.choice(["", "/"]) if "/" in name else rng.choice([".", "..", ""])),
        ("empty-or-dots", lambda: rng.choice(["", ".", "..", "/", "./", "../"])),
        ("inner-dot", lambda: name.replace("/", rng.choice(["/./", "/z/../"]), 1) if "/" in name else "./././" + name),
        ("backslash", lambda: name.replace("/", "\\") if "/" in name else rng.choice([".\\" + name, name + "\\"])),
        ("space-or-newline", lambda: rng.choice([name + " ", " " + name, name + "\n", name + "%2f", "%2e/" + name])),
    ]
    weights = [12, 10, 8, 8, 4, 8, 8, 3, 8, 3, 5, 6, 2, 4, 4, 4, 2, 2]
    kind, f = rng.choices(alts, weights)[0]
    return kind, f()


def decorate_template(rng, t0, tree):
    pages = [k for k in tree if ".partial/" not in k and k != t0]
    d, b = posixpath.dirname(t0), posixpath.basename(t0)
    alts = [
        ("trailing-slash", lambda: t0 + "/"),
        ("dot-slash", lambda: "./" + t0),
        ("slash-dot", lambda: t0 + "/."),
        ("up-and-back", lambda: (lambda o: o + "/.." * (o.count("/") + 1) + "/" + t0)(rng.choice(pages) if pages else "x")),
        ("up-and-back", lambda: (d + "/" if d else "") + "x/../" + b),
        ("double-slash", lambda: t0.replace("/", "//") if "/" in t0 else rng.choice(["/" + t0, ".//" + t0])),
        ("absolute", lambda: "/" + t0),
        ("ast-suffix", lambda: t0 + ".ast.json"),
        ("other-case", lambda: swap_case(t0)),
        ("empty-or-dots", lambda: rng.choice(["", ".", ".."])),
        ("through-partial-folder", lambda: t0 + ".partial/../" + b),
        ("inner-dot", lambda: t0.replace("/", "/./", 1) if "/" in t0 else "./././" + t0),
    ]
    weights = [10, 10, 6, 4, 6, 6, 3, 3, 5, 3, 4, 4]
    kind, f = rng.choices(alts, weights)[0]
    return kind, f()


def resolves(tree, t, p):
    """statistics only: the literal name is no file of the tree, but cleaned like a file path it is one"""
    lit = t + ".partial/" + p
    return lit not in tree and posixpath.normpath(lit).lstrip("/") in tree


# ------------------------------------------------------------------ engine history

HISTORIES = [("fresh", 26), ("load", 12), ("page", 9), ("one", 9), ("partials", 13), ("mixed", 9), ("reload", 22)]


def gen_filter(rng, t, existing, names):
    """the filter of a LoadTemplates / the tpl of a debug request; names = all template names of the tree"""
    full = [t + ".partial/" + p for p in existing]
    others = [n for n in names if n != t and not n.startswith(t + ".partial/")]
    alts = [
        ("page", lambda: t),
        ("partial", lambda: rng.choice(full) if full else t + ".partial/nope"),
        ("partial-folder", lambda: t + rng.choice([".partial", ".partial/", ".", ".part"])),
        ("page-prefix", lambda: t[:rng.randint(1, len(t) - 1)] if len(t) > 1 else t),
        ("partial-prefix", lambda: (lambda f: f[:rng.randint(len(t) + 9, len(f))])(rng.choice(full)) if full else t + ".partial/n"),
        ("other-template", lambda: rng.choice(others) if others else "no/such/page"),
        ("nonexistent", lambda: rng.choice(["nope", t + "x", t + ".partial/nope", "zz/" + t])),
        ("decorated", lambda: rng.choice([t + "/", "./" + t, t + ".ast.json", "/" + t])),
        ("everything", lambda: ""),
    ]
    kind, f = rng.choices(alts, [30, 15, 10, 10, 5, 10, 8, 5, 7])[0]
    return kind, f()


def hist_ok(prep):
    """statistics only: False iff the first call that touches the template set is a filtered load"""
    for op in prep:
        if op["op"] in ("load", "debugctl"):
            return not unhx(op.get("filter", ""))
        if op["op"] == "render" or op["names"]:
            return True
    return True


def gen_prep(rng, t, existing, req, tree=None, treq=None, names=(), traffic=False):
    """history of the engine under test.  t = the page of the tree; tree (paths stream only) = names of
    all files: then some earlier calls also carry names written with path syntax; treq = the (possibly
    decorated) template name of the judged call; names = all template names of the tree."""
    kind = rng.choices([h for h, _ in HISTORIES], [w for _, w in HISTORIES])[0]
    if traffic and existing and rng.random() < 0.45:
        kind = "traffic"

    def reload():
        fk, f = gen_filter(rng, t, existing, names)
        return {"op": rng.choices(["load", "debugctl"], [60, 40])[0], "filter": hx(f), "fkind": fk}

    def odd(base=None):
        return decorate_partial(rng, t, base or rng.choice(existing or NAMES), tree)[1]

    def one():
        r = rng.random()
        if tree is not None and rng.random() < 0.4:
            if rng.random() < 0.3:
                return {"op": "render", "name": hx(decorate_template(rng, t, tree)[1])}
            return {"op": "render", "name": hx(t + ".partial/" + odd())}
        if r < 0.55 and existing:
            return {"op": "render", "name": hx(t + ".partial/" + rng.choice(existing))}
        if r < 0.8:
            return {"op": "render", "name": hx(t + ".partial/nope")}
        return {"op": "render", "name": hx("no/such/page")}

    def partials():
        r = rng.random()
        same = r < 0.35
        if same:
            names = list(req)                                  # the very same request, earlier
        elif r < 0.7 and existing:
            names = [rng.choice(existing) for _ in range(rng.randint(1, 4))]
        else:
            names = [rng.choice(existing + ["nope"]) for _ in range(rng.randint(1, 3))] + ["nope"]
            rng.shuffle(names)
        op = {"op": "partials", "names": [hx(p) for p in names], "t": hx(treq if same and treq is not None else t)}
        if tree is not None and not same and rng.random() < 0.5:
            r = rng.random()
            if r < 0.3:
                op["t"] = hx(treq)
            elif r < 0.5:
                op["t"] = hx(decorate_template(rng, t, tree)[1])
            if r >= 0.3 or treq == t:
                names.insert(rng.randint(0, len(names)), odd())
                op["names"] = [hx(p) for p in names]
        return op
    if kind == "fresh":
        return kind, []
    if kind == "load":
        return kind, [{"op": "load"}]
    if kind == "page":
        return kind, [{"op": "render", "name": hx(t)}]
    if kind == "one":
        return kind, [one()]
    if kind == "partials":
        return kind, [partials()]
    if kind == "traffic":
        # a process that has been serving for a while: several earlier requests for partials of the page
        # (each with its own data, see other_data) - whatever one of them left behind is still there
        ops = [{"op": "load"}] if rng.random() < 0.5 else []
        for _ in range(rng.randint(3, 8)):
            if rng.random() < 0.4:
                ops.append({"op": "render", "name": hx(t + ".partial/" + rng.choice(existing))})
            else:
                ops.append({"op": "partials", "t": hx(t),
                            "names": [hx(rng.choice(existing)) for _ in range(rng.randint(1, 3))]})
        return kind, ops
    if kind == "reload":
        # an engine that has everything loaded (start-up preload, a first page view, an earlier partial
        # request) or - one time in three - an engine that has not loaded anything yet; then single
        # templates are (re)loaded - alone, several, with other calls (also a late full load) in between
        ops = [rng.choice([{"op": "load"}, {"op": "load"}, {"op": "render", "name": hx(t)}, partials()])]
        if rng.random() < 0.34:
            ops = []
        for _ in range(rng.choice([1, 1, 2, 3])):
            if rng.random() < 0.3:
                ops.append(rng.choice([one(), partials(), {"op": "render", "name": hx(t)}]))
            ops.append(reload())
        if rng.random() < 0.25:
            ops.append(rng.choice([one(), partials(), {"op": "load"}]))
        return kind, ops
    ops = []
    for _ in range(rng.randint(2, 4)):
        ops.append(rng.choice([{"op": "load"}, {"op": "render", "name": hx(t)}, one(), partials(), reload()]))
    return kind, ops


def other_data(rng, prep, funcs=False):
    """about half of the earlier render calls belong to another request: they come with other data"""
    for op in prep:
        if op["op"] not in ("load", "debugctl") and rng.random() < 0.5:
            op["data"] = gen_data(rng, funcs)
    return prep


class C17(Prop):
    id = "C17"
    engine = "C17"
    judge_module = "Run.Judge_C17"
    prop_module = "Props.C17"
    prop_file = "Props/C17.v"
    coq_targets = ["Props/C17.vo", "Run/Judge_C17.vo"]
    sizes = {"quick": 600, "thorough": 10000}
    design_ref = "DESIGN.md section 6 C17"
    rule = ("generated template trees with .partial/ folders and request lists (empty, duplicates, unknown names, "
            "permutations) x engine history before the judged RenderPartials call (fresh engine with no "
            "LoadTemplates/Render ~1/4; preloaded; page render; one partial render; earlier RenderPartials incl. "
            "failing ones; mixed; 'reload' ~22%: a loaded engine, then LoadTemplates(f) or the module's "
            "DebugController (GET /_pugtpl/debug?tpl=f) with f = the page template itself, one of its partials, the "
            "partial folder, a proper prefix of the page or of a partial name, another template, a name that does "
            "not exist, a decorated name or '' - alone, several, with renders / partial requests in between; in one "
            "third of them the filtered load is the very FIRST call of an engine that never loaded (F-C17-a, repaired "
            "in /repo dd313c0); 'traffic': 3-8 earlier requests for partials of the page; "
            "earlier calls with the same or with other data) x partial templates (plain, readers of "
            "list/object/number fields, mutators of the data they are given: push/pop/shift/unshift/sort/splice/"
            "member and top-level assignment) x typed Go data (map[string]interface{}, []interface{}, []string, "
            "map[string]string, int, string) x configuration (debug mode, rate limit 0/1/2). ~16% of ALL cases (drawn "
            "independently of the streams below) are REQUESTS THAT GO AWAY: the context of the judged call is "
            "cancelled or its deadline passes - before the call (2/7), or while its k-th partial is rendered (k = "
            "0..3; every partial template of such a case first calls the harness function c17tick(), which ends the "
            "context at the chosen partial: the following partials of the request meet a context that is over), or "
            "30 ms after the call began (it then still waits for a render slot) - on engines with rate limit "
            "0/1/1/2/2/3 while 0, limit-1 or limit OTHER renders (template c17holder, blocked inside its function "
            "c17hold() until the judged call is back) are inside Engine.Render on the same engine and hold render "
            "slots; 70% of these requests name 2-5 existing partials. For such a case the oracle accepts exactly two "
            "answers: error with nil map (refused), or the complete answer of a live request (every requested key, "
            "content as rendered alone) - a nil error with fewer keys is a violation; a call that is not back 30 s "
            "after its context ended is class 'hang' (violation). ~30% of the cases are "
            "the 'which partials exist' stream: the request names partials and/or the template T with path syntax "
            "that only RESOLVES to a template of the tree when cleaned like a file path (trailing slash, './' prefix, "
            "'/.' suffix, 'x/../b', doubled and leading slashes, '../T' = the page itself, '../T.partial/b', "
            "'../other.partial/z' = partial of another template, directory names, '', '.', '..', '.ast.json' suffix, "
            "other letter case, other unicode normal form, backslashes, blanks) - alone, several, mixed with existing "
            "names at any position, also in the engine's history - and trees with odd but real partial names (empty "
            "name = file '.ast.json', 'a.ast.json', 'b/', nested folders). ~33% are the 'template functions / "
            "process-wide state' stream: the partials call the REAL functions of /repo/templatefunctions (debug, "
            "JSON.stringify/parse, Math.*, Object.keys/assign, stripTags, truncate, capitalize, trim, escapeHtml, "
            "startsWith, parseInt, parseFloat) with and without their optional arguments (debug(v, false|true), "
            "stripTags(s, tags)) on ordinary values and on awkward ones (NaN/+-Inf numbers, a value whose MarshalJSON "
            "fails, objects with zero-argument methods one of which yields NaN/Inf for customers without visits, nil "
            "pointer, Go func, undefined name, null, non-strings where a string is expected); about half of these "
            "trees are pages whose partials only print debug/JSON output, and about 45% of the histories of this "
            "stream are 'traffic'. A partial EXISTS iff the literal string T.partial/p is a file of the generated "
            "tree (the harness reports the files found on disk; they must equal the generated set): the oracle "
            "demands error + nil map as soon as one requested name is not in that set or fails when rendered alone, "
            "whatever Engine.Render says about the name. Reference for contents = every distinct requested name that "
            "is a file, rendered alone by Engine.Render on a preloaded engine IN AN OPERATING-SYSTEM PROCESS OF ITS "
            "OWN (the harness binary re-executed) with a fresh copy of the data; the engine under test (history + "
            "judged call) also runs in a process of its own, so no package variable, cache or pool is shared between "
            "cases, between reference and test, or between two reference renders. Non-trivial = at least two "
            "requested names, an unknown one, or a fresh engine; distinct by SHA-1 of the case")
    trusted = ["Engine.Render is a Section variable of C17_keys/_content/_error_atomic/_order_irrelevant/"
               "_history_independent (arbitrary function of the template name; in _history_independent also an "
               "arbitrary load function); in C17_spec_tree/_unknown_name_errors/_success_iff_all_exist it is the "
               "exact lookup of the name in the set of files of the tree followed by an arbitrary execution function; "
               "in C17_reloads_harmless/_every_history/_debug_engine it is Models.Partials.render_eng: the engine's "
               "state (templatesLoaded flag, compiled template names), LoadTemplates(filter) = load (prefix rule of "
               "compileDir + keep-what-the-filter-does-not-cover of loadTemplates, only a full load sets the flag, "
               "'again' error of a second full load), load-on-demand of Render in production and in debug mode, "
               "exact lookup, arbitrary execution. "
               "The judge instantiates the file set with the generated tree (= the files the harness found on disk), "
               "the history with the calls the engine under test received, and the execution with the per-name "
               "results observed in SEPARATE reference processes (same tree, same debug mode, preloaded), each with "
               "its own freshly built copy of the data",
               "existence of a partial in the oracle is string membership of T.partial/p in the file set, computed "
               "in Coq from the generated tree; it does not consult Engine.Render or the model",
               "the harness builds the data as ordinary Go values anew for every call (reference renders, "
               "history operations, the judged call); equal data means equal value, not the same object",
               "'rendered on its own' is taken as: rendered by a process that has done nothing but load the templates; "
               "process isolation is the operating system's (os/exec of the harness binary, runner C17one); a child "
               "the Go runtime kills is reported as class 'crash' (= no content)",
               "the DebugController is driven through its exported Get method with a web.Request built by "
               "web.CreateRequest (no router); its panic 'tpl not found' is recovered and ignored",
               "requests that go away: the harness ends the context itself (context.WithCancel / WithDeadline; from "
               "inside the template function c17tick for 'during the k-th partial') and keeps other renders inside "
               "Engine.Render by a template function that blocks (c17hold); the number of holders that really were "
               "inside is reported (held) and enters the model history as renders of c17holder. Where in Render the "
               "context is looked at is NOT assumed: C17_gone_all_or_nothing holds for every state-dependent refusal, "
               "the judge accepts {complete answer, error with nil map} for these cases and nothing else"]
    assumptions = ["data is given as ordinary Go values (maps, slices, strings, numbers, pointers to structs with "
                   "methods, funcs), not as already converted pugjs.Object trees",
                   "the template files do not change between the calls of one case and every file compiles; one "
                   "goroutine per engine (except the holder renders of the 'gone' cases, which do nothing but block inside "
                   "a template function while the judged call runs); a generated partial may fail when executed (JSON.stringify of a value that "
                   "cannot be encoded, a function applied to nil) - then it fails alone as well and the oracle demands "
                   "the error",
                   "every generated history is in the domain, a filtered load as the first call of a production "
                   "engine included: before repair dd313c0 of /repo such a load marked the engine as loaded with the "
                   "filtered templates only (F-C17-a; counter-model load_unrepaired, "
                   "C17_filtered_first_unrepaired_refuted)",
                   "values with reference cycles are not generated: encoding one (debug(o) with o.self = o) exhausts "
                   "the Go stack and kills the process, alone and in a request alike",
                   "the file tree has clean relative paths only and lives on a case-sensitive file system without "
                   "unicode normalisation (Linux); no symbolic links; request names are valid UTF-8 without NUL",
                   "C17_history_independent assumes that Render's result does not depend on the engine/process/data "
                   "state left by earlier calls (hypothesis visible in the theorem); for the engine's template set the "
                   "hypothesis is PROVED of the model for every history (C17_reloads_harmless, C17_every_history, "
                   "C17_debug_engine); for everything else (data objects, process-wide state of template functions) "
                   "the correspondence check tests it on the real code via the history, mutator and function streams"]
    not_yet_proved = ["that compileDir registers exactly one key per file <name>.ast.json (key = clean relative path), "
                      "compiles exactly the files whose name has the filter as prefix, and that Engine.Render looks the "
                      "name up verbatim is modelled (load, render_eng, render_lookup) and checked by correspondence on "
                      "the generated trees, names and histories, not derived from the Go source",
                      "that the real Engine.Render is a function of (template tree, name, data value) only - in "
                      "particular that no template function leaves process-wide state behind - is observed (separate "
                      "reference processes, histories, mutating partials, function partials), not proved: the "
                      "execution of a template is a parameter (exec) of the C17 theorems",
                      "partials that include/extend other templates or call mixins of other files; template functions "
                      "that need the router / injector (asset, url, tryUrl, data, get); concurrent RenderPartials calls "
                      "or loads on one engine (C08/C09/C10 cover concurrency of Render and LoadTemplates); for requests whose "
                      "context ends, WHICH of the two accepted answers comes (Go's select picks at random between a free "
                      "slot and a finished context) is not predicted, and a context that ends while a partial is "
                      "executing is only noticed at the next partial (templates do not watch the context) - modelled as "
                      "'refused or own content' per render (hypothesis of C17_gone_all_or_nothing), observed, not derived"]

    def generate(self, rng, n, tier):
        cases = []
        for _ in range(n):
            t0 = rng.choice(TEMPLATES)            # the page whose file is in the tree
            stream = rng.random()
            paths = stream < 0.30                 # the "which partials exist" stream
            funcs = 0.30 <= stream < 0.63         # the "template functions / process-wide state" stream
            k = rng.choice([0, 1, 2, 3, 4, 6]) if not paths else rng.choice([1, 2, 3, 4])
            if funcs:
                k = rng.choice([2, 3, 3, 4, 5])
            existing = rng.sample(NAMES, k)
            if paths and rng.random() < 0.3:
                existing += rng.sample(ODD_REAL_NAMES, rng.choice([1, 1, 2]))
            files = {hx(t0): hx(tpl_ast("main", "x"))}
            # stateful: partials share a few mutable data fields, some partials change them
            stateful = rng.random() < 0.55
            fields = rng.sample(LISTS + OBJS + NUMS + SCALARS, rng.choice([1, 2, 3]))
            info = {}
            ftags = {}
            family = "json" if funcs and rng.random() < 0.55 else None
            for p in existing:
                if funcs and rng.random() < (0.75 if family is None else 0.9):
                    ast, ftags[p] = gen_func_partial(rng, "P[" + p + "]", family)
                    files[hx(t0 + ".partial/" + p)] = hx(ast)
                    info[p] = (set(), set())
                    continue
                if stateful:
                    kind = rng.choices(["mutator", "reader", "plain"], [45, 40, 15])[0]
                else:
                    kind = "plain"
                ast, reads, writes = gen_partial(rng, "P[" + p + "]", kind, fields)
                files[hx(t0 + ".partial/" + p)] = hx(ast)
                info[p] = (reads, writes)
            # a sibling template's partials must never leak in
            if rng.random() < (0.5 if not paths else 0.7):
                other = rng.choice([u for u in TEMPLATES if u != t0])
                files[hx(other)] = hx(tpl_ast("other", "x"))
                for p in rng.sample(NAMES, 2):
                    files[hx(other + ".partial/" + p)] = hx(tpl_ast("OTHER[" + p + "]", "x"))
            tree = sorted(unhx(k).decode() for k in files)
            mode = rng.random()
            is_gone = rng.random() < 0.16
            if is_gone and existing and rng.random() < 0.7:
                req = [rng.choice(existing) for _ in range(rng.randint(2, 5))]
            elif mode < 0.12 and not paths:
                req = []
            elif mode < 0.75 and existing:
                req = [rng.choice(existing) for _ in range(rng.randint(1, 6))]
            else:
                pool = existing + [rng.choice(NAMES)] + ["nope"]
                req = [rng.choice(pool) for _ in range(rng.randint(1, 5))]
            # names with path syntax: in the request (alone / several / mixed with existing names at any
            # position), and/or on the template name
            t, syntax = t0, []
            if paths:
                where = rng.choices(["partial", "template", "both", "real"], [62, 18, 8, 12])[0]
                if where == "real":
                    # positive control: odd but REAL names (files of the tree), requested verbatim
                    odd = [p for p in existing if p in ODD_REAL_NAMES]
                    if not odd:
                        odd = [rng.choice(ODD_REAL_NAMES)]
                        ast, reads, writes = gen_partial(rng, "P[" + odd[0] + "]", "plain", fields)
                        files[hx(t0 + ".partial/" + odd[0])] = hx(ast)
                        info[odd[0]] = (reads, writes)
                        existing = existing + odd
                        tree = sorted(unhx(k).decode() for k in files)
                    req = [rng.choice(existing) for _ in range(rng.randint(0, 3))]
                    req.insert(rng.randint(0, len(req)), rng.choice(odd))
                    syntax.append("partial:odd-real-name")
                elif where != "template":
                    r = rng.random()
                    if r < 0.25:
                        req = []                                   # decorated names alone
                    elif r < 0.5 and existing:
                        req = [rng.choice(existing) for _ in range(rng.randint(1, 3))]   # among existing names only
                    for _ in range(rng.choice([1, 1, 1, 2, 3])):
                        base = rng.choice(existing) if existing and rng.random() < 0.85 else rng.choice(NAMES + ["nope"])
                        kind, name = decorate_partial(rng, t0, base, tree)
                        syntax.append("partial:" + kind)
                        req.insert(rng.randint(0, len(req)), name)
                if where in ("template", "both"):
                    kind, t = decorate_template(rng, t0, tree)
                    syntax.append("template:" + kind)
            gone = None
            if is_gone:
                limit = rng.choice([0, 1, 1, 2, 2, 3])
                holders = rng.choice([0, 2]) if limit == 0 else rng.choice([0, max(limit - 1, 0), limit, limit])
                gone = {"how": rng.choice(["cancel", "deadline"]), "at": rng.choice([-1, -1, 0, 0, 1, 2, 3]),
                        "holders": holders, "after_ms": 30}
                tick = json.dumps(n_code("c17tick()", True))
                for k in list(files):
                    if unhx(k).decode().startswith(t0 + ".partial/"):
                        ast = unhx(files[k]).decode()
                        assert ast.startswith('{"type": "Block", "nodes": [')
                        files[k] = hx('{"type": "Block", "nodes": [' + tick + ", " + ast[len('{"type": "Block", "nodes": ['):])
                if holders:
                    files[hx("c17holder")] = hx(json.dumps({"type": "Block", "nodes": [n_text("held"), n_code("c17hold()", True)]}))
                tree = sorted(unhx(k).decode() for k in files)
            hist, prep = gen_prep(rng, t0, existing, req, tree if paths else None, t, tree, traffic=funcs)
            prep = other_data(rng, prep, funcs)
            # (statistics) a function called with an explicit option on a value it may fail on, earlier in
            # the request or in the history than a partial that JSON-encodes an object with getters
            seq = []
            for op in prep:
                if op["op"] == "render" and unhx(op["name"]).decode().startswith(t0 + ".partial/"):
                    seq.append(unhx(op["name"]).decode()[len(t0) + 9:])
                elif op["op"] == "partials":
                    seq += [unhx(x).decode() for x in op["names"]]
            seq += req
            fseq = [ftags.get(p, set()) for p in seq]
            opt_then_getters = any("option-on-awkward" in fseq[i] and "encodes-getters" in fseq[j]
                                   for i in range(len(fseq)) for j in range(i + 1, len(fseq)))
            # mutator requested before a partial that reads what it changed (or requested twice)
            sens = any(info[req[i]][1] & info[req[j]][0]
                       for i in range(len(req)) for j in range(i + 1, len(req))
                       if req[i] in info and req[j] in info)
            cases.append({"files": files, "template": hx(t), "partials": [hx(p) for p in req],
                          "data": gen_data(rng, funcs),
                          "prep": prep, "debug": rng.random() < 0.1,
                          "limit": rng.choice([0, 0, 0, 1, 2]) if gone is None else limit, "gone": gone,
                          "meta": {"history": hist, "stateful": stateful, "mutator_before_reader": sens,
                                   "path_syntax": syntax, "funcs": funcs,
                                   "func_partials_requested": sum(1 for p in req if p in ftags),
                                   "func_tags": sorted(set().union(*[ftags.get(p, set()) for p in seq]) if seq else []),
                                   "option_on_awkward_before_getter_encoder": opt_then_getters,
                                   "resolves_only": sum(resolves(tree, t, p) for p in set(req))}})
        return cases

    def emit(self, case, obs):
        t = unhx(case["template"])
        table = []
        for a in obs["alone"]:
            r = a["res"]
            val = cq_opt(cq_bytes(unhx(r["out"]))) if r["class"] == "ok" else b"None"
            table.append(cq_pair(cq_bytes(t + b".partial/" + unhx(a["name"])), val))
        # the spec side decides existence by membership in the file tree: what was generated must be
        # exactly what the harness found on disk
        tree = sorted(unhx(k) for k in case["files"])
        if sorted(unhx(k) for k in obs["tree"]) != tree:
            raise RuntimeError("C17: generated file tree and the files on disk differ: %r / %r" % (
                tree, sorted(unhx(k) for k in obs["tree"])))
        if obs["class"] == "ok":
            go = cq_opt(cq_list([cq_pair(cq_bytes(unhx(e["key"])), cq_bytes(unhx(e["out"])))
                                 for e in (obs["entries"] or [])]))
        else:
            go = b"None"
        hist = []
        for op in case.get("prep", []):
            if op["op"] in ("load", "debugctl"):
                hist.append(b"(CLoad " + cq_bytes(unhx(op.get("filter", ""))) + b")")
            elif op["op"] == "render":
                hist.append(b"(CRender " + cq_bytes(unhx(op["name"])) + b")")
            else:
                hist.append(b"(CPartials " + cq_bytes(unhx(op["t"]) if op.get("t") is not None else t) + b" " +
                            cq_list([cq_bytes(unhx(x)) for x in op["names"]]) + b")")
        g = case.get("gone")
        if g:
            # the other renders are calls the engine under test received before the judged one
            hist += [b"(CRender " + cq_bytes(b"c17holder") + b")"] * min(g["holders"], obs.get("held", 0))
        return (b"{| files := " + cq_list([cq_bytes(k) for k in tree]) + b"; table := " + cq_list(table) + b"; tname := " + cq_bytes(t) +
                b"; req := " + cq_list([cq_bytes(unhx(p)) for p in case["partials"]]) +
                b"; go := " + go + b"; go_nil_on_err := " + cq_bool(obs["nil_map"]) +
                b"; dbg := " + cq_bool(bool(case.get("debug"))) + b"; hist := " + cq_list(hist) +
                b"; gone := " + cq_bool(bool(g)) + b" |}")

    def nontrivial(self, case, obs):
        return len(case["partials"]) >= 2 or obs["class"] != "ok" or not case.get("prep") or bool(case.get("gone"))

    def sample(self, case, obs):
        return {"template": unhx(case["template"]).decode(), "files": sorted(unhx(k).decode() for k in case["files"]),
                "request": [unhx(p).decode() for p in case["partials"]],
                "history": [o["op"] + (":" + unhx(o["filter"]).decode(errors="replace") if "filter" in o else "")
                            for o in case.get("prep", [])], "debug": case.get("debug", False),
                "history_outcomes": obs.get("prep"),
                "alone": {unhx(a["name"]).decode(errors="replace"): a["res"]["class"] for a in obs["alone"]},
                "path_syntax": case.get("meta", {}).get("path_syntax", []),
                "gone": case.get("gone"), "limit": case.get("limit", 0),
                "go_class": obs["class"],
                "go_keys": [unhx(e["key"]).decode() for e in (obs["entries"] or [])]}

    def shrink(self, case):
        def w(**kw):
            c = dict(case)
            c.update(kw)
            return c
        prep = case.get("prep", [])
        for i in range(len(prep)):
            yield w(prep=prep[:i] + prep[i + 1:])
        for i in range(len(prep)):
            if "data" in prep[i]:
                yield w(prep=prep[:i] + [{k: v for k, v in prep[i].items() if k != "data"}] + prep[i + 1:])
        if case.get("debug"):
            yield w(debug=False)
        if case.get("limit") and not (case.get("gone") or {}).get("holders"):
            yield w(limit=0)
        g = case.get("gone")
        if g:
            if g["holders"] and g["holders"] < case.get("limit", 0):
                yield w(gone=dict(g, holders=0))
            if g["at"] > 0:
                yield w(gone=dict(g, at=0))
            if g["how"] != "cancel":
                yield w(gone=dict(g, how="cancel"))
        ps = case["partials"]
        for i in range(len(ps)):
            yield w(partials=ps[:i] + ps[i + 1:])
        for k in list(case["files"]):
            if k != case["template"] and k != hx("c17holder"):
                yield w(files={a: b for a, b in case["files"].items() if a != k})
        # fewer data fields / shorter lists (a template that needs the field then fails on the reference too,
        # which changes the verdict, so such a step is simply not kept)
        ents = case["data"]["v"]
        for i in range(len(ents)):
            yield w(data={"t": "map", "v": ents[:i] + ents[i + 1:]})
        for i, (k, v) in enumerate(ents):
            if v["t"] in ("arr", "strs", "map", "strmap") and len(v["v"]) > 1:
                for j in range(len(v["v"])):
                    v2 = {"t": v["t"], "v": v["v"][:j] + v["v"][j + 1:]}
                    yield w(data={"t": "map", "v": ents[:i] + [[k, v2]] + ents[i + 1:]})
        # drop single statements of a partial template
        t = unhx(case["template"])
        for k, v in case["files"].items():
            if not unhx(k).startswith(t + b".partial/"):
                continue
            ast = json.loads(unhx(v))
            try:
                nodes = ast["nodes"][0]["block"]["nodes"]
            except (KeyError, IndexError):
                continue
            if len(nodes) <= 1:
                continue
            for i in range(len(nodes)):
                a2 = json.loads(unhx(v))
                del a2["nodes"][0]["block"]["nodes"][i]
                f2 = dict(case["files"])
                f2[k] = hx(json.dumps(a2))
                yield w(files=f2)

    def model_expr(self):
        return "(model17 c, exists17 c, state17 c)"

    def distribution(self, cases, obss):
        d = {"empty_request": 0, "with_duplicates": 0, "with_unknown": 0, "go_error": 0,
             "fresh_engine": 0, "fresh_engine_all_known_nonempty": 0, "stateful_partials": 0,
             "mutator_before_reader": 0, "debug_engine": 0, "rate_limited": 0, "history": {},
             "path_syntax_cases": 0, "path_syntax_in_request": 0, "path_syntax_on_template": 0,
             "request_with_name_that_only_resolves": 0, "only_resolving_mixed_with_existing": 0,
             "path_syntax_request_succeeds": 0, "path_syntax": {},
             "funcs_stream_cases": 0, "function_partial_in_request": 0, "function_kinds": {},
             "option_on_awkward_value_before_getter_encoder": 0, "requested_partial_fails_alone": 0,
             "history_with_filtered_load": 0, "history_with_debug_controller": 0, "filter_kinds": {},
             "reload_covering_requested_partials_then_all_exist": 0,
             "filtered_load_first_on_production_engine": 0, "filtered_load_first_then_all_requested_exist": 0, "processes": 0,
             "gone_cases": 0, "gone": {"cancel": 0, "deadline": 0, "over_before_call": 0, "ends_during_a_partial": 0,
                                       "rate_limited": 0, "no_slot_free": 0, "some_slots_held": 0, "no_slot_held": 0,
                                       "all_requested_exist": 0, "refused": 0, "answered_completely": 0,
                                       "refused_although_all_exist_and_render": 0}}
        for c, o in zip(cases, obss):
            ps = c["partials"]
            d["empty_request"] += not ps
            d["with_duplicates"] += len(set(ps)) < len(ps)
            d["go_error"] += o["class"] != "ok"
            unk = any(hx(unhx(c["template"]) + b".partial/" + unhx(p)) not in c["files"] for p in ps)
            d["with_unknown"] += unk
            fresh = not c.get("prep")
            d["fresh_engine"] += fresh
            d["fresh_engine_all_known_nonempty"] += bool(fresh and ps and not unk)
            m = c.get("meta", {})
            d["stateful_partials"] += bool(m.get("stateful"))
            d["mutator_before_reader"] += bool(m.get("mutator_before_reader"))
            d["debug_engine"] += bool(c.get("debug"))
            d["rate_limited"] += bool(c.get("limit"))
            syn = m.get("path_syntax") or []
            d["path_syntax_cases"] += bool(syn)
            d["path_syntax_in_request"] += any(x.startswith("partial:") for x in syn)
            d["path_syntax_on_template"] += any(x.startswith("template:") for x in syn)
            d["request_with_name_that_only_resolves"] += bool(m.get("resolves_only"))
            d["only_resolving_mixed_with_existing"] += bool(m.get("resolves_only")) and any(
                hx(unhx(c["template"]) + b".partial/" + unhx(p)) in c["files"] for p in ps)
            d["path_syntax_request_succeeds"] += bool(syn) and o["class"] == "ok"
            for x in syn:
                d["path_syntax"][x] = d["path_syntax"].get(x, 0) + 1
            d["funcs_stream_cases"] += bool(m.get("funcs"))
            d["function_partial_in_request"] += bool(m.get("func_partials_requested"))
            for x in m.get("func_tags") or []:
                d["function_kinds"][x] = d["function_kinds"].get(x, 0) + 1
            d["option_on_awkward_value_before_getter_encoder"] += bool(m.get("option_on_awkward_before_getter_encoder"))
            d["requested_partial_fails_alone"] += any(
                a["res"]["class"] != "ok" and hx(unhx(c["template"]) + b".partial/" + unhx(a["name"])) in c["files"]
                for a in o["alone"])
            prep = c.get("prep") or []
            flt = [op for op in prep if op["op"] in ("load", "debugctl") and unhx(op.get("filter", ""))]
            d["history_with_filtered_load"] += bool(flt)
            d["history_with_debug_controller"] += any(op["op"] == "debugctl" for op in prep)
            for op in flt:
                fk = op.get("fkind", "corpus")
                d["filter_kinds"][fk] = d["filter_kinds"].get(fk, 0) + 1
            tp = unhx(c["template"]) + b".partial/"
            d["reload_covering_requested_partials_then_all_exist"] += bool(ps) and not unk and not c.get("debug") and any(
                (tp + unhx(p)).startswith(unhx(op["filter"])) and tp + unhx(p) != unhx(op["filter"])
                for op in flt for p in ps)
            ff = (not c.get("debug")) and not hist_ok(prep)
            d["filtered_load_first_on_production_engine"] += ff
            d["filtered_load_first_then_all_requested_exist"] += ff and bool(ps) and not unk
            d["processes"] += o.get("procs", 0)
            g = c.get("gone")
            if g:
                gd = d["gone"]
                d["gone_cases"] += 1
                gd[g["how"]] += 1
                gd["over_before_call"] += g["at"] < 0
                gd["ends_during_a_partial"] += g["at"] >= 0
                lim = c.get("limit", 0)
                gd["rate_limited"] += lim > 0
                gd["no_slot_free"] += lim > 0 and o.get("held", 0) >= lim
                gd["some_slots_held"] += 0 < o.get("held", 0) < lim
                gd["no_slot_held"] += not o.get("held", 0)
                allok = bool(ps) and not unk and all(a["res"]["class"] == "ok" for a in o["alone"])
                gd["all_requested_exist"] += bool(ps) and not unk
                gd["refused"] += o["class"] != "ok"
                gd["answered_completely"] += o["class"] == "ok"
                gd["refused_although_all_exist_and_render"] += allok and o["class"] != "ok"
            h = m.get("history", "corpus")
            d["history"][h] = d["history"].get(h, 0) + 1
        return d


PROP = C17()
