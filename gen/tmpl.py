# Template cases: JS expression ASTs, pug ASTs and data values, each printable
# (a) in the form the real engine consumes (JS source text, pug AST JSON, typed JSON data)
# (b) as Gallina terms for the Coq model.
import json
from common import cq_bytes, cq_list, cq_opt, cq_bool, cq_Z, cq_pair, hx

# ------------------------------------------------------------------ JS expressions
# tuples: ('id',x) ('num',z) ('numf',text) ('str',bytes) ('tpl',[bytes|expr]) ('bool',b) ('null',)
#         ('arr',[e]) ('obj',[(k,e)]) ('dot',e,name) ('idx',e,i) ('call',f,[e]) ('new',f,[e])
#         ('un',op,e) ('bin',op,l,r) ('cond',c,a,b) ('assign',l,r) ('var',x,init|None) ('seq',[e])

BINOPS = {  # op -> (source, precedence, Gallina constructor)
    '+': ('+', 11, 'BAdd'), '-': ('-', 11, 'BSub'), '*': ('*', 12, 'BMul'), '/': ('/', 12, 'BDiv'),
    '%': ('%', 12, 'BMod'), '<': ('<', 9, 'BLt'), '>': ('>', 9, 'BGt'), '<=': ('<=', 9, 'BLe'),
    '>=': ('>=', 9, 'BGe'), '==': ('==', 8, 'BEq'), '===': ('===', 8, 'BSEq'), '!=': ('!=', 8, 'BNe'),
    '!==': ('!==', 8, 'BSNe'), '&&': ('&&', 4, 'BAnd'), '||': ('||', 3, 'BOr'),
    '&': ('&', 7, 'BBitAnd'), '|': ('|', 5, 'BBitOr'), '^': ('^', 6, 'BBitXor'),
    '<<': ('<<', 10, 'BShl'), '>>': ('>>', 10, 'BShr'), '>>>': ('>>>', 10, 'BUShr'),
}
UNOPS = {'!': 'UNot', '-': 'UNeg', '+': 'UPlus', 'typeof': 'UTypeof', '~': 'UBitNot', '++': 'UInc', '--': 'UDec'}


def b(x):
    return x if isinstance(x, bytes) else x.encode('utf-8')


def js_string(s, quote='"'):
    s = b(s)
    out = bytearray(quote.encode())
    for c in s:
        ch = bytes([c])
        if ch == quote.encode() or ch == b'\\':
            out += b'\\' + ch
        elif c == 10:
            out += b'\\n'
        elif c == 13:
            out += b'\\r'
        elif c == 9:
            out += b'\\t'
        elif c < 32 or c == 127:
            out += b'\\x%02x' % c
        else:
            out += ch
    out += quote.encode()
    return bytes(out)


def prec(e):
    k = e[0]
    if k == 'seq':
        return 0
    if k in ('assign', 'var'):
        return 1
    if k == 'cond':
        return 2
    if k == 'bin':
        return BINOPS[e[1]][1]
    if k == 'un':
        return 14
    if k in ('dot', 'idx', 'call', 'new'):
        return 17
    if k == 'num' and e[1] < 0:
        return 14
    return 18


def js_src(e, rng=None, full=False):
    """JS source bytes of expression e with minimal (or full) parentheses; rng adds redundant ones."""
    def par(x, minp):
        s = js_src(x, rng, full)
        need = prec(x) < minp or (full and prec(x) < 18)
        if not need and rng is not None and rng.random() < 0.08:
            need = True
        return b'(' + s + b')' if need else s
    k = e[0]
    if k == 'id':
        return b(e[1])
    if k == 'num':
        return str(e[1]).encode()
    if k == 'numf':
        return b(e[1])
    if k == 'str':
        q = '"' if rng is None or rng.random() < 0.5 else "'"
        return js_string(e[1], q)
    if k == 'tpl':
        # literal parts that a back-tick literal cannot hold as they are (backslash, back-tick, control bytes) make the
        # whole literal a double-quoted string with escapes: the engine interpolates EVERY string literal holding "${"
        if any(isinstance(p, (bytes, str)) and any(c in b'\\`\n\r\t' for c in b(p)) for p in e[1]):
            raw = b''.join(b(p) if isinstance(p, (bytes, str)) else b'${' + js_src(p, rng, full) + b'}' for p in e[1])
            return js_string(raw, '"')
        out = b'`'
        for p in e[1]:
            if isinstance(p, (bytes, str)):
                out += b(p)
            else:
                out += b'${' + js_src(p, rng, full) + b'}'
        return out + b'`'
    if k == 'bool':
        return b'true' if e[1] else b'false'
    if k == 'null':
        return b'null'
    if k == 'arr':
        return b'[' + b', '.join(par(x, 1) for x in e[1]) + b']'
    if k == 'obj':
        return b'{' + b', '.join(b(kk) + b': ' + par(v, 1) for kk, v in e[1]) + b'}'
    if k == 'dot':
        return par(e[1], 17) + b'.' + b(e[2])
    if k == 'idx':
        return par(e[1], 17) + b'[' + js_src(e[2], rng, full) + b']'
    if k == 'call':
        return par(e[1], 17) + b'(' + b', '.join(par(x, 1) for x in e[2]) + b')'
    if k == 'new':
        return b'new ' + par(e[1], 18) + b'(' + b', '.join(par(x, 1) for x in e[2]) + b')'
    if k == 'un':
        op = e[1]
        sp = b' ' if op == 'typeof' else b''
        inner = par(e[2], 14)
        if op in ('-', '+') and inner[:1] == op.encode():
            inner = b' ' + inner
        return op.encode() + sp + inner
    if k == 'bin':
        src, p, _ = BINOPS[e[1]]
        return par(e[2], p) + b' ' + src.encode() + b' ' + par(e[3], p + 1)
    if k == 'cond':
        return par(e[1], 3) + b' ? ' + par(e[2], 1) + b' : ' + par(e[3], 1)
    if k == 'assign':
        return js_src(e[1], rng, full) + b' = ' + par(e[2], 1)
    if k == 'var':
        return b(e[1]) + (b'' if e[2] is None else b' = ' + par(e[2], 1))
    if k == 'seq':
        return b', '.join(par(x, 1) for x in e[1])
    raise ValueError(k)


def js_coq(e):
    k = e[0]
    if k == 'id':
        return b'(JId ' + cq_bytes(e[1]) + b')'
    if k == 'num':
        if e[1] < 0:
            return b'(JUn UNeg false (JNum ' + cq_Z(-e[1]) + b'))'
        return b'(JNum ' + cq_Z(e[1]) + b')'
    if k == 'numf':
        return b'(JNumF ' + cq_bytes(e[1]) + b')'
    if k == 'str':
        return b'(JStr ' + cq_bytes(e[1]) + b')'
    if k == 'tpl':
        return b'(JTpl ' + cq_list([b'(inl ' + cq_bytes(p) + b')' if isinstance(p, (bytes, str))
                                    else b'(inr ' + js_coq(p) + b')' for p in e[1]]) + b')'
    if k == 'bool':
        return b'(JBool ' + cq_bool(e[1]) + b')'
    if k == 'null':
        return b'JNull'
    if k == 'arr':
        return b'(JArr ' + cq_list([js_coq(x) for x in e[1]]) + b')'
    if k == 'obj':
        return b'(JObj ' + cq_list([cq_pair(cq_bytes(kk), js_coq(v)) for kk, v in e[1]]) + b')'
    if k == 'dot':
        return b'(JDot ' + js_coq(e[1]) + b' ' + cq_bytes(e[2]) + b')'
    if k == 'idx':
        return b'(JIdx ' + js_coq(e[1]) + b' ' + js_coq(e[2]) + b')'
    if k == 'call':
        return b'(JCall ' + js_coq(e[1]) + b' ' + cq_list([js_coq(x) for x in e[2]]) + b')'
    if k == 'new':
        return b'(JNew ' + js_coq(e[1]) + b' ' + cq_list([js_coq(x) for x in e[2]]) + b')'
    if k == 'un':
        return b'(JUn ' + UNOPS[e[1]].encode() + b' false ' + js_coq(e[2]) + b')'
    if k == 'bin':
        return b'(JBin ' + BINOPS[e[1]][2].encode() + b' ' + js_coq(e[2]) + b' ' + js_coq(e[3]) + b')'
    if k == 'cond':
        return b'(JCond ' + js_coq(e[1]) + b' ' + js_coq(e[2]) + b' ' + js_coq(e[3]) + b')'
    if k == 'assign':
        return b'(JAssign None ' + js_coq(e[1]) + b' ' + js_coq(e[2]) + b')'
    if k == 'var':
        return b'(JVar ' + cq_bytes(e[1]) + b' ' + cq_opt(None if e[2] is None else js_coq(e[2])) + b')'
    if k == 'seq':
        return b'(JSeq ' + cq_list([js_coq(x) for x in e[1]]) + b')'
    raise ValueError(k)


def js_sexp(e):
    """canonical S-expression (text) compared with the harness's dump of otto's AST"""
    k = e[0]
    if k == 'id':
        return '(id %s)' % b(e[1]).decode('latin1')
    if k == 'num':
        if e[1] < 0:
            return '(un - (num %d))' % -e[1]
        return '(num %d)' % e[1]
    if k == 'numf':
        return '(numf %s)' % b(e[1]).decode()
    if k in ('str',):
        return '(str %s)' % b(e[1]).hex()
    if k == 'tpl':
        raw = b''
        for p in e[1]:
            raw += b(p) if isinstance(p, (bytes, str)) else b'${' + js_src(p) + b'}'
        return '(str %s)' % raw.hex()
    if k == 'bool':
        return '(bool %s)' % ('true' if e[1] else 'false')
    if k == 'null':
        return '(null)'
    if k == 'arr':
        return '(arr %s)' % ' '.join(js_sexp(x) for x in e[1])
    if k == 'obj':
        return '(obj %s)' % ' '.join('(%s %s)' % (b(kk).decode('latin1'), js_sexp(v)) for kk, v in e[1])
    if k == 'dot':
        return '(dot %s %s)' % (js_sexp(e[1]), b(e[2]).decode('latin1'))
    if k == 'idx':
        return '(idx %s %s)' % (js_sexp(e[1]), js_sexp(e[2]))
    if k == 'call':
        return '(call %s %s)' % (js_sexp(e[1]), ' '.join(js_sexp(x) for x in e[2]))
    if k == 'new':
        return '(new %s %s)' % (js_sexp(e[1]), ' '.join(js_sexp(x) for x in e[2]))
    if k == 'un':
        return '(un %s %s)' % (e[1], js_sexp(e[2]))
    if k == 'bin':
        return '(bin %s %s %s)' % (e[1], js_sexp(e[2]), js_sexp(e[3]))
    if k == 'cond':
        return '(cond %s %s %s)' % (js_sexp(e[1]), js_sexp(e[2]), js_sexp(e[3]))
    if k == 'assign':
        return '(assign %s %s)' % (js_sexp(e[1]), js_sexp(e[2]))
    if k == 'var':
        return '(var %s %s)' % (b(e[1]).decode(), '-' if e[2] is None else js_sexp(e[2]))
    if k == 'seq':
        return '(seq %s)' % ' '.join(js_sexp(x) for x in e[1])
    raise ValueError(k)


# statements: ('expr',e) ('vars',[('var',x,init)]) ('if',c,stmt,stmt|None) ('block',[stmt])
def stmt_src(s, rng=None):
    k = s[0]
    if k == 'expr':
        return js_src(s[1], rng)
    if k == 'vars':
        return b'var ' + b', '.join(js_src(d, rng) for d in s[1])
    if k == 'if':
        out = b'if (' + js_src(s[1], rng) + b') ' + stmt_src(s[2], rng)
        if s[3] is not None:
            out += b' else ' + stmt_src(s[3], rng)
        return out
    if k == 'block':
        return b'{ ' + b'; '.join(stmt_src(x, rng) for x in s[1]) + b' }'
    raise ValueError(k)


def stmt_coq(s):
    k = s[0]
    if k == 'expr':
        return b'(SExpr ' + js_coq(s[1]) + b')'
    if k == 'vars':
        return b'(SVar ' + cq_list([js_coq(d) for d in s[1]]) + b')'
    if k == 'if':
        return b'(SIf ' + js_coq(s[1]) + b' ' + stmt_coq(s[2]) + b' ' + cq_opt(None if s[3] is None else stmt_coq(s[3])) + b')'
    if k == 'block':
        return b'(SBlock ' + cq_list([stmt_coq(x) for x in s[1]]) + b')'
    raise ValueError(k)


# ------------------------------------------------------------------ pug nodes
# ('tag',name,inline,[attr],[ablock],[node])   attr = (name, expr, must_escape)
# ('text',bytes) ('code',[stmt],must_escape,inline) ('cond',test,[node],alt|None) alt = ('block',[node]) | ('cond',...)
# ('case',expr,[(expr|None,[node])]) ('each',v,k|None,obj,[node]) ('while',test,[node])
# ('mixin',name,[param],[node]) ('call',name,[arg],[attr],[node]) ('mixinblock',) ('doctype',v) ('block',[node]) ('comment',)

def s_(x):
    return b(x).decode('utf-8', 'surrogateescape')


def pug_json(n, rng=None):
    k = n[0]
    blk = lambda l: {"type": "Block", "nodes": [pug_json(x, rng) for x in l]}
    attrs = lambda l: [{"name": s_(a[0]), "val": s_(js_src(a[1], rng)), "mustEscape": a[2]} for a in l]
    if k == 'tag':
        return {"type": "Tag", "name": s_(n[1]), "isInline": n[2], "selfClosing": False, "attrs": attrs(n[3]),
                "attributeBlocks": [{"type": "AttributeBlock", "val": s_(a)} for a in n[4]], "block": blk(n[5])}
    if k == 'text':
        return {"type": "Text", "val": s_(n[1])}
    if k == 'code':
        return {"type": "Code", "val": s_(b'; '.join(stmt_src(s, rng) for s in n[1])), "buffer": n[2] or len(n[1]) == 1 and n[1][0][0] == 'expr',
                "mustEscape": n[2], "isInline": n[3]}
    if k == 'cond':
        d = {"type": "Conditional", "test": s_(js_src(n[1], rng)), "consequent": blk(n[2]), "alternate": None}
        if n[3] is not None:
            d["alternate"] = pug_json(n[3], rng)
        return d
    if k == 'case':
        return {"type": "Case", "expr": s_(js_src(n[1], rng)), "block": {"type": "Block", "nodes": [
            {"type": "When", "expr": "default" if w is None else s_(js_src(w, rng)), "block": blk(body)}
            for w, body in n[2]]}}
    if k == 'each':
        return {"type": "Each", "obj": s_(js_src(n[3], rng)), "val": s_(n[1]), "key": None if n[2] is None else s_(n[2]),
                "block": blk(n[4])}
    if k == 'while':
        return {"type": "While", "test": s_(js_src(n[1], rng)), "block": blk(n[2])}
    if k == 'mixin':
        return {"type": "Mixin", "name": s_(n[1]), "args": ", ".join(s_(p) for p in n[2]) if n[2] else None, "call": False,
                "attrs": [], "attributeBlocks": [], "block": blk(n[3])}
    if k == 'call':
        return {"type": "Mixin", "name": s_(n[1]), "args": s_(b', '.join(js_src(a, rng) for a in n[2])), "call": True,
                "attrs": attrs(n[3]), "attributeBlocks": [], "block": blk(n[4]) if n[4] else None}
    if k == 'mixinblock':
        return {"type": "MixinBlock"}
    if k == 'doctype':
        return {"type": "Doctype", "val": s_(n[1])}
    if k == 'block':
        return blk(n[1])
    if k == 'comment':
        return {"type": "Comment", "val": "c", "buffer": False}
    raise ValueError(k)


def attr_coq(a):
    return b'{| pa_name := ' + cq_bytes(a[0]) + b'; pa_val := ' + js_coq(a[1]) + b'; pa_esc := ' + cq_bool(a[2]) + b' |}'


def pug_coq(n):
    k = n[0]
    L = lambda l: cq_list([pug_coq(x) for x in l])
    if k == 'tag':
        return (b'(PTag ' + cq_bytes(n[1]) + b' ' + cq_bool(n[2]) + b' ' + cq_list([attr_coq(a) for a in n[3]]) + b' '
                + cq_list([cq_bytes(a) for a in n[4]]) + b' ' + L(n[5]) + b')')
    if k == 'text':
        return b'(PText ' + cq_bytes(n[1]) + b')'
    if k == 'code':
        return b'(PCode ' + cq_list([stmt_coq(s) for s in n[1]]) + b' ' + cq_bool(n[2]) + b' ' + cq_bool(n[3]) + b')'
    if k == 'cond':
        return b'(PCond ' + js_coq(n[1]) + b' ' + L(n[2]) + b' ' + cq_opt(None if n[3] is None else pug_coq(n[3])) + b')'
    if k == 'case':
        return b'(PCase ' + js_coq(n[1]) + b' ' + cq_list([cq_pair(cq_opt(None if w is None else js_coq(w)), L(body))
                                                            for w, body in n[2]]) + b')'
    if k == 'each':
        return (b'(PEach ' + cq_bytes(n[1]) + b' ' + cq_opt(None if n[2] is None else cq_bytes(n[2])) + b' '
                + js_coq(n[3]) + b' ' + L(n[4]) + b')')
    if k == 'while':
        return b'(PWhile ' + js_coq(n[1]) + b' ' + L(n[2]) + b')'
    if k == 'mixin':
        return b'(PMixinDef ' + cq_bytes(n[1]) + b' ' + cq_list([cq_bytes(p) for p in n[2]]) + b' ' + L(n[3]) + b')'
    if k == 'call':
        return (b'(PMixinCall ' + cq_bytes(n[1]) + b' ' + cq_list([js_coq(a) for a in n[2]]) + b' '
                + cq_list([attr_coq(a) for a in n[3]]) + b' ' + L(n[4]) + b')')
    if k == 'mixinblock':
        return b'PMixinBlock'
    if k == 'doctype':
        return b'(PDoctype ' + cq_bytes(n[1]) + b')'
    if k == 'block':
        return b'(PBlock ' + L(n[1]) + b')'
    if k == 'comment':
        return b'PComment'
    raise ValueError(k)


def pug_file(nodes, rng=None):
    """the *.ast.json text of a template whose top-level nodes are `nodes`"""
    return json.dumps({"type": "Block", "nodes": [pug_json(n, rng) for n in nodes]}, ensure_ascii=False).encode('utf-8', 'surrogateescape')


def all_exprs(n, acc):
    """collect every JS expression of a pug tree (for the JS parse seam)"""
    k = n[0]
    if k == 'tag':
        for a in n[3]:
            acc.append(a[1])
        for x in n[5]:
            all_exprs(x, acc)
    elif k == 'cond':
        acc.append(n[1])
        for x in n[2]:
            all_exprs(x, acc)
        if n[3] is not None:
            all_exprs(n[3], acc)
    elif k == 'case':
        acc.append(n[1])
        for w, body in n[2]:
            if w is not None:
                acc.append(w)
            for x in body:
                all_exprs(x, acc)
    elif k == 'each':
        acc.append(n[3])
        for x in n[4]:
            all_exprs(x, acc)
    elif k == 'while':
        acc.append(n[1])
        for x in n[2]:
            all_exprs(x, acc)
    elif k == 'mixin':
        for x in n[3]:
            all_exprs(x, acc)
    elif k == 'call':
        acc.extend(n[2])
        for a in n[3]:
            acc.append(a[1])
        for x in n[4]:
            all_exprs(x, acc)
    elif k == 'block':
        for x in n[1]:
            all_exprs(x, acc)
    elif k == 'code':
        for s in n[1]:
            if s[0] == 'expr':
                acc.append(s[1])
    return acc


# ------------------------------------------------------------------ data values
# Python: None, bool, int (Go int), ('f', int) (Go float64 with integer value), ('fq', num, den) float64 fraction,
#         bytes/str (Go string), list ([]interface{}), dict (map[string]interface{})

def data_go(v):
    if v is None:
        return {"t": "nil"}
    if isinstance(v, bool):
        return {"t": "bool", "v": v}
    if isinstance(v, int):
        return {"t": "int", "v": v}
    if isinstance(v, tuple) and v[0] == 'f':
        return {"t": "float", "v": float(v[1])}
    if isinstance(v, (bytes, str)):
        return {"t": "str", "v": hx(v)}
    if isinstance(v, list):
        return {"t": "arr", "v": [data_go(x) for x in v]}
    if isinstance(v, dict):
        return {"t": "map", "v": [[hx(k), data_go(x)] for k, x in v.items()]}
    raise ValueError(v)


def data_coq(v):
    if v is None:
        return b'DNil'
    if isinstance(v, bool):
        return b'(DBool ' + cq_bool(v) + b')'
    if isinstance(v, int):
        return b'(DInt ' + cq_Z(v) + b')'
    if isinstance(v, tuple) and v[0] == 'f':
        return b'(DInt ' + cq_Z(v[1]) + b')'
    if isinstance(v, (bytes, str)):
        return b'(DStr ' + cq_bytes(v) + b')'
    if isinstance(v, list):
        return b'(DArr ' + cq_list([data_coq(x) for x in v]) + b')'
    if isinstance(v, dict):
        return b'(DMap ' + cq_list([cq_pair(cq_bytes(k), data_coq(x)) for k, x in v.items()]) + b')'
    raise ValueError(v)


def data_plain(v):
    """JSON-printable rendering for evidence samples"""
    if isinstance(v, bytes):
        return v.decode('utf-8', 'replace')
    if isinstance(v, tuple):
        return float(v[1])
    if isinstance(v, list):
        return [data_plain(x) for x in v]
    if isinstance(v, dict):
        return {s_(k): data_plain(x) for k, x in v.items()}
    return v


def tmpl_case(nodes, data, debug=False, rng=None, name="t", extra_files=None):
    files = {hx(name): hx(pug_file(nodes, rng))}
    for k, v in (extra_files or {}).items():
        files[hx(k)] = hx(v)
    return {"files": files, "render": hx(name), "data": data_go(data), "debug": debug}
