# C10 — template loading: generated directory trees, sequential histories of edits / loads / renders
# and schedule-exact concurrent histories (yield points of pugjs.VerifHook) against a real Engine;
# every call's outcome class and every park point judged inside Coq (Run/Judge_C10.v).
import itertools
from common import *

PAGE = "template/page/"
SUFFIX = ".ast.json"
BAD_ERR = ["json", "syntax"]
BAD_PANIC = ["js", "node"]
KINDS_COQ = {"json": b"KBrokenJson", "syntax": b"KTplSyntax", "js": b"KBadJs", "node": b"KUnknownNode",
             "mixin": b"KMixinMissing", "other": b"KBrokenJson"}

# template names (file = PAGE + name + SUFFIX): prefixes of each other, nested dirs, .partial folders,
# a directory whose name carries the suffix, a name that itself ends in the suffix
NAMES = ["a", "ab", "a/b", "a/b/c", "b", "ba", "b/a", "a.partial/x", "a.partial/y/z", "ab.partial/a",
         "c/d/e", "A", "a b", "index", "a.ast.json", "d.ast.json/e", "c/d", "x", "xa", "\xe9",
         "c/d/", "b/", ""]   # files called just ".ast.json": the name ends in "/" (or is empty)
# files that are not templates (below the page directory) and files outside the page directory
NON_TEMPLATES = ["README", "a.json", "a.ast.json.bak", "ast.json", "b.ast.jsonx", "a/.keep", "c/a.ast", "a.AST.JSON",
                 "package-lock.json", "a/b.schema.json", "a.ast.json5", "x.ast_json"]
OUTSIDE = ["template/other.ast.json", "o.ast.json", "template/page2/a.ast.json", "manifest.json", "template/pagex.ast.json"]
# names asked for that are never files
UNKNOWN = ["zz", "a/", "/a", "a/b/", "template/page/a", "../page/a", "a/../a", "other", "../other", "o",
           "a.ast", "a.ast.json.bak", "README", "B", "c", "c/d/", "a.partial", "a.partial/", "ab.partial"]


def cls_of(kind, debug):
    if kind == "tpl":
        return "ok"
    if kind == "mixin":
        return "err" if debug else "ok"
    if kind in BAD_ERR:
        return "err"
    if kind in BAD_PANIC:
        return "panic"
    raise ValueError(kind)


class FS:
    """the directory below basedir as the harness builds it"""

    def __init__(self, case=None):
        self.files = {}      # relative path -> (kind, marker bytes)
        self.dirs = set()    # relative paths of directories below the page directory
        self.page = True
        if case is not None:
            self.page = not case["nopage"]
            for f in case["files"]:
                self.write(unhx(f["p"]).decode("utf-8", "surrogateescape"), f["k"], unhx(f["m"]))

    def copy(self):
        o = FS()
        o.files, o.dirs, o.page = dict(self.files), set(self.dirs), self.page
        return o

    def _parents(self, p):
        parts = p.split("/")
        return ["/".join(parts[:i]) for i in range(1, len(parts))]

    def can_write(self, p):
        if p in self.dirs or p == PAGE[:-1]:
            return False
        return all(d not in self.files for d in self._parents(p))

    def can_mkdir(self, d):
        return d not in self.files and all(x not in self.files for x in self._parents(d))

    def write(self, p, kind, marker):
        assert self.can_write(p), p
        self.files[p] = (kind, marker)
        if p.startswith(PAGE):
            self.page = True
            for d in self._parents(p):
                if d.startswith(PAGE):
                    self.dirs.add(d)

    def mkdir(self, d):
        assert self.can_mkdir(d) and d.startswith(PAGE)
        self.page = True
        self.dirs.add(d)
        for x in self._parents(d):
            if x.startswith(PAGE):
                self.dirs.add(x)

    def apply(self, e):
        p = unhx(e["p"]).decode("utf-8", "surrogateescape") if e.get("p") else None
        if e["a"] == "write":
            self.write(p, e["k"], unhx(e["m"]))
        elif e["a"] == "rm":
            del self.files[p]
        elif e["a"] == "mkdir":
            self.mkdir(p)
        elif e["a"] == "rmpage":
            self.files = {k: v for k, v in self.files.items() if not k.startswith(PAGE)}
            self.dirs = set()
            self.page = False
        elif e["a"] == "mkpage":
            self.page = True
        else:
            raise ValueError(e)

    # ---- what the loader sees
    def templates(self):
        """name -> kind for the template files below the page directory"""
        res = {}
        for p, (k, m) in self.files.items():
            if p.startswith(PAGE) and p.endswith(SUFFIX):
                res[p[len(PAGE):-len(SUFFIX)]] = k
        return res

    def compile_class(self, flt, debug):
        """ok | fail for a load with this filter (which failure class depends on Readdir order)"""
        if not self.page:
            return "fail"
        for n, k in self.templates().items():
            if n.startswith(flt) and cls_of(k, debug) != "ok":
                return "fail"
        return "ok"

    def tree(self):
        """the Gallina term (fstree)"""
        if not self.page:
            return b"None"
        root = {}
        for d in sorted(self.dirs):
            cur = root
            for seg in d[len(PAGE):].split("/"):
                cur = cur.setdefault(seg, {})
        for p, (k, m) in self.files.items():
            if not p.startswith(PAGE):
                continue
            segs = p[len(PAGE):].split("/")
            cur = root
            for seg in segs[:-1]:
                cur = cur.setdefault(seg, {})
            cur[segs[-1]] = (k, m)

        def term(name, v):
            nm = cq_bytes(name.encode("utf-8", "surrogateescape"))
            if isinstance(v, dict):
                return b"(Dir " + nm + b" " + cq_list([term(n, x) for n, x in sorted(v.items())]) + b")"
            k, m = v
            kc = b"(KTpl " + cq_bytes(m) + b")" if k == "tpl" else KINDS_COQ[k]
            return b"(File " + nm + b" " + kc + b")"
        return b"(Some " + cq_list([term(n, x) for n, x in sorted(root.items())]) + b")"


class Mirror:
    """The machine of Models/Loader.v, used only to generate schedules whose steps are enabled
    (it is not trusted: the judge recomputes everything in Coq)."""

    def __init__(self, debug, ops, fs):
        self.debug, self.ops, self.fs = debug, ops, fs
        self.loaded, self.lock = False, None
        self.pc = ["start"] * len(ops)

    def copy(self):
        m = Mirror(self.debug, self.ops, self.fs.copy())
        m.loaded, m.lock, m.pc = self.loaded, self.lock, list(self.pc)
        return m

    def flt(self, i):
        o, n = self.ops[i]
        return n if (o == "load" or self.debug) else ""

    def enabled(self, i):
        pc = self.pc[i]
        if pc == "done":
            return False
        if pc == "locked":
            return True
        if pc == "start" and self.ops[i][0] == "render" and not self.debug:
            return True
        return self.lock is None

    def _enter(self, i, f):
        if self.loaded and f == "":
            self.pc[i] = "done"
        else:
            self.loaded, self.lock, self.pc[i] = True, i, "locked"

    def step(self, i):
        assert self.enabled(i)
        pc, (o, n) = self.pc[i], self.ops[i]
        if pc == "start":
            if o == "render" and not self.debug:
                self.pc[i] = "afterload" if self.loaded else "check"
            else:
                self._enter(i, n)
        elif pc == "check":
            if self.loaded:
                self.pc[i] = "afterload"
            else:
                self._enter(i, "")
        elif pc == "locked":
            self.lock = None
            if self.fs.compile_class(self.flt(i), self.debug) == "ok":
                self.pc[i] = "afterload" if o == "render" else "done"
            else:
                self.loaded = False
                self.pc[i] = "done"
        elif pc == "afterload":
            self.pc[i] = "done"


def hxs(s):
    return hx(s.encode("utf-8", "surrogateescape")) if isinstance(s, str) else hx(s)


def op_json(o):
    return {"o": o[0], "n": hxs(o[1])}


class Builder:
    """builds one case: initial files, ops, schedule; keeps the mirror in step"""

    def __init__(self, rng, debug):
        self.rng, self.debug = rng, debug
        self.fs = FS()
        self.counter = 0
        self.init_files = []
        self.nopage = False
        self.ops = []
        self.sched = []
        self.mirror = None

    def marker(self, name):
        self.counter += 1
        return ("%s#%d" % (name, self.counter)).encode("utf-8", "surrogateescape")

    def add_initial(self, path, kind, marker=b""):
        if not self.fs.can_write(path):
            return False
        self.fs.write(path, kind, marker)
        self.init_files.append({"p": hxs(path), "k": kind, "m": hx(marker)})
        return True

    def add_template(self, name, kind="tpl"):
        return self.add_initial(PAGE + name + SUFFIX, kind, self.marker(name) if kind == "tpl" else b"")

    def start(self, ops):
        self.ops = list(ops)
        self.mirror = Mirror(self.debug, self.ops, self.fs)

    def step(self, i):
        self.mirror.step(i)
        self.sched.append({"t": i})

    def run_to_end(self, i):
        while self.mirror.pc[i] != "done":
            self.step(i)

    def edit(self, eds):
        for e in eds:
            self.fs.apply(e)
        self.sched.append({"e": eds})

    # ---- edit proposals on the current tree
    def ed_write(self, name, kind):
        p = PAGE + name + SUFFIX
        if not self.fs.can_write(p):
            return None
        return {"a": "write", "p": hxs(p), "k": kind, "m": hx(self.marker(name) if kind == "tpl" else b"")}

    def random_edit(self):
        rng = self.rng
        tps = self.fs.templates()
        bad = [n for n, k in tps.items() if k != "tpl"]
        x = rng.random()
        if bad and x < 0.35:                      # repair
            e = self.ed_write(rng.choice(bad), "tpl")
        elif tps and x < 0.55:                    # change content
            e = self.ed_write(rng.choice(sorted(tps)), "tpl")
        elif tps and x < 0.70:                    # break
            e = self.ed_write(rng.choice(sorted(tps)), rng.choice(BAD_ERR + BAD_PANIC + ["mixin"]))
        elif x < 0.82:                            # new template (maybe broken)
            e = self.ed_write(rng.choice(NAMES), "tpl" if rng.random() < 0.8 else rng.choice(BAD_ERR + BAD_PANIC))
        elif tps and x < 0.90:                    # remove
            e = {"a": "rm", "p": hxs(PAGE + rng.choice(sorted(tps)) + SUFFIX)}
        elif x < 0.93:
            e = {"a": "rmpage"}
        elif x < 0.95:
            e = {"a": "mkpage"}
        elif x < 0.97:
            d = PAGE + rng.choice(["e", "a", "c/f", "a.partial", "g.ast.json"])
            e = {"a": "mkdir", "p": hxs(d)} if self.fs.can_mkdir(d) else None
        else:
            p = rng.choice([PAGE + n for n in NON_TEMPLATES] + OUTSIDE)
            e = {"a": "write", "p": hxs(p), "k": "other", "m": hx(b"not a template")} if self.fs.can_write(p) else None
        return [e] if e else []

    def case(self, tag):
        return {"debug": self.debug, "nopage": self.nopage, "files": self.init_files,
                "ops": [op_json(o) for o in self.ops], "sched": self.sched, "tag": tag}


def base_tree(b, rng, scenario):
    """scenario: good | err | panic | preerr | prepanic | mixed"""
    for n in ["a", "ab", "a/b", "b", "a.partial/x", "c/d/e"]:
        b.add_template(n)
    for n in rng.sample(NAMES, rng.randint(0, 4)):
        b.add_template(n)
    for p in rng.sample(NON_TEMPLATES, rng.randint(0, 3)):
        b.add_initial(PAGE + p, "other", b"not a template")
    for p in rng.sample(OUTSIDE, rng.randint(0, 2)):
        b.add_initial(p, "tpl" if p.endswith(SUFFIX) else "other", b"OUTSIDE" if p.endswith(SUFFIX) else b"{}")
    if scenario in ("err", "mixed"):
        b.add_template(rng.choice(["x", "xa", "q/r"]), rng.choice(BAD_ERR))
    if scenario in ("panic", "mixed"):
        b.add_template(rng.choice(["y", "ya", "q/s"]), rng.choice(BAD_PANIC))
    if scenario == "preerr":       # shares a prefix with "a", contains "b"
        b.add_template(rng.choice(["abc", "a/z", "a.partial/bad"]), rng.choice(BAD_ERR))
    if scenario == "prepanic":
        b.add_template(rng.choice(["abc", "a/z", "ba/x"]), rng.choice(BAD_PANIC))
    if scenario == "mixin":
        b.add_template("m", "mixin")


def all_schedules(mirror, tids, limit=400):
    """all maximal interleavings of enabled steps of the given threads"""
    out = []

    def go(m, acc):
        if len(out) >= limit:
            return
        en = [i for i in tids if m.enabled(i)]
        if not en:
            out.append(acc)
            return
        for i in en:
            m2 = m.copy()
            m2.step(i)
            go(m2, acc + [i])
    go(mirror, [])
    return out


PROD_PAIRS = [[("render", "a"), ("render", "b")], [("render", "a"), ("render", "a")],
              [("render", "a"), ("render", "zz")], [("render", "a/b"), ("load", "")],
              [("load", ""), ("load", "")], [("render", "a.partial/x"), ("render", "c/d/e")],
              [("render", "a"), ("load", "a")], [("load", "b"), ("render", "a")]]
DEBUG_PAIRS = [[("render", "a"), ("render", "b")], [("render", "a"), ("render", "ab")],
               [("render", "a/b"), ("render", "a")], [("render", "a"), ("render", "a")],
               [("render", "a"), ("render", "zz")], [("render", "b"), ("load", "")],
               [("render", "b"), ("load", "a")], [("load", "a"), ("load", "b")],
               [("render", "a.partial/x"), ("render", "c/d/e")], [("load", ""), ("load", "")],
               [("render", "c/d/e"), ("load", "c")]]
SCENARIOS = ["good", "err", "panic", "preerr", "prepanic", "mixed", "mixin"]


def enumerated(rng, tier):
    """every interleaving of two calls (quick) / also of three calls (thorough), on a good tree and on
    one tree with a failing file, plain, after a warm-up call, and with an edit at a random position"""
    cases = []
    for debug, pairs in ((False, PROD_PAIRS), (True, DEBUG_PAIRS)):
        for pair in pairs:
            scen = SCENARIOS
            for sc in scen:
                for variant in ("plain", "edit", "warm"):
                    if tier == "quick" and variant == "warm" and sc != "good":
                        continue
                    b0 = Builder(rng, debug)
                    base_tree(b0, rng, sc)
                    ops = list(pair)
                    tids = [0, 1]
                    if variant == "warm":
                        ops = ops + [rng.choice([("load", ""), ("render", "a"), ("render", "b")])]
                    b0.start(ops)
                    if variant == "warm":
                        b0.run_to_end(2)
                    scheds = all_schedules(b0.mirror, tids)
                    if variant == "edit" and tier == "quick":
                        scheds = rng.sample(scheds, min(len(scheds), 4))
                    for sch in scheds:
                        b = Builder(rng, debug)
                        b.fs, b.init_files, b.counter = b0.fs.copy(), list(b0.init_files), b0.counter
                        b.ops, b.sched = list(b0.ops), list(b0.sched)
                        b.mirror = b0.mirror.copy()
                        b.mirror.fs = b.fs
                        if variant == "edit":
                            # the edit changes what later compiles do: re-plan the rest with the mirror
                            k = rng.randrange(len(sch) + 1)
                            for i in sch[:k]:
                                b.step(i)
                            b.edit(b.random_edit())
                            rest = list(sch[k:])
                            while True:
                                en = [i for i in tids if b.mirror.enabled(i)]
                                if not en:
                                    break
                                pick = next((i for i in rest if i in en), en[0])
                                if pick in rest:
                                    rest.remove(pick)
                                b.step(pick)
                        else:
                            for i in sch:
                                b.step(i)
                        cases.append(b.case("enum2-%s-%s-%s" % ("debug" if debug else "prod", sc, variant)))
    if tier != "quick":
        triples = [(False, [("render", "a"), ("render", "b"), ("load", "")]),
                   (False, [("render", "a"), ("render", "a"), ("render", "zz")]),
                   (True, [("render", "a"), ("render", "ab"), ("render", "b")]),
                   (True, [("render", "a/b"), ("render", "a"), ("load", "")])]
        for debug, ops in triples:
            for sc in ("good", "err", "prepanic"):
                b0 = Builder(rng, debug)
                base_tree(b0, rng, sc)
                b0.start(ops)
                scheds = all_schedules(b0.mirror, [0, 1, 2], limit=100000)
                for sch in rng.sample(scheds, min(len(scheds), 700)):
                    b = Builder(rng, debug)
                    b.fs, b.init_files, b.counter = b0.fs.copy(), list(b0.init_files), b0.counter
                    b.ops = list(b0.ops)
                    b.mirror = b0.mirror.copy()
                    b.mirror.fs = b.fs
                    for i in sch:
                        b.step(i)
                    cases.append(b.case("enum3-%s-%s" % ("debug" if debug else "prod", sc)))
    return cases


def random_history(rng, tier, hostile):
    debug = rng.random() < 0.5
    b = Builder(rng, debug)
    # tree
    r = rng.random()
    if r < 0.08:
        b.nopage = True
        b.fs.page = False
    else:
        for n in rng.sample(NAMES, rng.randint(1, 8)):
            k = "tpl"
            x = rng.random()
            if x < 0.10:
                k = rng.choice(BAD_ERR)
            elif x < 0.18:
                k = rng.choice(BAD_PANIC)
            elif x < 0.21:
                k = "mixin"
            b.add_template(n, k)
        for p in rng.sample(NON_TEMPLATES, rng.randint(0, 3)):
            b.add_initial(PAGE + p, "other", b"not a template")
        for p in rng.sample(OUTSIDE, rng.randint(0, 2)):
            b.add_initial(p, "tpl" if p.endswith(SUFFIX) else "other", b"OUTSIDE" if p.endswith(SUFFIX) else b"{}")
    # calls
    ncalls = rng.randint(3, 14 if tier == "quick" else 24)
    ops = []
    for _ in range(ncalls):
        x = rng.random()
        pool = sorted(b.fs.templates()) or ["a"]
        if x < 0.55:
            n = rng.choice(pool)
        elif x < 0.75:
            n = rng.choice(NAMES)
        else:
            n = rng.choice(UNKNOWN)
        y = rng.random()
        if y < 0.70:
            ops.append(("render", n))
        elif y < 0.90 or (not debug and not hostile):
            ops.append(("load", ""))
        else:
            ops.append(("load", rng.choice(["a", "b", "c/", "a.partial/", n])))
    if hostile and debug and rng.random() < 0.3:
        ops[rng.randrange(len(ops))] = ("render", "")
    b.start(ops)
    conc = rng.choice([1, 1, 2, 3])
    nxt, active = 0, []
    pe = rng.choice([0.0, 0.15, 0.35])
    while nxt < len(ops) or active:
        if rng.random() < pe:
            b.edit(b.random_edit())
            continue
        cands = [i for i in active if b.mirror.enabled(i)]
        can_start = nxt < len(ops) and len(active) < conc and b.mirror.enabled(nxt)
        if can_start and (not cands or rng.random() < 0.5):
            i = nxt
            nxt += 1
            active.append(i)
        elif cands:
            i = rng.choice(cands)
        else:   # only happens when the next call would block on the lock: run the holder
            i = b.mirror.lock
        b.step(i)
        if b.mirror.pc[i] == "done":
            active.remove(i)
    return b.case("history-%s-c%d%s" % ("debug" if debug else "prod", conc, "-hostile" if hostile else ""))


def kind_stats(case):
    fs = FS(case)
    ks = {}
    for n, k in fs.templates().items():
        ks[k] = ks.get(k, 0) + 1
    return ks


CLS = {"ok": None, "loaded": b"GR RLoaded", "not_found": b"GR RNotFound", "load_error": b"GR RLoadErr",
       "load_panic": b"GR RLoadPanic", "again": b"GR RAgain", "stuck": b"GStuckR", "unfinished": b"GUnfinished"}
PTS = {"check": b"GCheck", "locked": b"GLocked", "afterload": b"GAfterLoad", "done": b"GDone", "stuck": b"GStuck",
       "noop": b"GNoop", "edit": b"GEdit"}


class C10(Prop):
    id = "C10"
    engine = "C10"
    judge_module = "Run.Judge_C10"
    prop_module = "Props.C10"
    prop_file = "Props/C10.v"
    coq_targets = ["Props/C10.vo", "Run/Judge_C10.vo"]
    sizes = {"quick": 500, "thorough": 20000}
    shard = 120
    design_ref = "DESIGN.md section 6 C10, section 5 (yield points)"
    rule = ("one case = one real Engine (production or debug mode) over a generated directory (template names that are "
            "prefixes of each other, nested directories, .partial folders, a directory named *.ast.json, non-template "
            "files, files outside template/page, broken JSON, template syntax error, malformed JS snippet (panic), "
            "unknown node type (panic), undefined mixin (error in debug mode only), missing page directory) and a "
            "schedule: every Render / LoadTemplates call is a goroutine parked at the yield points of pugjs.VerifHook "
            "and released one step at a time in the order the case says; file edits (change, break, repair, remove, "
            "new, rmdir/mkdir of the page directory) happen between steps. Stream 1: EVERY interleaving of two calls "
            "for 8 production and 11 debug call pairs on seven tree scenarios (all files good; an error file; a panic "
            "file; an error / a panic file sharing a name prefix with the rendered templates; both kinds; an undefined "
            "mixin), plain, with an edit at a random position (4 sampled interleavings, thorough: all), and after a "
            "warm-up call (thorough adds 700 sampled interleavings of three calls for 4 triples x 3 scenarios). Stream 2: random histories of 3..14 (thorough 24) calls, concurrency 1 (sequential), 2 or "
            "3, edits with probability 0/0.15/0.35 per step, 20% hostile (filtered explicit loads in production mode, "
            "render of the empty name). Non-trivial = at least two calls overlapped, or an edit happened, or some call "
            "failed; distinct by SHA-1 of the case")
    trusted = [
        "compiling ONE template file (pug AST -> template text -> parse) is abstracted in the model to its outcome class "
        "(ok with the bytes the template prints / error / panic); which file contents fall in which class is observed "
        "by the correspondence runs on five concrete file kinds, not proved (the pipeline itself is C01-C06)",
        "the atomicity of the model's steps rests on sync.RWMutex and sync/atomic behaving as documented; the harness "
        "observes at which yield point every goroutine parks after every release and the judge compares that trace "
        "with the model's program counters",
        "Readdir order is unknown to the model: the theorems hold for every order (the tree is a list in any order); "
        "the judge does not tell the two failure classes apart on trees holding files of both classes",
        "Engine.TemplateCode (source listing kept across loads), Assetrewrites/manifest.json and the webpack probe are "
        "not modelled",
    ]
    assumptions = [
        "a file system holds at most one entry per path and path segments are clean (dom_fs: distinct template files "
        "have distinct names, no segment is empty, '.', '..' or contains '/')",
        "production mode: explicit LoadTemplates calls with a non-empty filter are outside the domain of the load-once "
        "and cold-start theorems (modelled and compared, but judged off-domain); debug mode: Render of the empty name is "
        "outside the domain (it is a full load and is refused the second time)",
        "a released goroutine that neither parks nor returns within 2 s is reported as stuck (a correct step takes "
        "microseconds to a few milliseconds); unreadable directory entries and symlinks are not generated (the harness "
        "runs as root)",
        "error texts are only mapped to the classes again / not_found / load_error; a panic out of the call is its own class",
    ]
    not_yet_proved = []

    def generate(self, rng, n, tier):
        cases = enumerated(rng, tier)
        for i in range(n):
            cases.append(random_history(rng, tier, hostile=(i % 5 == 4)))
        return cases

    def run(self, binary, cases, tmp, tier):
        # the hook is one global variable per process: cases run one after the other inside a process,
        # several processes side by side
        k = 6
        chunks = [cases[i::k] for i in range(k)]
        with ThreadPoolExecutor(max_workers=k) as ex:
            outs = list(ex.map(lambda ch: run_harness(binary, self.engine, ch) if ch else [], chunks))
        res = [None] * len(cases)
        for j, out in enumerate(outs):
            for idx, o in zip(range(j, len(cases), k), out):
                res[idx] = o
        return res

    # ---- Gallina
    def emit(self, case, obs):
        fs = FS(case)
        ops = []
        for o in case["ops"]:
            ops.append((b"ORender " if o["o"] == "render" else b"OLoad ") + cq_bytes(unhx(o["n"])))
        evs = []
        fs0 = fs.tree()
        for ev in case["sched"]:
            if "t" in ev and ev["t"] is not None:
                evs.append(b"EStep %d" % ev["t"])
            else:
                for e in ev["e"]:
                    fs.apply(e)
                evs.append(b"EFs " + fs.tree())
        res, late = [], False
        for t in (obs["threads"] or []):
            late = late or bool(t.get("late"))
            if t["class"] == "ok":
                res.append(b"GR (ROk " + cq_bytes(unhx(t["out"])) + b")")
            else:
                res.append(CLS.get(t["class"], b"GOtherR"))
        steps = [PTS.get(s, b"GOther") for s in (obs["steps"] or [])]
        return (b"{| c_debug := " + cq_bool(case["debug"]) + b"; c_fs0 := " + fs0 +
                b"; c_ops := " + cq_list(ops) + b"; c_evs := " + cq_list(evs) +
                b"; g_steps := " + cq_list(steps) + b"; g_res := " + cq_list(res) +
                b"; g_late := " + cq_bool(late) + b" |}")

    def _overlap(self, case):
        seen, done_at = {}, {}
        order = [ev["t"] for ev in case["sched"] if ev.get("t") is not None]
        first = {}
        last = {}
        for k, t in enumerate(order):
            first.setdefault(t, k)
            last[t] = k
        ts = sorted(first)
        return any(first[a] < first[b] < last[a] for a in ts for b in ts if a != b)

    def nontrivial(self, case, obs):
        edits = any(ev.get("e") for ev in case["sched"])
        failed = any(t["class"] not in ("ok", "loaded") for t in (obs["threads"] or []))
        return edits or failed or self._overlap(case)

    def sample(self, case, obs):
        def s(h):
            return unhx(h).decode("utf-8", "replace")
        sched = []
        for ev in case["sched"]:
            if ev.get("t") is not None:
                sched.append("t%d" % ev["t"])
            else:
                sched.append("edit(" + ",".join("%s %s%s" % (e["a"], s(e.get("p", "")), (":" + e["k"]) if e.get("k") else "")
                                                for e in ev["e"]) + ")")
        return {"mode": "debug" if case["debug"] else "production", "tag": case.get("tag"),
                "files": sorted("%s:%s" % (s(f["p"]), f["k"]) for f in case["files"]),
                "calls": ["%s(%s)" % (o["o"], s(o["n"])) for o in case["ops"]],
                "schedule": sched, "parked_at": obs["steps"],
                "results": ["%s%s" % (t["class"], (":" + s(t["out"])) if t["class"] == "ok" else "") for t in (obs["threads"] or [])]}

    def shrink(self, case):
        ops, sched = case["ops"], case["sched"]
        # drop one call with all its steps
        for i in range(len(ops)):
            ns = []
            for ev in sched:
                if ev.get("t") is None:
                    ns.append(ev)
                elif ev["t"] != i:
                    ns.append({"t": ev["t"] - (1 if ev["t"] > i else 0)})
            yield dict(case, ops=ops[:i] + ops[i + 1:], sched=ns)
        # drop one edit event
        for k, ev in enumerate(sched):
            if ev.get("t") is None:
                yield dict(case, sched=sched[:k] + sched[k + 1:])
        # drop one initial file (only if no later edit touches a path below it)
        touched = {e.get("p") for ev in sched if ev.get("t") is None for e in ev["e"]}
        for k, f in enumerate(case["files"]):
            if f["p"] not in touched:
                yield dict(case, files=case["files"][:k] + case["files"][k + 1:])

    def model_expr(self):
        return "(model_says c, in_dom10 c, oracle10 c, mixed c)"

    def distribution(self, cases, obss):
        d = {"production": 0, "debug": 0, "streams": {}, "calls": 0, "renders": 0, "loads_full": 0, "loads_filtered": 0,
             "steps": 0, "edit_events": 0, "overlapping": 0, "sequential": 0, "result_classes": {},
             "park_points": {}, "file_kinds": {}, "page_dir_missing_at_start": 0, "stuck_steps": 0, "late_returns": 0,
             "goroutines_left_blocked": 0}
        for c, o in zip(cases, obss):
            d["debug" if c["debug"] else "production"] += 1
            tag = (c.get("tag") or "corpus").split("-")[0]
            d["streams"][tag] = d["streams"].get(tag, 0) + 1
            d["calls"] += len(c["ops"])
            for op in c["ops"]:
                if op["o"] == "render":
                    d["renders"] += 1
                elif op["n"] == "":
                    d["loads_full"] += 1
                else:
                    d["loads_filtered"] += 1
            d["edit_events"] += sum(1 for ev in c["sched"] if ev.get("t") is None)
            d["steps"] += sum(1 for ev in c["sched"] if ev.get("t") is not None)
            if self._overlap(c):
                d["overlapping"] += 1
            else:
                d["sequential"] += 1
            d["page_dir_missing_at_start"] += bool(c["nopage"])
            for k, v in kind_stats(c).items():
                d["file_kinds"][k] = d["file_kinds"].get(k, 0) + v
            for t in (o["threads"] or []):
                d["result_classes"][t["class"]] = d["result_classes"].get(t["class"], 0) + 1
                d["late_returns"] += bool(t.get("late"))
            for s in o["steps"] or []:
                d["park_points"][s] = d["park_points"].get(s, 0) + 1
                d["stuck_steps"] += s == "stuck"
            d["goroutines_left_blocked"] += o.get("leftover", 0)
        return d


PROP = C10()
