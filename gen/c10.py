# C10 — template loading: generated directory trees, sequential histories of edits / loads / renders
# and schedule-exact concurrent histories (yield points of pugjs.VerifHook, FuncProvider calls inside a
# running load, probes of calls that must wait) against a real Engine; file edits under several regimes of
# file identity (size, modification time, inode, renames); every call's outcome class and every park
# point judged inside Coq (Run/Judge_C10.v).
import itertools
from common import *

PAGE = "template/page/"
SUFFIX = ".ast.json"
BAD_ERR = ["json", "syntax"]
BAD_PANIC = ["js", "node"]
KINDS_COQ = {"json": b"KBrokenJson", "syntax": b"KTplSyntax", "js": b"KBadJs", "node": b"KUnknownNode",
             "mixin": b"KMixinMissing", "other": b"KBrokenJson"}

# template names (file = PAGE + name + SUFFIX): prefixes of each other, nested dirs, .partial folders,
# a directory whose name carries the suffix, a name that itself ends in the suffix
NAMES = ["a", "ab", "a/b", "a/b/c", "b", "ba", "b/a", "a.partial/x", "a.partial/y/z", "ab.partial/a",
         "c/d/e", "A", "a b", "index", "a.ast.json", "d.ast.json/e", "c/d", "x", "xa", "\xe9",
         "c/d/", "b/", ""]   # files called just ".ast.json": the name ends in "/" (or is empty)
# files that are not templates (below the page directory) and files outside the page directory
NON_TEMPLATES = ["README", "a.json", "a.ast.json.bak", "ast.json", "b.ast.jsonx", "a/.keep", "c/a.ast", "a.AST.JSON",
                 "package-lock.json", "a/b.schema.json", "a.ast.json5", "x.ast_json"]
OUTSIDE = ["template/other.ast.json", "o.ast.json", "template/page2/a.ast.json", "manifest.json", "template/pagex.ast.json"]
# names asked for that are never files
UNKNOWN = ["zz", "a/", "/a", "a/b/", "template/page/a", "../page/a", "a/../a", "other", "../other", "o",
           "a.ast", "a.ast.json.bak", "README", "B", "c", "c/d/", "a.partial", "a.partial/", "ab.partial"]


def cls_of(kind, debug):
    if kind == "tpl":
        return "ok"
    if kind == "mixin":
        return "err" if debug else "ok"
    if kind in BAD_ERR:
        return "err"
    if kind in BAD_PANIC:
        return "panic"
    raise ValueError(kind)


def dec(h):
    return unhx(h).decode("utf-8", "surrogateescape")


class FS:
    """the directory below basedir as the harness builds it"""

    def __init__(self, case=None):
        self.files = {}      # relative path -> (kind, marker bytes)
        self.dirs = set()    # relative paths of directories below the page directory
        self.page = True
        if case is not None:
            self.page = not case["nopage"]
            for f in case["files"]:
                self.write(dec(f["p"]), f["k"], unhx(f["m"]))

    def copy(self):
        o = FS()
        o.files, o.dirs, o.page = dict(self.files), set(self.dirs), self.page
        return o

    def _parents(self, p):
        parts = p.split("/")
        return ["/".join(parts[:i]) for i in range(1, len(parts))]

    def can_write(self, p):
        if p in self.dirs or p == PAGE[:-1]:
            return False
        return all(d not in self.files for d in self._parents(p))

    def can_mkdir(self, d):
        return d not in self.files and all(x not in self.files for x in self._parents(d))

    def write(self, p, kind, marker):
        assert self.can_write(p), p
        self.files[p] = (kind, marker)
        if p.startswith(PAGE):
            self.page = True
            for d in self._parents(p):
                if d.startswith(PAGE):
                    self.dirs.add(d)

    def mkdir(self, d):
        assert self.can_mkdir(d) and d.startswith(PAGE)
        self.page = True
        self.dirs.add(d)
        for x in self._parents(d):
            if x.startswith(PAGE):
                self.dirs.add(x)

    def can_mv(self, p, q):
        """rename p to q: a file onto a (new or existing) file path, a directory to a new path"""
        if p == q or q.startswith(p + "/") or p.startswith(q + "/"):
            return False
        if p in self.files:
            return self.can_write(q)
        if p in self.dirs and p != PAGE[:-1]:
            return q.startswith(PAGE) and q not in self.files and q not in self.dirs and self.can_mkdir(q)
        return False

    def mv(self, p, q):
        assert self.can_mv(p, q), (p, q)
        if p in self.files:
            v = self.files.pop(p)
            self.write(q, v[0], v[1])
            return
        self.mkdir(q)
        for f in [f for f in self.files if f.startswith(p + "/")]:
            self.files[q + f[len(p):]] = self.files.pop(f)
        for d in [d for d in self.dirs if d == p or d.startswith(p + "/")]:
            self.dirs.discard(d)
            self.dirs.add(q + d[len(p):])

    def apply(self, e):
        p = dec(e["p"]) if e.get("p") else None
        if e["a"] == "write":
            self.write(p, e["k"], unhx(e["m"]))
        elif e["a"] == "mv":
            self.mv(p, dec(e["q"]))
        elif e["a"] == "rm":
            del self.files[p]
        elif e["a"] == "mkdir":
            self.mkdir(p)
        elif e["a"] == "rmpage":
            self.files = {k: v for k, v in self.files.items() if not k.startswith(PAGE)}
            self.dirs = set()
            self.page = False
        elif e["a"] == "mkpage":
            self.page = True
        else:
            raise ValueError(e)

    # ---- what the loader sees
    def templates(self):
        """name -> kind for the template files below the page directory"""
        res = {}
        for p, (k, m) in self.files.items():
            if p.startswith(PAGE) and p.endswith(SUFFIX):
                res[p[len(PAGE):-len(SUFFIX)]] = k
        return res

    def selected(self, flt):
        """number of template files a load with this filter compiles (= FuncProvider calls if all compile)"""
        if not self.page:
            return 0
        return sum(1 for n in self.templates() if n.startswith(flt))

    def compile_class(self, flt, debug):
        """ok | fail for a load with this filter (which failure class depends on Readdir order)"""
        if not self.page:
            return "fail"
        for n, k in self.templates().items():
            if n.startswith(flt) and cls_of(k, debug) != "ok":
                return "fail"
        return "ok"

    def tree(self):
        """the Gallina term (fstree)"""
        if not self.page:
            return b"None"
        root = {}
        for d in sorted(self.dirs):
            cur = root
            for seg in d[len(PAGE):].split("/"):
                cur = cur.setdefault(seg, {})
        for p, (k, m) in self.files.items():
            if not p.startswith(PAGE):
                continue
            segs = p[len(PAGE):].split("/")
            cur = root
            for seg in segs[:-1]:
                cur = cur.setdefault(seg, {})
            cur[segs[-1]] = (k, m)

        def term(name, v):
            nm = cq_bytes(name.encode("utf-8", "surrogateescape"))
            if isinstance(v, dict):
                return b"(Dir " + nm + b" " + cq_list([term(n, x) for n, x in sorted(v.items())]) + b")"
            k, m = v
            kc = b"(KTpl " + cq_bytes(m) + b")" if k == "tpl" else KINDS_COQ[k]
            return b"(File " + nm + b" " + kc + b")"
        return b"(Some " + cq_list([term(n, x) for n, x in sorted(root.items())]) + b")"


class Mirror:
    """The machine of Models/Loader.v with the judge's bookkeeping of calls in flight, used only to
    generate schedules the model answers for (it is not trusted: the judge recomputes everything in Coq)."""

    def __init__(self, debug, ops, fs):
        self.debug, self.ops, self.fs = debug, ops, fs
        self.loaded, self.lock = False, None
        self.pc = ["start"] * len(ops)
        self.prog = 0          # FuncProvider calls made by the load in progress
        self.fl = []           # calls in flight: released, blocked on the lock
        self.multi = False
        self.freeze = False    # no edits until the lock is released (several calls wait for this load)

    def copy(self):
        m = Mirror(self.debug, self.ops, self.fs.copy())
        m.loaded, m.lock, m.pc = self.loaded, self.lock, list(self.pc)
        m.prog, m.fl, m.multi, m.freeze = self.prog, list(self.fl), self.multi, self.freeze
        return m

    def flt(self, i):
        o, n = self.ops[i]
        return n if (o == "load" or self.debug) else ""

    def enabled(self, i):
        pc = self.pc[i]
        if pc == "done":
            return False
        if pc == "locked":
            return True
        if pc == "start" and self.ops[i][0] == "render" and not self.debug:
            return True
        return self.lock is None

    def _enter(self, i, f):
        if self.loaded and f == "":
            self.pc[i] = "done"
        else:   # only a load of all templates sets the flag (repair dd313c0)
            self.loaded, self.lock, self.pc[i], self.prog = self.loaded or f == "", i, "locked", 0

    def _finish(self, i):
        self.lock, self.prog, self.freeze = None, 0, False
        if self.fs.compile_class(self.flt(i), self.debug) == "ok":
            self.pc[i] = "afterload" if self.ops[i][0] == "render" else "done"
        else:
            self.loaded = False
            self.pc[i] = "done"

    def step(self, i):
        assert self.enabled(i)
        assert not (self.fl and self.lock is None and i not in self.fl)
        if i in self.fl:
            self.fl.remove(i)
            if not self.fl:
                self.multi = False
        pc, (o, n) = self.pc[i], self.ops[i]
        if pc == "start":
            if o == "render" and not self.debug:
                self.pc[i] = "afterload" if self.loaded else "check"
            else:
                self._enter(i, n)
        elif pc == "check":
            if self.loaded:
                self.pc[i] = "afterload"
            else:
                self._enter(i, "")
        elif pc == "locked":
            self._finish(i)
        elif pc == "afterload":
            self.pc[i] = "done"

    # ---- inside a load: from one compiled file to the next
    def load_good(self, i):
        return self.fs.compile_class(self.flt(i), self.debug) == "ok"

    def can_compile(self, i):
        """the outcome does not depend on the Readdir order: nothing compiled yet, or every selected file compiles"""
        return self.pc[i] == "locked" and not self.fl_racing() and (self.prog == 0 or self.load_good(i))

    def compile_parks(self, i):
        return self.prog < self.fs.selected(self.flt(i))

    def compile(self, i):
        assert self.can_compile(i)
        if self.compile_parks(i):
            self.prog += 1
        else:
            self._finish(i)

    # ---- calls that must wait
    def fl_racing(self):
        return bool(self.fl) and self.lock is None

    def _never_holds(self, i):
        """its next step cannot end with the lock held, provided the load in progress succeeds"""
        pc, (o, n) = self.pc[i], self.ops[i]
        if pc == "afterload":
            return True
        # the flag after the load in progress: set by a load of all templates, left alone by a filtered one
        flag = self.loaded or self.flt(self.lock) == ""
        if pc == "check":
            return flag
        return pc == "start" and self.flt(i) == "" and flag

    def can_probe(self, i):
        if self.pc[i] == "done" or self.enabled(i) or i in self.fl or self.lock is None:
            return False
        if not self.fl:
            return True
        # several calls in flight: none of them may be the one that starts the next load
        return (self.load_good(self.lock) and self._never_holds(i)
                and all(self._never_holds(j) for j in self.fl))

    def probe(self, i):
        assert self.can_probe(i)
        if self.fl:
            self.multi = True
            self.freeze = True
        self.fl.append(i)

    def can_edit(self):
        return not self.freeze and not self.fl_racing() and not (self.lock is not None and self.prog > 0)


def hxs(s):
    return hx(s.encode("utf-8", "surrogateescape")) if isinstance(s, str) else hx(s)


def op_json(o):
    return {"o": o[0], "n": hxs(o[1])}


PAD = 256   # every template file of a case is padded to this size when the regime keeps sizes

# regimes of file identity under which the harness writes (and rewrites) the files of one case:
#   z   pad every file to the same size            mt  "" natural | keep (restore the replaced file's mtime) |
#   v   "" in place (same inode) | rename (new inode)      fixed (one build time stamp for every file)
REGIMES = {
    "natural":     {"z": 0,   "mt": "",      "v": ""},
    "size":        {"z": PAD, "mt": "",      "v": ""},       # same size, writes within one mtime tick happen
    "size+keep":   {"z": PAD, "mt": "keep",  "v": ""},       # cp -p / rsync -t / touch -r
    "size+fixed":  {"z": PAD, "mt": "fixed", "v": ""},       # reproducible build artefacts
    "size+fixed+rename": {"z": PAD, "mt": "fixed", "v": "rename"},   # ... deployed by atomic replace
    "fixed":       {"z": 0,   "mt": "fixed", "v": ""},
    "rename":      {"z": 0,   "mt": "",      "v": "rename"},
    "mixed":       None,                                      # every write draws its own
}
STAT_REGIMES = [r for r in REGIMES if r.startswith("size")] + ["mixed"]


def pick_regime(rng, stat=False):
    if stat:
        return rng.choice(STAT_REGIMES)
    return rng.choice(["natural"] * 5 + list(REGIMES))


class Builder:
    """builds one case: initial files, ops, schedule; keeps the mirror in step"""

    def __init__(self, rng, debug, regime="natural"):
        self.rng, self.debug = rng, debug
        self.regime = regime
        self.fs = FS()
        self.counter = 0
        self.init_files = []
        self.nopage = False
        self.ops = []
        self.sched = []
        self.mirror = None

    def clone_of(self, b0):
        """a fresh builder that continues b0 (shared prefix of an enumeration)"""
        self.regime = b0.regime
        self.fs, self.init_files, self.counter = b0.fs.copy(), list(b0.init_files), b0.counter
        self.nopage = b0.nopage
        self.ops, self.sched = list(b0.ops), list(b0.sched)
        if b0.mirror is not None:
            self.mirror = b0.mirror.copy()
            self.mirror.fs = self.fs
        return self

    def marker(self, name):
        self.counter += 1
        return ("%s#%03d" % (name, self.counter)).encode("utf-8", "surrogateescape")

    def stat(self):
        r = REGIMES[self.regime]
        if r is None:
            r = {"z": self.rng.choice([0, PAD, PAD]), "mt": self.rng.choice(["", "keep", "fixed", "fixed"]),
                 "v": self.rng.choice(["", "", "rename"])}
        return {k: v for k, v in r.items() if v}

    def add_initial(self, path, kind, marker=b""):
        if not self.fs.can_write(path):
            return False
        self.fs.write(path, kind, marker)
        st = self.stat()
        st.pop("v", None)
        if st.get("mt") == "keep":
            st.pop("mt")
        self.init_files.append(dict({"p": hxs(path), "k": kind, "m": hx(marker)}, **st))
        return True

    def add_template(self, name, kind="tpl"):
        return self.add_initial(PAGE + name + SUFFIX, kind, self.marker(name) if kind == "tpl" else b"")

    def start(self, ops):
        self.ops = list(ops)
        self.mirror = Mirror(self.debug, self.ops, self.fs)

    # ---- events
    def _drain(self):
        """calls in flight go on by themselves once the lock is free: their steps come next"""
        m = self.mirror
        while m.fl_racing():
            i = m.fl[0]
            m.step(i)
            self.sched.append({"t": i})

    def step(self, i):
        self.mirror.step(i)
        self.sched.append({"t": i})
        self._drain()

    def compile(self, i):
        self.mirror.compile(i)
        self.sched.append({"c": i})
        self._drain()

    def probe(self, i):
        self.mirror.probe(i)
        self.sched.append({"t": i, "b": True})

    def run_to_end(self, i):
        while self.mirror.pc[i] != "done":
            self.step(i)

    def edit(self, eds):
        if not eds or not self.mirror.can_edit():
            return False
        for e in eds:
            self.fs.apply(e)
        self.sched.append({"e": eds})
        return True

    def moves(self, tids, compile_steps=True, probes=True):
        """what the schedule can do next with these calls"""
        m = self.mirror
        res = []
        for i in tids:
            if m.pc[i] == "done" or i in m.fl:
                continue
            if m.enabled(i):
                res.append(("t", i))
                if compile_steps and m.can_compile(i):
                    res.append(("c", i))
            elif probes and m.can_probe(i):
                res.append(("b", i))
        return res

    def do(self, mv):
        k, i = mv
        if k == "t":
            self.step(i)
        elif k == "c":
            self.compile(i)
        else:
            self.probe(i)

    def finish_all(self, tids, rng=None):
        """run every started or unstarted call of tids to its end (lock holder first)"""
        m = self.mirror
        while True:
            mv = [x for x in self.moves(tids, compile_steps=False, probes=False)]
            if not mv:
                break
            hold = [x for x in mv if x[1] == m.lock]
            self.do(hold[0] if hold else (rng.choice(mv) if rng else mv[0]))

    # ---- edit proposals on the current tree
    def ed_write(self, name, kind, keep_stat=False):
        p = PAGE + name + SUFFIX
        if not self.fs.can_write(p):
            return None
        st = self.stat()
        if keep_stat:   # whatever the regime: same size, same modification time
            st = {"z": PAD, "mt": "keep" if st.get("mt") != "fixed" else "fixed"}
        return dict({"a": "write", "p": hxs(p), "k": kind, "m": hx(self.marker(name) if kind == "tpl" else b"")}, **st)

    def ed_mv(self):
        """rename a template file onto another template name (existing or new), swap two, or rename a directory"""
        rng, fs = self.rng, self.fs
        tps = sorted(fs.templates())
        x = rng.random()
        if len(tps) >= 2 and x < 0.35:          # swap two templates through a temporary name outside the page dir
            a, b = rng.sample(tps, 2)
            pa, pb, tmp = PAGE + a + SUFFIX, PAGE + b + SUFFIX, "swap.tmp"
            if fs.can_write(tmp):
                return [{"a": "mv", "p": hxs(pa), "q": hxs(tmp)}, {"a": "mv", "p": hxs(pb), "q": hxs(pa)},
                        {"a": "mv", "p": hxs(tmp), "q": hxs(pb)}]
        if tps and x < 0.8:                     # one template file takes the place of another / gets a new name
            a = rng.choice(tps)
            b = rng.choice(tps + NAMES)
            pa, pb = PAGE + a + SUFFIX, PAGE + b + SUFFIX
            if fs.can_mv(pa, pb):
                return [{"a": "mv", "p": hxs(pa), "q": hxs(pb)}]
            return []
        dirs = sorted(d for d in fs.dirs if d != PAGE[:-1])
        if dirs:
            d = rng.choice(dirs)
            q = PAGE + rng.choice(["e", "a", "c/f", "a.partial", "g.ast.json", "b", "moved/x"])
            if fs.can_mv(d, q):
                return [{"a": "mv", "p": hxs(d), "q": hxs(q)}]
        return []

    def random_edit(self, stat=False):
        """stat: only edits that a size / mtime / inode comparison is likely to miss"""
        rng = self.rng
        tps = self.fs.templates()
        bad = [n for n, k in tps.items() if k != "tpl"]
        x = rng.random()
        if stat:
            if x < 0.2:
                return self.ed_mv()
            x = x * 0.7 if tps else 1.0
        if bad and x < 0.35:                      # repair
            e = self.ed_write(rng.choice(bad), "tpl", stat)
        elif tps and x < 0.55:                    # change content
            e = self.ed_write(rng.choice(sorted(tps)), "tpl", stat)
        elif tps and x < 0.70:                    # break
            e = self.ed_write(rng.choice(sorted(tps)), rng.choice(BAD_ERR + BAD_PANIC + ["mixin"]), stat)
        elif x < 0.80:                            # new template (maybe broken)
            e = self.ed_write(rng.choice(NAMES), "tpl" if rng.random() < 0.8 else rng.choice(BAD_ERR + BAD_PANIC))
        elif tps and x < 0.87:                    # remove
            e = {"a": "rm", "p": hxs(PAGE + rng.choice(sorted(tps)) + SUFFIX)}
        elif x < 0.91:
            return self.ed_mv()
        elif x < 0.93:
            e = {"a": "rmpage"}
        elif x < 0.95:
            e = {"a": "mkpage"}
        elif x < 0.97:
            d = PAGE + rng.choice(["e", "a", "c/f", "a.partial", "g.ast.json"])
            e = {"a": "mkdir", "p": hxs(d)} if self.fs.can_mkdir(d) else None
        else:
            p = rng.choice([PAGE + n for n in NON_TEMPLATES] + OUTSIDE)
            e = {"a": "write", "p": hxs(p), "k": "other", "m": hx(b"not a template")} if self.fs.can_write(p) else None
        return [e] if e else []

    def case(self, tag):
        return {"debug": self.debug, "nopage": self.nopage, "files": self.init_files,
                "ops": [op_json(o) for o in self.ops], "sched": self.sched, "tag": tag, "regime": self.regime}


def base_tree(b, rng, scenario, small=False):
    """scenario: good | err | panic | preerr | prepanic | mixed"""
    for n in ["a", "ab", "a/b", "b", "a.partial/x", "c/d/e"]:
        b.add_template(n)
    for n in rng.sample(NAMES, rng.randint(0, 1 if small else 4)):
        b.add_template(n)
    for p in rng.sample(NON_TEMPLATES, rng.randint(0, 3)):
        b.add_initial(PAGE + p, "other", b"not a template")
    for p in rng.sample(OUTSIDE, rng.randint(0, 2)):
        b.add_initial(p, "tpl" if p.endswith(SUFFIX) else "other", b"OUTSIDE" if p.endswith(SUFFIX) else b"{}")
    if scenario in ("err", "mixed"):
        b.add_template(rng.choice(["x", "xa", "q/r"]), rng.choice(BAD_ERR))
    if scenario in ("panic", "mixed"):
        b.add_template(rng.choice(["y", "ya", "q/s"]), rng.choice(BAD_PANIC))
    if scenario == "preerr":       # shares a prefix with "a", contains "b"
        b.add_template(rng.choice(["abc", "a/z", "a.partial/bad"]), rng.choice(BAD_ERR))
    if scenario == "prepanic":
        b.add_template(rng.choice(["abc", "a/z", "ba/x"]), rng.choice(BAD_PANIC))
    if scenario == "mixin":
        b.add_template("m", "mixin")


def all_schedules(mirror, tids, limit=400):
    """all maximal interleavings of enabled steps of the given threads"""
    out = []

    def go(m, acc):
        if len(out) >= limit:
            return
        en = [i for i in tids if m.enabled(i)]
        if not en:
            out.append(acc)
            return
        for i in en:
            m2 = m.copy()
            m2.step(i)
            go(m2, acc + [i])
    go(mirror, [])
    return out


PROD_PAIRS = [[("render", "a"), ("render", "b")], [("render", "a"), ("render", "a")],
              [("render", "a"), ("render", "zz")], [("render", "a/b"), ("load", "")],
              [("load", ""), ("load", "")], [("render", "a.partial/x"), ("render", "c/d/e")],
              [("render", "a"), ("load", "a")], [("load", "b"), ("render", "a")],
              # filtered explicit loads (of a template, a directory prefix, a missing name) around first renders
              [("load", "a"), ("render", "b")], [("load", "c/"), ("render", "c/d/e")],
              [("load", "zz"), ("render", "a")], [("load", "a"), ("load", "")], [("load", "a"), ("load", "b")]]
DEBUG_PAIRS = [[("render", "a"), ("render", "b")], [("render", "a"), ("render", "ab")],
               [("render", "a/b"), ("render", "a")], [("render", "a"), ("render", "a")],
               [("render", "a"), ("render", "zz")], [("render", "b"), ("load", "")],
               [("render", "b"), ("load", "a")], [("load", "a"), ("load", "b")],
               [("render", "a.partial/x"), ("render", "c/d/e")], [("load", ""), ("load", "")],
               [("render", "c/d/e"), ("load", "c")]]
SCENARIOS = ["good", "err", "panic", "preerr", "prepanic", "mixed", "mixin"]


def enumerated(rng, tier):
    """every interleaving of two calls (quick) / also of three calls (thorough), on a good tree and on
    one tree with a failing file, plain, after a warm-up call, and with an edit at a random position"""
    cases = []
    for debug, pairs in ((False, PROD_PAIRS), (True, DEBUG_PAIRS)):
        for pair in pairs:
            scen = SCENARIOS
            for sc in scen:
                for variant in ("plain", "edit", "warm"):
                    if tier == "quick" and variant == "warm" and sc != "good":
                        continue
                    b0 = Builder(rng, debug, pick_regime(rng, stat=(variant == "edit" and rng.random() < 0.5)))
                    base_tree(b0, rng, sc)
                    ops = list(pair)
                    tids = [0, 1]
                    if variant == "warm":
                        ops = ops + [rng.choice([("load", ""), ("render", "a"), ("render", "b")] +
                                                ([] if debug else [("load", "a"), ("load", "c/")]))]
                    b0.start(ops)
                    if variant == "warm":
                        b0.run_to_end(2)
                    scheds = all_schedules(b0.mirror, tids)
                    if variant == "edit" and tier == "quick":
                        scheds = rng.sample(scheds, min(len(scheds), 3))
                    for sch in scheds:
                        b = Builder(rng, debug).clone_of(b0)
                        if variant == "edit":
                            # the edit changes what later compiles do: re-plan the rest with the mirror
                            k = rng.randrange(len(sch) + 1)
                            for i in sch[:k]:
                                b.step(i)
                            b.edit(b.random_edit(stat=b.regime in STAT_REGIMES))
                            rest = list(sch[k:])
                            while True:
                                en = [i for i in tids if b.mirror.enabled(i)]
                                if not en:
                                    break
                                pick = next((i for i in rest if i in en), en[0])
                                if pick in rest:
                                    rest.remove(pick)
                                b.step(pick)
                        else:
                            for i in sch:
                                b.step(i)
                        cases.append(b.case("enum2-%s-%s-%s" % ("debug" if debug else "prod", sc, variant)))
    if tier != "quick":
        triples = [(False, [("render", "a"), ("render", "b"), ("load", "")]),
                   (False, [("load", "a"), ("render", "b"), ("render", "a")]),
                   (False, [("render", "a"), ("render", "a"), ("render", "zz")]),
                   (True, [("render", "a"), ("render", "ab"), ("render", "b")]),
                   (True, [("render", "a/b"), ("render", "a"), ("load", "")])]
        for debug, ops in triples:
            for sc in ("good", "err", "prepanic"):
                b0 = Builder(rng, debug)
                base_tree(b0, rng, sc)
                b0.start(ops)
                scheds = all_schedules(b0.mirror, [0, 1, 2], limit=100000)
                for sch in rng.sample(scheds, min(len(scheds), 700)):
                    b = Builder(rng, debug).clone_of(b0)
                    for i in sch:
                        b.step(i)
                    cases.append(b.case("enum3-%s-%s" % ("debug" if debug else "prod", sc)))
    return cases


def weighted(rng, moves, wc, wb):
    ws = [1.0 if k == "t" else (wc if k == "c" else wb) for k, _ in moves]
    return rng.choices(moves, weights=ws)[0]


def random_history(rng, tier, hostile, stat=False, inside=False):
    """stat: file-identity regime and edits a size / mtime / inode comparison is likely to miss, mostly
    sequential; inside: steps from file to file inside loads and probes of calls that must wait"""
    debug = rng.random() < (0.75 if stat else 0.5)
    b = Builder(rng, debug, pick_regime(rng, stat))
    # tree
    r = rng.random()
    if r < 0.08 and not stat:
        b.nopage = True
        b.fs.page = False
    else:
        for n in rng.sample(NAMES, rng.randint(1, 5 if inside else (4 if stat else 8))):
            k = "tpl"
            x = rng.random()
            if x < 0.10:
                k = rng.choice(BAD_ERR)
            elif x < 0.18:
                k = rng.choice(BAD_PANIC)
            elif x < 0.21:
                k = "mixin"
            b.add_template(n, k)
        for p in rng.sample(NON_TEMPLATES, rng.randint(0, 1 if stat else 3)):
            b.add_initial(PAGE + p, "other", b"not a template")
        for p in rng.sample(OUTSIDE, rng.randint(0, 1 if stat else 2)):
            b.add_initial(p, "tpl" if p.endswith(SUFFIX) else "other", b"OUTSIDE" if p.endswith(SUFFIX) else b"{}")
    # calls
    ncalls = rng.randint(3, (8 if (inside or stat) else 14) if tier == "quick" else 24)
    ops = []
    for _ in range(ncalls):
        x = rng.random()
        pool = sorted(b.fs.templates()) or ["a"]
        if x < (0.85 if stat else 0.55):
            n = rng.choice(pool)
        elif x < 0.75:
            n = rng.choice(NAMES)
        else:
            n = rng.choice(UNKNOWN)
        y = rng.random()
        if y < (0.85 if stat else 0.70):
            ops.append(("render", n))
        elif y < (0.92 if stat else 0.85):
            ops.append(("load", ""))
        else:   # filtered explicit load: of a template, a directory prefix, a missing name
            ops.append(("load", rng.choice(["a", "b", "c/", "a.partial/", "a/", "zz", n, n])))
    if not debug and rng.random() < 0.25:
        # production mode: a filtered load is the very first call
        ops[0] = ("load", rng.choice(["a", "b", "c/", "zz", rng.choice(pool)]))
    if hostile and debug and rng.random() < 0.3:
        ops[rng.randrange(len(ops))] = ("render", "")
    b.start(ops)
    conc = rng.choice([1, 1, 1, 2] if stat else ([2, 3, 3] if inside else [1, 1, 2, 3]))
    pe = rng.choice([0.25, 0.4] if stat else [0.0, 0.15, 0.35])
    wc, wb = (rng.choice([0.5, 1.5, 3.0]), rng.choice([0.5, 2.0])) if inside else (0.0, 0.0)
    m = b.mirror
    nxt = 0
    while True:
        active = [i for i in range(nxt) if m.pc[i] != "done"]
        if nxt >= len(ops) and not active:
            break
        if rng.random() < pe and b.edit(b.random_edit(stat=stat)):
            continue
        window = active + ([nxt] if nxt < len(ops) and len(active) < conc else [])
        mv = b.moves(window, compile_steps=inside, probes=inside)
        if not inside:   # as before: a call that would block is not started, the holder runs
            mv = [x for x in mv if x[0] == "t"] or [("t", m.lock)]
        k, i = weighted(rng, mv, wc, wb)
        b.do((k, i))
        if i == nxt:
            nxt += 1
    return b.case("%s-%s-c%d%s" % ("stat" if stat else ("inside" if inside else "history"),
                                   "debug" if debug else "prod", conc, "-hostile" if hostile else ""))


# ---- a load is a long operation: other calls arrive at every moment of it
LOADERS_PROD = [("load", ""), ("render", "a"), ("render", "zz"), ("load", "a"), ("load", "c/")]
LOADERS_DEBUG = [("load", ""), ("render", "a"), ("render", "a/b"), ("load", "a"), ("load", "c/")]
ARRIVALS_PROD = [("render", "a"), ("render", "ab"), ("render", "zz"), ("load", ""), ("render", "c/d/e"),
                 ("load", "a"), ("load", "zz")]
ARRIVALS_DEBUG = [("render", "a"), ("render", "ab"), ("render", "b"), ("load", ""), ("load", "a"), ("render", "zz")]


def arrivals(rng, tier):
    """Stream 3.  One call A is inside a load, parked in the FuncProvider call of its k-th file, for EVERY k from
    0 (still at load:locked) to the number of files it compiles; then a second call B (and sometimes a third, C)
    arrives: it takes the steps it can take, is then released once more and must be seen blocked; A goes on file
    by file (or straight) to the end of its load; the blocked calls go on by themselves."""
    cases = []
    for debug, loaders, arr in ((False, LOADERS_PROD, ARRIVALS_PROD), (True, LOADERS_DEBUG, ARRIVALS_DEBUG)):
        for A in loaders:
            for sc in ("good", "err", "prepanic") if tier == "quick" else SCENARIOS:
                b0 = Builder(rng, debug, pick_regime(rng))
                base_tree(b0, rng, sc, small=True)
                Bs = rng.sample(arr, 2 if tier == "quick" else len(arr))
                for B in Bs:
                    third = rng.choice(arr) if rng.random() < 0.4 else None
                    ops = [A, B] + ([third] if third else [])
                    b1 = Builder(rng, debug).clone_of(b0)
                    b1.start(ops)
                    # A up to load:locked (a production render needs two steps)
                    while b1.mirror.pc[0] not in ("locked", "done"):
                        b1.step(0)
                    if b1.mirror.pc[0] != "locked":
                        continue
                    k = 0
                    while True:
                        b = Builder(rng, debug).clone_of(b1)
                        m = b.mirror
                        others = list(range(1, len(ops)))
                        # the others arrive: every step they can take, then the probe
                        for j in others:
                            while ("t", j) in b.moves([j], probes=False):
                                b.step(j)
                            if m.can_probe(j):
                                b.probe(j)
                        # A goes on: file by file, or straight to the end
                        straight = rng.random() < 0.3
                        while m.pc[0] == "locked":
                            if not straight and m.can_compile(0):
                                b.compile(0)
                            else:
                                b.step(0)
                            if m.pc[0] == "locked" and rng.random() < 0.25:
                                # somebody who was not blocked yet tries again
                                for j in others:
                                    if m.can_probe(j):
                                        b.probe(j)
                        b.finish_all(range(len(ops)), rng)
                        cases.append(b.case("arrive-%s-%s-k%d" % ("debug" if debug else "prod", sc, k)))
                        # next k: A one file further
                        if b1.mirror.can_compile(0) and b1.mirror.compile_parks(0):
                            b1.compile(0)
                            k += 1
                        else:
                            break
    return cases


def midload_edits(rng, tier, n):
    """Stream 6.  File edits INSIDE a load: call A is parked in the FuncProvider call of one of its files, other
    calls have arrived and are parked where they got to, and the content of existing template files changes
    (new content, broken, repaired; any file-identity regime) - the names stay.  The model's load reads the tree
    at one instant, so these cases are judged by the oracle alone (a weaker one: file by file).  After the
    edits nothing is taken from the mirror any more: A runs to its end, then every call gets four steps of its
    own, one call after the other (steps of a call that has returned are no-ops)."""
    cases = []
    for _ in range(n):
        debug = rng.random() < 0.5
        b = Builder(rng, debug, pick_regime(rng, stat=rng.random() < 0.5))
        sc = rng.choice(["good", "good", "err", "panic", "mixin"])
        base_tree(b, rng, sc, small=True)
        A = rng.choice(LOADERS_DEBUG if debug else LOADERS_PROD)
        others = rng.sample(ARRIVALS_DEBUG if debug else ARRIVALS_PROD, rng.randint(1, 2))
        ops = [A] + others
        b.start(ops)
        m = b.mirror
        while m.pc[0] not in ("locked", "done"):
            b.step(0)
        if m.pc[0] != "locked" or not m.can_compile(0) or not m.compile_parks(0):
            continue
        b.compile(0)
        while m.can_compile(0) and m.compile_parks(0) and rng.random() < 0.6:
            b.compile(0)
        for j in range(1, len(ops)):
            while ("t", j) in b.moves([j], probes=False) and rng.random() < 0.8:
                b.step(j)
        # the edits; between them A may go on to further files as long as every file compiles
        for _k in range(rng.randint(1, 3)):
            tps = b.fs.templates()
            name = rng.choice(sorted(tps))
            kind = "tpl" if rng.random() < 0.6 else rng.choice(BAD_ERR + BAD_PANIC + ["mixin"])
            e = b.ed_write(name, kind, keep_stat=rng.random() < 0.5)
            b.fs.apply(e)
            b.sched.append({"e": [e]})
            if m.load_good(0) and m.compile_parks(0) and rng.random() < 0.5:
                m.prog += 1
                b.sched.append({"c": 0})
        b.sched.append({"t": 0})
        order = list(range(len(ops)))
        rng.shuffle(order)
        for j in order:
            b.sched.extend({"t": j} for _ in range(4))
        cases.append(b.case("midedit-%s-%s" % ("debug" if debug else "prod", sc)))
    return cases


def kind_stats(case):
    fs = FS(case)
    ks = {}
    for n, k in fs.templates().items():
        ks[k] = ks.get(k, 0) + 1
    return ks


CLS = {"ok": None, "loaded": b"GR RLoaded", "not_found": b"GR RNotFound", "load_error": b"GR RLoadErr",
       "load_panic": b"GR RLoadPanic", "again": b"GR RAgain", "stuck": b"GStuckR", "unfinished": b"GUnfinished"}
PTS = {"check": b"GCheck", "locked": b"GLocked", "afterload": b"GAfterLoad", "done": b"GDone", "stuck": b"GStuck",
       "noop": b"GNoop", "edit": b"GEdit", "compile": b"GCompile", "blocked": b"GBlocked"}


def ev_thread(ev):
    """the thread a schedule event steps (None for an edit event)"""
    if ev.get("t") is not None:
        return ev["t"]
    return ev.get("c")


class C10(Prop):
    id = "C10"
    engine = "C10"
    judge_module = "Run.Judge_C10"
    prop_module = "Props.C10"
    prop_file = "Props/C10.v"
    coq_targets = ["Props/C10.vo", "Run/Judge_C10.vo"]
    sizes = {"quick": 600, "thorough": 5000}
    shard = 120
    design_ref = "DESIGN.md section 6 C10, section 5 (yield points); compile steps, probes and file-identity regimes: gen/c10.py, harness/c10.go headers"
    rule = ("one case = one real Engine (production or debug mode) over a generated directory (template names that are "
            "prefixes of each other, nested directories, .partial folders, a directory named *.ast.json, non-template "
            "files, files outside template/page, broken JSON, template syntax error, malformed JS snippet (panic), "
            "unknown node type (panic), undefined mixin (error in debug mode only), missing page directory) and a "
            "schedule: every Render / LoadTemplates call is a goroutine parked at the yield points of pugjs.VerifHook "
            "and released one step at a time in the order the case says; a call inside a load can also be parked in "
            "Engine.FuncProvider, which compileDir calls before every file it compiles (compile step: from one file "
            "to the next), so that other calls arrive at ANY moment of a load; a call that must wait for the lock is "
            "released and observed blocked for 30 ms (probe), stays in flight and is collected right after the step "
            "that frees the lock. File edits (change, break, repair, remove, new, rename of files and directories, "
            "swap of two templates, rmdir/mkdir of the page directory) happen between steps, under a per-case regime "
            "of file identity: natural; every template file padded to one size; padded + the replaced file's "
            "modification time restored (os.Chtimes); padded + one fixed build time stamp on every file; the same "
            "written by temp-file + rename (new inode); fixed time stamp only; rename only; drawn per write (about 60% of "
            "the cases are not 'natural'; markers have a fixed width, so plain rewrites keep the size as well and "
            "fall within one mtime tick). "
            "Stream 1: EVERY interleaving of two calls "
            "for 13 production (5 of them with a filtered explicit load of a template, a directory prefix or a missing "
            "name before / beside a first render or a load of all templates) and 11 debug call pairs on seven tree scenarios (all files good; an error file; a panic "
            "file; an error / a panic file sharing a name prefix with the rendered templates; both kinds; an undefined "
            "mixin), plain, with an edit at a random position (3 sampled interleavings, thorough: all), and after a "
            "warm-up call (thorough adds 700 sampled interleavings of three calls for 4 triples x 3 scenarios). "
            "Stream 2 (60% of n): random histories of 3..14 (thorough 24) calls, concurrency 1 (sequential), 2 or "
            "3, edits with probability 0/0.15/0.35 per step; in BOTH modes 70% of the calls are renders, 15% loads of "
            "all templates, 15% filtered explicit loads (of a template, a directory prefix, a missing name), and in "
            "25% of the production histories a filtered load is the very first call (the same holds in streams 4 and "
            "5 with their own shares); 20% hostile (render of the empty name in debug mode). "
            "Stream 3 (arrivals): a call A (explicit load, first render, debug render, "
            "filtered load - in production mode too) is inside its load and parked at file k, for EVERY k from 0 to the number of files it "
            "compiles; a second and sometimes a third call arrive, take the steps they can take, are probed blocked; "
            "A goes on file by file (70%) or straight to the end; on 3 (thorough 7) tree scenarios. Stream 4 (20%): "
            "random histories of 3..8 calls, concurrency 2-3, with compile steps and probes at random (weights "
            "0.5-3 / 0.5-2 against a plain step). Stream 5 (20%): histories under a size-keeping regime, 75% debug "
            "mode, mostly sequential, edit probability 0.25/0.4 per step, edits chosen among those a size / mtime / "
            "inode comparison is likely to miss (same-size rewrite, good <-> broken of the same size and time, "
            "renames, swaps), 85% of the calls render an existing template. Stream 6 (n/7 cases): content edits of "
            "existing template files INSIDE a load (A parked at a file, others parked where they got to) - judged "
            "by the oracle alone (file-by-file windows), counted as unmodelled. Non-trivial = at least two calls "
            "overlapped, or an edit happened, or some call failed, or a compile step or probe was taken; distinct "
            "by SHA-1 of the case")
    trusted = [
        "compiling ONE template file (pug AST -> template text -> parse) is abstracted in the model to its outcome class "
        "(ok with the bytes the template prints / error / panic); which file contents fall in which class is observed "
        "by the correspondence runs on five concrete file kinds, not proved (the pipeline itself is C01-C06)",
        "the atomicity of the model's steps rests on sync.RWMutex and sync/atomic behaving as documented; the harness "
        "observes at which yield point (or FuncProvider call) every goroutine parks after every release, and that a "
        "goroutine the model refuses a step neither parks nor returns for 30 ms, and the judge compares that trace "
        "with the model's program counters; a goroutine that should wait and does not is seen returning (it cannot "
        "be the other way round: a goroutine waiting for a held lock never returns, so the probe has no false alarm)",
        "the model's compile step (ECompile) changes only the progress counter: that a load holds the lock and "
        "publishes nothing until its last file is compiled is what the probes and results observe at every file "
        "position, not something proved of the Go code; the number of FuncProvider calls of a load (one per selected "
        "template file, up to the first failing one) is compared with the model's load_calls",
        "Readdir order is unknown to the model: the theorems hold for every order (the tree is a list in any order); "
        "the judge does not tell the two failure classes apart on trees holding files of both classes, and the "
        "generator takes compile steps beyond the first only in loads whose selected files all compile",
        "Engine.TemplateCode (source listing kept across loads), Assetrewrites/manifest.json and the webpack probe are "
        "not modelled; file size, modification time and inode are not in the model at all (the model and the oracle "
        "read file contents only) - the regimes exist to show that the code does not depend on them either",
    ]
    assumptions = [
        "a file system holds at most one entry per path and path segments are clean (dom_fs: distinct template files "
        "have distinct names, no segment is empty, '.', '..' or contains '/')",
        "production mode: filtered explicit loads are IN the domain (since repair dd313c0 of /repo): the cold-start, "
        "filtered-first and full-load-exact theorems hold for any calls; only 'a set in place is never replaced' "
        "(C10_prod_once, C10_prod_cold_start_with_edits) keeps the hypothesis full_loads, because a filtered load "
        "re-reads the files under its filter by design and one that FAILS resets the loaded flag, so that the next "
        "render loads everything again (C10_prod_once_filtered_refuted) - the oracle's 'all renders from one version "
        "of the tree' accordingly speaks of names no filtered load of the case covers, in cases where no filtered "
        "load failed; debug mode: Render of the empty name is outside the domain (it is a load of all templates "
        "and is refused the second time)",
        "the model's load reads the whole tree at the instant it finishes: a file edit that arrives between the first "
        "and the last file read of ONE load is not modelled (stream 6 judges such cases by the oracle only: every "
        "result must be explained, file by file, by some version of the tree current during the call)",
        "schedules whose outcome depends on which waiting goroutine wins the lock (two or more calls in flight one of "
        "which would start the next load) are not generated and declined by the judge; several calls wait together "
        "only for a load that succeeds and when none of them starts another load",
        "a released goroutine that neither parks nor returns within 2 s AND is then seen waiting (state semacquire / "
        "sync.* / chan / select in the runtime's goroutine dump, twice, 200 ms apart) is reported as stuck; one that "
        "is running, runnable or in a system call is only slow (busy machine) and gets up to 90 s - 'stuck' is an "
        "observation of the goroutine's state, not of the machine's speed; a goroutine expected to wait is watched for 30 ms (a goroutine that "
        "wrongly does not wait but needs longer than that to return is missed by that probe, not by the result "
        "check); unreadable directory entries and symlinks are not generated (the harness runs as root)",
        "error texts are only mapped to the classes again / not_found / load_error; a panic out of the call is its own class",
    ]
    not_yet_proved = []

    def generate(self, rng, n, tier):
        cases = enumerated(rng, tier) + arrivals(rng, tier) + midload_edits(rng, tier, n // 7)
        for i in range(n):
            # streams 2 (60%), 4 (20%), 5 (20%), interleaved so that the judging shards weigh the same
            if i % 5 == 3:
                cases.append(random_history(rng, tier, hostile=(i % 35 == 33), stat=True))
            elif i % 5 == 1:
                cases.append(random_history(rng, tier, hostile=(i % 35 == 31), inside=True))
            else:
                cases.append(random_history(rng, tier, hostile=(i % 5 == 4)))
        return cases

    def run(self, binary, cases, tmp, tier):
        # the hook is one global variable per process: cases run one after the other inside a process,
        # several processes side by side
        k = 8
        chunks = [cases[i::k] for i in range(k)]
        with ThreadPoolExecutor(max_workers=k) as ex:
            outs = list(ex.map(lambda ch: run_harness(binary, self.engine, ch) if ch else [], chunks))
        res = [None] * len(cases)
        for j, out in enumerate(outs):
            for idx, o in zip(range(j, len(cases), k), out):
                res[idx] = o
        return res

    # ---- Gallina
    def emit(self, case, obs):
        fs = FS(case)
        ops = []
        for o in case["ops"]:
            ops.append((b"ORender " if o["o"] == "render" else b"OLoad ") + cq_bytes(unhx(o["n"])))
        evs = []
        fs0 = fs.tree()
        for ev in case["sched"]:
            if ev.get("t") is not None:
                evs.append(b"EStep %d" % ev["t"])
            elif ev.get("c") is not None:
                evs.append(b"ECompile %d" % ev["c"])
            else:
                for e in ev["e"]:
                    fs.apply(e)
                evs.append(b"EFs " + fs.tree())
        res, late = [], False
        for t in (obs["threads"] or []):
            late = late or bool(t.get("late"))
            if t["class"] == "ok":
                res.append(b"GR (ROk " + cq_bytes(unhx(t["out"])) + b")")
            else:
                res.append(CLS.get(t["class"], b"GOtherR"))
        steps = [PTS.get(s, b"GOther") for s in (obs["steps"] or [])]
        return (b"{| c_debug := " + cq_bool(case["debug"]) + b"; c_fs0 := " + fs0 +
                b"; c_ops := " + cq_list(ops) + b"; c_evs := " + cq_list(evs) +
                b"; g_steps := " + cq_list(steps) + b"; g_res := " + cq_list(res) +
                b"; g_late := " + cq_bool(late) + b" |}")

    def _overlap(self, case):
        seen, done_at = {}, {}
        order = [ev_thread(ev) for ev in case["sched"] if ev_thread(ev) is not None]
        first = {}
        last = {}
        for k, t in enumerate(order):
            first.setdefault(t, k)
            last[t] = k
        ts = sorted(first)
        return any(first[a] < first[b] < last[a] for a in ts for b in ts if a != b)

    def nontrivial(self, case, obs):
        edits = any(ev.get("e") for ev in case["sched"])
        if any(ev.get("b") or ev.get("c") is not None for ev in case["sched"]):
            return True
        failed = any(t["class"] not in ("ok", "loaded") for t in (obs["threads"] or []))
        return edits or failed or self._overlap(case)

    def sample(self, case, obs):
        def s(h):
            return unhx(h).decode("utf-8", "replace")
        sched = []
        for ev in case["sched"]:
            if ev.get("t") is not None:
                sched.append("t%d%s" % (ev["t"], "?" if ev.get("b") else ""))
            elif ev.get("c") is not None:
                sched.append("c%d" % ev["c"])
            else:
                sched.append("edit(" + ",".join("%s %s%s%s%s" % (
                    e["a"], s(e.get("p", "")), (" -> " + s(e["q"])) if e.get("q") else "",
                    (":" + e["k"]) if e.get("k") else "",
                    "".join(" %s=%s" % (k, e[k]) for k in ("z", "mt", "v") if e.get(k))) for e in ev["e"]) + ")")
        return {"mode": "debug" if case["debug"] else "production", "tag": case.get("tag"), "regime": case.get("regime"),
                "files": sorted("%s:%s" % (s(f["p"]), f["k"]) for f in case["files"]),
                "calls": ["%s(%s)" % (o["o"], s(o["n"])) for o in case["ops"]],
                "schedule": sched, "parked_at": obs["steps"],
                "results": ["%s%s" % (t["class"], (":" + s(t["out"])) if t["class"] == "ok" else "") for t in (obs["threads"] or [])]}

    def shrink(self, case):
        ops, sched = case["ops"], case["sched"]
        # drop one call with all its steps
        for i in range(len(ops)):
            ns = []
            for ev in sched:
                t = ev_thread(ev)
                if t is None:
                    ns.append(ev)
                elif t != i:
                    ne = dict(ev)
                    ne["t" if ev.get("t") is not None else "c"] = t - (1 if t > i else 0)
                    ns.append(ne)
            yield dict(case, ops=ops[:i] + ops[i + 1:], sched=ns)
        # drop one edit event / one compile step
        for k, ev in enumerate(sched):
            if ev_thread(ev) is None or ev.get("c") is not None:
                yield dict(case, sched=sched[:k] + sched[k + 1:])
        # one call's compile steps replaced by the plain step that ends its load
        for i in range(len(ops)):
            ks = [k for k, ev in enumerate(sched) if ev.get("c") == i]
            if ks:
                yield dict(case, sched=[({"t": i} if k == ks[-1] else ev) for k, ev in enumerate(sched) if k not in ks[:-1]])
        # the plain file-identity regime
        if any(f.get("z") or f.get("mt") for f in case["files"]):
            yield dict(case, files=[{k: v for k, v in f.items() if k not in ("z", "mt")} for f in case["files"]])
        # drop one initial file (only if no later edit touches a path on its branch)
        touched = [dec(e[x]) for ev in sched if ev_thread(ev) is None for e in ev["e"] for x in ("p", "q") if e.get(x)]
        rmpage = any(e["a"] == "rmpage" for ev in sched if ev_thread(ev) is None for e in ev["e"])
        for k, f in enumerate(case["files"]):
            fp = dec(f["p"])
            if not rmpage and not any(t == fp or t.startswith(fp + "/") or fp.startswith(t + "/") for t in touched):
                yield dict(case, files=case["files"][:k] + case["files"][k + 1:])

    def model_expr(self):
        return "(model_says c, in_dom10 c, oracle10 c, mixed c)"

    def distribution(self, cases, obss):
        d = {"production": 0, "debug": 0, "streams": {}, "calls": 0, "renders": 0, "loads_full": 0, "loads_filtered": 0,
             "steps": 0, "edit_events": 0, "overlapping": 0, "sequential": 0, "result_classes": {},
             "park_points": {}, "file_kinds": {}, "page_dir_missing_at_start": 0, "stuck_steps": 0, "late_returns": 0,
             "goroutines_left_blocked": 0, "regimes": {}, "compile_steps": 0, "probes": 0,
             "cases_with_compile_steps": 0, "cases_with_probes": 0, "edit_kinds": {}, "writes_keeping_size": 0,
             "writes_setting_mtime": 0, "writes_by_rename": 0}
        for c, o in zip(cases, obss):
            d["debug" if c["debug"] else "production"] += 1
            tag = (c.get("tag") or "corpus").split("-")[0]
            d["streams"][tag] = d["streams"].get(tag, 0) + 1
            d["calls"] += len(c["ops"])
            for op in c["ops"]:
                if op["o"] == "render":
                    d["renders"] += 1
                elif op["n"] == "":
                    d["loads_full"] += 1
                else:
                    d["loads_filtered"] += 1
            d["edit_events"] += sum(1 for ev in c["sched"] if ev_thread(ev) is None)
            d["steps"] += sum(1 for ev in c["sched"] if ev.get("t") is not None)
            rg = c.get("regime") or "natural"
            d["regimes"][rg] = d["regimes"].get(rg, 0) + 1
            nc = sum(1 for ev in c["sched"] if ev.get("c") is not None)
            nb = sum(1 for ev in c["sched"] if ev.get("b"))
            d["compile_steps"] += nc
            d["probes"] += nb
            d["cases_with_compile_steps"] += bool(nc)
            d["cases_with_probes"] += bool(nb)
            for ev in c["sched"]:
                for e in (ev.get("e") or []):
                    d["edit_kinds"][e["a"]] = d["edit_kinds"].get(e["a"], 0) + 1
                    d["writes_keeping_size"] += bool(e.get("z"))
                    d["writes_setting_mtime"] += bool(e.get("mt"))
                    d["writes_by_rename"] += bool(e.get("v"))
            if self._overlap(c):
                d["overlapping"] += 1
            else:
                d["sequential"] += 1
            d["page_dir_missing_at_start"] += bool(c["nopage"])
            for k, v in kind_stats(c).items():
                d["file_kinds"][k] = d["file_kinds"].get(k, 0) + v
            for t in (o["threads"] or []):
                d["result_classes"][t["class"]] = d["result_classes"].get(t["class"], 0) + 1
                d["late_returns"] += bool(t.get("late"))
            for s in o["steps"] or []:
                d["park_points"][s] = d["park_points"].get(s, 0) + 1
                d["stuck_steps"] += s == "stuck"
            d["goroutines_left_blocked"] += o.get("leftover", 0)
        return d


PROP = C10()
