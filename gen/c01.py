# C01 — embedded JavaScript expressions evaluate as JavaScript does (core subset).
import tgen
from core import CoreProp, ser, de


TPL_PARTS = [b'"', b'say "', b'" ', b'""', b"\\", b"a\\b", b"\\\"", b"\n", b"l1\nl2", b"{{", b"}}", b"{", b"}} -}}", b"'", b"`", b"x", b" ",
             b"", b"", b"<b>", b"&"]


def template_literal(rng, env):
    """`lit${var}lit...`: literal parts from TPL_PARTS around variables of the data"""
    names = sorted(env.types) or [b"undefinedname"]
    parts = [rng.choice(TPL_PARTS)]
    for _ in range(rng.choice([1, 1, 2, 3])):
        parts.append(('id', rng.choice(names)))
        parts.append(rng.choice(TPL_PARTS))
    return ('tpl', parts)


class C01(CoreProp):
    id = "C01"
    prop_module = "Props.C01"
    prop_file = "Props/C01.v"
    coq_targets = ["Props/C01.vo", "Run/Judge_Core.vo", "Props/Tables.vo"]
    sizes = {"quick": 600, "thorough": 12000}
    design_ref = "DESIGN.md section 6/C01"
    rule = ("typed random expression trees over data variables, literals and var-declared variables (80% inside the "
            "property's domain by construction, 20% with off-domain mixes), printed as JS source with random redundant "
            "parentheses, wrapped in `= expr` (escaped buffered code), rendered by the real engine; 8% of the cases also print a "
            "template literal whose literal parts hold quotes, backslashes, line feeds and {{ }} (F-C01-h), half of them in a "
            "branch that is not taken; non-trivial = "
            "expression depth >= 2 and at least one variable; distinct by SHA-1 of the case. For the scalar fragment the agreement "
            "of compile + execute with S is a theorem (C01_compile_eval, C01_text); the run checks the model against the real engine "
            "there and carries the property for the heap constructs")
    trusted = [
        "M = Pug/Compile.v (renderExpression), Tmpl/Runtime.v (runtime.go, tpl_funcs.go, types.go helpers), Tmpl/Exec.v (tpl_exec.go): "
        "hand-written Gallina reading of the Go code, compared with the real engine on every case (output seam) ",
        "S = Spec/Sem.v: ECMA-262 semantics of the core subset on integers |n| < 10^10 and byte strings (ASCII where JavaScript counts UTF-16 units)",
        "the otto parser (JS source -> AST) is exercised, not modelled, here (C15 owns it): the case's AST is the generator's, the engine parses the printed source",
        "C01_compile_eval(_fuel,_safe) / C01_text / C01_text_cwrap / C01_print_code relate M's compile + execute stages to S for every scalar "
        "expression by induction (no sampling); they depend on Gen/OpsTable.v (the operator table extracted from transform_js_.go) and "
        "are re-checked when it changes",
    ]
    assumptions = [
        "numbers are integers with |n| < 10^10 at every intermediate step; division only when exact",
        "comparison/equality operands have equal JavaScript type; indices in range; measured/compared strings are ASCII",
        "listed deviations (KNOWN_FINDINGS.txt) are reported as KNOWN-FINDING, not judged as violations",
    ]
    not_yet_proved = [
        "C01_compile_eval is proved for the SCALAR fragment only (Proofs/C01EvalProofs.v scalar_core: number/string/boolean "
        "literals, template variables, + - * / % < > <= >= == === != !== && ||, ! and unary -, ?: at any nesting; the fuelled "
        "executor is shown to have enough fuel for nesting depth <= 56, or <= 79 without ?:). Still resting on the correspondence "
        "run: array and object literals, member access, index, Array/String method calls, template literals and null — i.e. the "
        "same induction under a heap relation between the engine's heap (Tmpl/Value.v heap) and S's (Spec/Sem.v jheap)",
        "the scalar theorems carry two explicit domain hypotheses the statement is false without (each has a vm_compute witness "
        "in Proofs/C01EvalProofs.v): dead_quiet — the operand of && || ?: that S evaluates for the domain check only raises no flag "
        "(dead_operand_refuted; implied by the syntactic dead_safe: operands that can be dead contain no +, C01_dead_safe) — and "
        "env_range_on — numbers held by variables are in range (data_range_refuted); the result relation is repu (an undefined that "
        "went through ?: is the engine's Nil, cond_undefined_refuted), and variables may be related by repu too (env_repu_on). "
        "The former third hypothesis rem_dom (`= 5 % n` printed <nil>) is gone: runtimeRem was repaired (b5830d2, witnesses "
        "corpus/C01/F-C01-g.json, F-C01-g-var.json) and the model follows the repaired code",
    ]

    def generate(self, rng, n, tier):
        cases = []
        for i in range(n):
            off = 0.5 if rng.random() < 0.2 else 0.0
            g = tgen.TGen(rng, offdomain=off, max_depth=5 if tier == "quick" else 7)
            data, env = g.data()
            nodes = []
            if rng.random() < 0.35:
                # a variable declared from an expression (boxed) or from a literal (Go native), then used
                t = rng.choice(['num', 'str', 'bool'])
                x = g.fresh()
                e0 = g.lit(t) if rng.random() < 0.5 else g.expr(env, t, 1)
                nodes.append(('code', [('vars', [('var', x, e0)])], False, False))
                env.types[x] = t
            if rng.random() < 0.08:
                # F-C01-h: a template literal whose literal parts hold quotes, backslashes, line feeds and template
                # delimiters.  S has no template literals: printed, it is judged against the model only; in a branch that
                # is not taken S prescribes the rest of the page, and a template that does not load is a violation
                tpl = ('code', [('expr', template_literal(rng, env))], True, True)
                nodes.append(tpl if rng.random() < 0.5 else ('cond', ('bool', False), [tpl], None))
            t = rng.choice(['num', 'str', 'bool', 'num', 'str'])
            nodes.append(('code', [('expr', g.expr(env, t))], True, True))
            cases.append({"nodes": ser(nodes), "datas": [ser(data)]})
        return cases

    def nontrivial(self, case, obs):
        nodes = de(case["nodes"])
        e = nodes[-1][1][0][1]
        return tgen.expr_depth(e) >= 2 and len(tgen.expr_vars(e)) >= 1


PROP = C01()
