# C05 — attributes of a tag: escaping, booleans/null, class merging, order, spread objects.
# A case is the list of attribute *sources* of one tag (see coq/Models/Attrs.v [asrc]); the generator
# turns it into a real pug AST (+ data) that the real engine renders; the judge gets the sources and Go's output.
import json
from common import *
import tmpl

# ---- abstract values: ["s", hex] ["n", int] ["b", bool] ["null"] ["undef"] ["arr", [scalar...]]
NAMES = ["id", "href", "title", "data-x", "data-Foo", "x", "y", "z", "a:b", "aria-label", "value", "k1", "k2", "k3",
         "k4", "k5", "alt", "name", "type", "checked", "disabled", "w.v", "_u", "at@r"]
PLAIN_WORDS = ["c1", "c2", "btn", "btn-primary", "a b", "x_y", "is-active", "col-3", "m:1", "p/2", "q=r", " lead", "trail ",
               "{{", "}}", "{{x}}", "", "(z)", "#h", "50%", "a  b"]
HOSTILE = [b'"', b"'", b"<", b">", b"&", b'"><script>alert(1)</script>', b"' onclick='x", b"&amp;", b"&lt;b&gt;", b"&#34;",
           b"a&b", b"&", b"&&", b"&#", b"&#3", b"&#34", b"&l", b"&lt", b"&am", b"{{.}}", b"{{ $x }}", b"}}", b"{{/*", b"<!--",
           b"-->", b"\\", b"\\\"", b"x\"y", b" x ", b"\t", b"\n", b" ", b"", b"\xc3\xa9", b"\xe2\x82\xac", b"=", b"a=b c=d",
           b"\" x=\"1", b"javascript:alert(1)", b"</div>", b"<div", b"`", b"\x7f", b"\x01", b"\xff\xfe", b"\xc2\xa0x\xc2\xa0",
           b"\r", b"a\rb", b"\x00", b"a\x00b", b"%!t(int=1)", b"true", b"false", b"null", b"0", b"-1"]
UTF8_LIT = [h for h in HOSTILE if b"\x00" not in h and b"\xff" not in h and b"${" not in h]


def rnd_bytes(rng, data_ok):
    r = rng.random()
    if r < 0.45:
        pool = HOSTILE if data_ok else UTF8_LIT
        return rng.choice(pool)
    if r < 0.7:
        pool = HOSTILE if data_ok else UTF8_LIT
        return b"".join(rng.choice(pool) for _ in range(rng.randint(2, 4)))
    if r < 0.85:
        return rng.choice(PLAIN_WORDS).encode()
    n = rng.choice([1, 2, 3, 5, 8, 20])
    if data_ok:
        return bytes(rng.choice([rng.randrange(1, 256), rng.choice(b"\"'<>& ")]) for _ in range(n))
    # (a literal never holds "${": the JS layer reads it as a template placeholder - not attribute code, see UTF8_LIT)
    return bytes(rng.choice([rng.randrange(32, 127), rng.choice(b"\"'<>& ")]) for _ in range(n)).replace(b"${", b"$ {")


def rnd_num(rng, lit):
    r = rng.random()
    if r < 0.5:
        z = rng.randint(0, 20)
    elif r < 0.8:
        z = rng.randint(0, 10 ** 6)
    elif r < 0.95:
        z = rng.choice([9999999999, 10 ** 9, 2 ** 31, 2 ** 32 + 1, 123456789])
    else:
        z = rng.choice([10 ** 10, 10 ** 12 + 1]) if rng.random() < 0.3 else 7      # not modelled (exponent notation)
    if not lit and rng.random() < 0.3:
        z = -z
    return z


def rnd_scalar(rng, lit, for_class=False, in_array=False):
    r = rng.random()
    if r < (0.55 if for_class else 0.4):
        if for_class and rng.random() < 0.7:
            return ["s", hx(rng.choice(PLAIN_WORDS))]
        return ["s", hx(rnd_bytes(rng, not lit))]
    if r < 0.6:
        return ["n", rnd_num(rng, lit)]
    if r < 0.78:
        if for_class:
            return ["b", False if rng.random() < 0.9 else True]
        return ["b", rng.random() < 0.5]
    if r < 0.9:
        return ["null"]
    return ["undef"]


def rnd_aval(rng, lit, name):
    if name == "class" and rng.random() < 0.4 or name != "class" and rng.random() < 0.02:
        return ["arr", [rnd_scalar(rng, lit, True, True) for _ in range(rng.choice([0, 1, 2, 3, 4, 6]))]]
    return rnd_scalar(rng, lit, name == "class")


def rnd_name(rng, p_class=0.3):
    return "class" if rng.random() < p_class else rng.choice(NAMES)


def rnd_attr(rng, p_class=0.3):
    name = rnd_name(rng, p_class)
    lit = rng.random() < 0.5
    r = rng.random()
    if r < 0.12:       # shorthand form .c1 / #id: unescaped plain string literal
        return ["attr", hx(name), ["s", hx(rng.choice([w for w in PLAIN_WORDS if w]))], False, True]
    if r < 0.15:       # F-C05-d: unescaped, not a string literal
        v = rnd_aval(rng, lit, name)
        if v[0] == "s" and lit:
            lit = False
        return ["attr", hx(name), v, False, lit]
    return ["attr", hx(name), rnd_aval(rng, lit, name), True, lit]


# ---- keys that a careless comparison cannot tell apart (the order of a spread object must depend on its contents only)
TIE_BASES = ["data-ref", "aria-label", "title", "data-x", "k", "ab", "x-y", "onclick", "v-on:click", "data-user-id"]


def tie_family(rng, n):
    """n distinct names that tie under some sloppy comparison: letter case ignored, separators ignored or taken for
    each other, only a prefix / only the length looked at, digits read as numbers"""
    base = rng.choice(TIE_BASES)
    kind = rng.choice(["case", "case", "case", "sep", "prefix", "length", "digits", "mixed"])
    out, tries = [], 0
    while len(out) < n and tries < 200:
        tries += 1
        k = kind if kind != "mixed" else rng.choice(["case", "sep", "prefix", "digits"])
        if k == "case":
            v = "".join(c.upper() if rng.random() < 0.5 else c for c in base)
        elif k == "sep":
            v = "".join(rng.choice("-_.:") if c in "-_.:" else c for c in (base if any(c in "-_.:" for c in base) else "a-b-c"))
        elif k == "prefix":
            v = base + rng.choice(["", "1", "2", "10", "-a", "-A", "_", "a", "A", "Z", "z"])
        elif k == "length":
            v = "".join(rng.choice("abAB-_") if c.isalpha() and rng.random() < 0.4 else c for c in base)
        else:
            v = base + rng.choice(["1", "01", "001", "10", "9", "2", "02"])
        if v not in out and v.lower() != "class" and v[0] not in "-_.:":
            out.append(v)
    return out


def rnd_key_names(rng, n, pool):
    """n distinct key names for a spread object / a mixin call: plain names, with a family of tying names in 45 %"""
    names = []
    if n >= 2 and rng.random() < 0.45:
        names = tie_family(rng, rng.randint(2, min(n, 6)))
    while len(names) < n:
        k = rng.choice(pool)
        if k not in names:
            names.append(k)
    rng.shuffle(names)
    return names


def rnd_entries(rng, n, lit=False):
    names = rnd_key_names(rng, n, NAMES + ["class", "class"])
    return [[hx(k), rnd_aval(rng, lit, k)] for k in names]


def shared_then_second(rng):
    """two values for one name (class): an array that lives in a variable (page data), so that every use of the tag /
    every call sees the very same array, followed by a second value that has to be merged with it"""
    words = rng.sample([w for w in PLAIN_WORDS if w.strip() and " " not in w and "{" not in w and "}" not in w], 5)
    first = ["arr", [["s", hx(w)] for w in words[:rng.choice([0, 1, 2, 2, 3])]]]
    r = rng.random()
    if r < 0.6:
        second = ["s", hx(words[3])]
    elif r < 0.85:
        second = ["arr", [["s", hx(words[3])]] + ([["s", hx(words[4])]] if rng.random() < 0.5 else [])]
    else:
        lit2 = rng.random() < 0.5
        return first, rnd_aval(rng, lit2, "class"), lit2
    return first, second, rng.random() < 0.5


def gen_case(rng, tier):
    maxlen = 12
    r = rng.random()
    n = rng.choice([0, 1, 1, 2, 2, 3, 3, 4, 5, 6, 8, 10, maxlen])
    p_class = rng.choice([0.1, 0.3, 0.6])
    srcs = [rnd_attr(rng, p_class) for _ in range(n)]
    if rng.random() < 0.4 and srcs:       # repeat a name
        for _ in range(rng.randint(1, 3)):
            a = rnd_attr(rng, 0)
            a[1] = rng.choice(srcs)[1]
            a[2] = rnd_aval(rng, a[4], unhx(a[1]).decode())
            if not a[3]:
                a[3] = True
            srcs.insert(rng.randint(0, len(srcs)), a)
    shared = False
    if rng.random() < 0.12:
        first, second, lit2 = shared_then_second(rng)
        i = rng.randint(0, len(srcs))
        srcs.insert(i, ["attr", hx("class"), first, True, False])
        srcs.insert(rng.randint(i + 1, len(srcs)), ["attr", hx("class"), second, True, lit2])
        shared = True
    if r < 0.3:
        srcs.append(["spread", False, rnd_entries(rng, rng.choice([0, 1, 2, 4, 5, 6, 8]))])
    elif r < 0.4:
        es = rnd_entries(rng, rng.choice([1, 2, 4, 5]), True)     # object literal: values are literals
        if rng.random() < 0.9:    # {k: null} does not compile to a well-formed call (JS transform, not attribute code)
            es = [[k, ["undef"] if v == ["null"] else v] for k, v in es]
        srcs.append(["spread", True, es])
    elif r < 0.65:
        atts = []
        na = rng.choice([0, 1, 2, 4, 5, 6, 8])
        fam = tie_family(rng, rng.randint(2, min(na, 6))) if na >= 2 and rng.random() < 0.4 else []
        for i in range(na):
            name = rnd_name(rng, 0.35)
            if fam and rng.random() < 0.7:
                name = fam.pop()
            lit = rng.random() < 0.6
            atts.append([hx(name), rnd_aval(rng, lit, name), lit])
        # non-class names unique (pug rejects duplicate attributes), now and then violated on purpose
        if rng.random() < 0.9:
            seen, out = set(), []
            for a in atts:
                if a[0] != hx("class") and a[0] in seen:
                    continue
                seen.add(a[0])
                out.append(a)
            atts = out
        if rng.random() < 0.4:
            first, second, lit2 = shared_then_second(rng)
            i = rng.randint(0, len(atts))
            atts.insert(i, [hx("class"), first, False])
            atts.insert(rng.randint(i + 1, len(atts)), [hx("class"), second, lit2])
            shared = True
        srcs.append(["mixin", atts])
    case = {"srcs": srcs}
    # the tag (or the mixin call) is used several times in one render - written out again, or inside an each loop -
    # and the page is rendered several times by the one engine of the process: every use sees the same variables /
    # page data / declared object, and every use must give the same attributes
    if not any(unescaped_nonliteral(s) for s in srcs):      # (F-C05-d output cannot be cut into uses reliably)
        r = rng.random()
        if r < (0.85 if shared else 0.55):
            case["uses"] = rng.choice([2, 2, 3, 3, 4, 6])
            case["style"] = rng.choice(["again", "each", "each_data"])
    if rng.random() < 0.5:
        case["renders"] = rng.choice([2, 3, 5])
    return case


def unescaped_nonliteral(s):
    return s[0] == "attr" and not s[3] and not (s[4] and s[2][0] == "s")


# ---- abstract case -> pug AST + data
def scalar_js(s, cnt):
    k = s[0]
    if k == "s":
        return ('str', unhx(s[1]))
    if k == "n":
        return ('num', s[1])
    if k == "b":
        return ('bool', s[1])
    if k == "null":
        return ('null',)
    cnt[0] += 1
    return ('id', 'nx%d' % cnt[0])      # a variable that does not exist


def scalar_data(s):
    k = s[0]
    if k == "s":
        return unhx(s[1])
    if k == "n":
        return s[1]
    if k == "b":
        return s[1]
    return None


def aval_js(v, cnt):
    if v[0] == "arr":
        return ('arr', [scalar_js(x, cnt) for x in v[1]])
    return scalar_js(v, cnt)


def aval_data(v):
    if v[0] == "arr":
        return [scalar_data(x) for x in v[1]]
    return scalar_data(v)


def expr_of(v, lit, data, cnt):
    """JS expression for value v: a literal, or a data variable holding it"""
    if lit or v[0] == "undef":
        return aval_js(v, cnt)
    cnt[0] += 1
    var = 'v%d' % cnt[0]
    data[var] = aval_data(v)
    return ('id', var)


def build(case, rng=None):
    data, cnt = {}, [0]
    attrs, ablocks, pre = [], [], []
    call = None
    for s in case["srcs"]:
        if s[0] == "attr":
            attrs.append((unhx(s[1]), expr_of(s[2], s[4], data, cnt), s[3]))
        elif s[0] == "spread":
            if s[1]:
                obj = ('obj', [(tmpl.js_string(unhx(k)), aval_js(v, cnt)) for k, v in s[2]])
                pre.append(('code', [('vars', [('var', 'o', obj)])], False, False))
            else:
                data['o'] = {unhx(k): aval_data(v) for k, v in s[2]}
            ablocks.append('o')
        else:
            call = ('call', 'm', [], [(unhx(a[0]), expr_of(a[1], a[2], data, cnt), True) for a in s[1]], [])
            ablocks.append('attributes')
    tag = ('tag', 'div', False, attrs, ablocks, [])
    use = call if call else tag
    uses, style = case.get("uses", 1), case.get("style", "again")
    if uses == 1:
        body = [use]
    elif style == "again":
        body = [use] * uses
    elif style == "each":
        body = [('each', 'u_', None, ('arr', [('num', i) for i in range(uses)]), [use])]
    else:
        data['us_'] = list(range(uses))
        body = [('each', 'u_', 'i_', ('id', 'us_'), [use])]
    nodes = pre + ([('mixin', 'm', [], [tag])] if call else []) + body
    t = tmpl.tmpl_case(nodes, data)
    t["uses"] = uses
    t["renders"] = case.get("renders", 1)
    return t


def split_uses(out, uses):
    """the output of one render cut into the `uses` pieces <div ...></div>; uncut if it is not of that form"""
    if uses == 1:
        return [out]
    parts = out.split(b"></div>")
    if len(parts) == uses + 1 and parts[-1] == b"":
        return [p + b"></div>" for p in parts[:-1]]
    return [out]


def renders_of(r):
    """all renders of one process"""
    return r.get("renders") or [{"class": r["class"], "out": r["out"], "tok_ok": r["tok_ok"], "toks": [r["tok_attrs"]]}]


# ---- Gallina
def scalar_coq(s):
    k = s[0]
    if k == "s":
        return b"(SStr " + cq_bytes(unhx(s[1])) + b")"
    if k == "n":
        return b"(SNum " + cq_Z(s[1]) + b")"
    if k == "b":
        return b"(SBool " + cq_bool(s[1]) + b")"
    return b"SNull" if k == "null" else b"SUndef"


def aval_coq(v):
    if v[0] == "arr":
        return b"(AArr " + cq_list([scalar_coq(x) for x in v[1]]) + b")"
    return b"(AOne " + scalar_coq(v) + b")"


def src_coq(s):
    if s[0] == "attr":
        return b"(SrcAttr " + cq_bytes(unhx(s[1])) + b" " + aval_coq(s[2]) + b" " + cq_bool(s[3]) + b" " + cq_bool(s[4]) + b")"
    if s[0] == "spread":
        return (b"(SrcSpread " + cq_bool(s[1]) + b" " +
                cq_list([cq_pair(cq_bytes(unhx(k)), aval_coq(v)) for k, v in s[2]]) + b")")
    return b"(SrcMixin " + cq_list([b"(" + cq_bytes(unhx(a[0])) + b", " + aval_coq(a[1]) + b", " + cq_bool(a[2]) + b")"
                                    for a in s[1]]) + b")"


def valid(case):
    """what a pug front end can produce / the T runner can carry: at most one spread, last"""
    kinds = [s[0] for s in case["srcs"]]
    return all(k == "attr" for k in kinds[:-1])


class C05(Prop):
    id = "C05"
    engine = "C05"
    judge_module = "Run.Judge_C05"
    prop_module = "Props.C05"
    prop_file = "Props/C05.v"
    coq_targets = ["Props/C05.vo", "Run/Judge_C05.vo"]
    sizes = {"quick": 600, "thorough": 30000}
    shard = 250
    design_ref = "DESIGN.md section 6 C05"
    PROCESSES = 3
    rule = ("one tag per case with 0-15 attribute sources: name=value attributes (literal or data; strings incl. all five "
            "specials, template delimiters, control and non-UTF-8 bytes; numbers; booleans; null; undefined; arrays for class; "
            "repeated names; shorthand-style unescaped literals), optionally followed by &attributes of a data map (0-8 keys), "
            "of an object literal, or of a mixin call's attributes. Keys of spread objects / mixin calls: in 40-45 % of the "
            "objects with two or more keys a family of 2-6 names that tie under a sloppy comparison (same but for letter case, "
            "separators - _ . : taken for each other, common prefix, same length, digit suffixes 1/01/10). Shared values: "
            "in 40 % of the mixin calls and 12 % of the plain tags class=<array held in page data> is followed by a second "
            "class value. About half of the cases (85 % of those with a shared array) USE the tag / the mixin call 2-6 "
            "times in one render (written out again, inside `each` over a literal, inside `each` over page data), so every "
            "use sees the same variables, page data and declared object; half of the cases are rendered 2, 3 or 5 times by "
            "the engine of the process; every case runs in 3 fresh processes. Every single use of every render of every "
            "process is judged (oracle on Go's own text and on the x/net/html token list of that use). non-trivial = at "
            "least two sources or a spread; distinct by SHA-1 of the case")
    trusted = ["pug front end not available offline: the generated AST follows pug-ast-spec (attrs with val = JS source, "
               "mustEscape; attributeBlocks; Mixin call attrs; Each)",
               "golang.org/x/net/html tokenizer as the second, independent reader of Go's output",
               "Number.String (big.Float %.10g) is modelled as decimal printing for |n| < 10^10 only; fmt %q and the template "
               "lexer's unquoting are modelled as identity on printable ASCII without quote and backslash",
               "the output of a render with k uses is cut into its k pieces at every `></div>` by gen/c05.py (split_uses); "
               "an output that is not k such pieces is handed to the judge uncut and rejected by its oracle"]
    assumptions = ["the records handed to __attrs are exactly what the model's lowering (lower_attr / and_attrs / map_params) "
                   "produces for the tag's sources: checked per case by the correspondence run, not proved",
                   "a data map reaches __and_attrs as a Map without explicit order, whose Keys() are sorted bytewise (repair "
                   "F-C05-c); the entries are given to the model in an arbitrary order (C05_spread_order: the order does not "
                   "matter to the model; every case is rendered in 3 fresh processes and up to 5 times per process, with key "
                   "families that differ only in letter case / separators)",
                   "the model describes ONE use of the tag; that a use is independent of earlier uses, calls and renders "
                   "(no value handed to a tag or a mixin call is changed by it) is not a theorem about the Go runtime but is "
                   "checked by the run: every use of every render must equal the single-use prediction",
                   "C05_spec holds on dom_C05: proper attribute names, values without NUL, integers below 10^10, no true among "
                   "class values, arrays only for class, unescaped attributes only with plain string literals (else F-C05-d), "
                   "distinct keys per spread object, non-class names of a mixin call distinct, no class entry repeating an "
                   "earlier one verbatim; outside it a case is judged only for agreement with the model (agree / drift / known "
                   "finding), never as a violation"]
    # C05_spec, C05_class_merge and C05_spread_order are proved for all source lists (Props/C05.v: C05_spec,
    # C05_spec_partial, C05_class_merge, C05_class_closed, C05_spread_order, C05_spread_order_src); where the faithful
    # model forces a hypothesis the witness is a theorem: C05_spec_refuted (F-C05-d, unescaped non-literal value),
    # C05_spec_dup_class_refuted (.a.a renders class="a": __attrs drops a class entry equal to an earlier one),
    # C05_spread_order_unrepaired_refuted (Keys() in Go map order, before the repair F-C05-c); further boundary
    # witnesses of dom_C05 in Proofs/AttrsProofs.v: ex_class_true_outside_domain, ex_nul_outside_domain,
    # ex_array_nonclass_outside_domain
    not_yet_proved = []

    def generate(self, rng, n, tier):
        return [gen_case(rng, tier) for _ in range(n)]

    def run(self, binary, cases, tmp, tier):
        tcs = [build(c) for c in cases]
        runs = [run_harness(binary, self.engine, tcs) for _ in range(self.PROCESSES)]   # fresh process each
        return [{"runs": [r[i] for r in runs]} for i in range(len(cases))]

    def emit(self, case, obs):
        runs = obs["runs"]
        uses = case.get("uses", 1)
        loaded = all(r["load"] == "ok" for r in runs)
        rs = [x for r in runs if r["load"] == "ok" for x in renders_of(r)]       # every render of every process
        ok = loaded and all(x["class"] == "ok" for x in rs)
        panic = loaded and all(x["class"] == "exec_panic" for x in rs)
        # every use of the tag in every render is one output for the judge, identical ones once
        outs, seen = [], set()
        for x in rs:
            if x["class"] == "ok":
                for o in split_uses(unhx(x["out"]), uses):
                    if o not in seen:
                        seen.add(o)
                        outs.append(o)
        tok_ok = all(x["tok_ok"] for x in rs)
        toks, seen = [], set()
        for x in rs:
            for t in x["toks"]:
                key = json.dumps(t, sort_keys=True)
                if key not in seen:
                    seen.add(key)
                    toks.append(cq_list([cq_pair(cq_bytes(unhx(a["name"])), cq_bytes(unhx(a["val"]))) for a in t]))
        return (b"{| srcs := " + cq_list([src_coq(s) for s in case["srcs"]]) +
                b"; go_ok := " + cq_bool(ok) + b"; go_panic := " + cq_bool(panic) +
                b"; go_outs := " + cq_list([cq_bytes(o) for o in outs]) +
                b"; tok_ok := " + cq_bool(tok_ok) + b"; tok_attrs := " + cq_list(toks) + b" |}")

    def nontrivial(self, case, obs):
        return len(case["srcs"]) >= 2 or any(s[0] != "attr" for s in case["srcs"])

    def sample(self, case, obs):
        t = build(case)
        r = obs["runs"][0]
        return {"ast": json.loads(unhx(list(t["files"].values())[0]).decode("utf-8", "replace")),
                "go_class": r["class"] if r["load"] == "ok" else r["load"],
                "go_out": unhx(r["out"]).decode("utf-8", "replace")}

    def shrink(self, case):
        extra = {k: v for k, v in case.items() if k != "srcs"}
        if case.get("renders", 1) > 1:
            yield {**{k: v for k, v in extra.items() if k != "renders"}, "srcs": case["srcs"]}
        if case.get("uses", 1) > 2:
            yield {**extra, "uses": 2, "srcs": case["srcs"]}
        if case.get("uses", 1) > 1:
            yield {"srcs": case["srcs"], **({"renders": case["renders"]} if "renders" in case else {})}
            if case.get("style") != "again":
                yield {**extra, "style": "again", "srcs": case["srcs"]}
        for c in self.shrink_srcs(case):
            yield {**extra, **c}

    def shrink_srcs(self, case):
        ss = case["srcs"]
        for i in range(len(ss)):
            yield {"srcs": ss[:i] + ss[i + 1:]}
        for i, s in enumerate(ss):
            if s[0] == "spread" and len(s[2]) > 0:
                for j in range(len(s[2])):
                    yield {"srcs": ss[:i] + [["spread", s[1], s[2][:j] + s[2][j + 1:]]] + ss[i + 1:]}
            if s[0] == "mixin" and len(s[1]) > 0:
                for j in range(len(s[1])):
                    yield {"srcs": ss[:i] + [["mixin", s[1][:j] + s[1][j + 1:]]] + ss[i + 1:]}
            if s[0] == "attr" and s[2][0] == "arr" and s[2][1]:
                for j in range(len(s[2][1])):
                    yield {"srcs": ss[:i] + [[s[0], s[1], ["arr", s[2][1][:j] + s[2][1][j + 1:]], s[3], s[4]]] + ss[i + 1:]}
            if s[0] == "attr" and s[2][0] == "s" and len(s[2][1]) > 2:
                raw = unhx(s[2][1])
                for cut in (raw[:len(raw) // 2], raw[len(raw) // 2:], raw[1:], raw[:-1]):
                    yield {"srcs": ss[:i] + [[s[0], s[1], ["s", hx(cut)], s[3], s[4]]] + ss[i + 1:]}

    def model_expr(self):
        return "model_says c"

    def distribution(self, cases, obss):
        d = {"sources": {}, "with_data_map_spread": 0, "with_object_literal_spread": 0, "with_mixin_attributes": 0,
             "with_repeated_name": 0, "with_class": 0, "with_array": 0, "with_unescaped": 0, "go_panic": 0,
             "go_load_error": 0, "order_differs_between_processes": 0, "value_kinds": {},
             "uses_per_render": {}, "use_style": {}, "renders_per_process": {}, "with_keys_equal_but_for_case": 0,
             "with_shared_array_next_to_second_class_used_twice": 0, "with_shared_object_used_twice": 0}
        for c, o in zip(cases, obss):
            ss = c["srcs"]
            k = str(len(ss))
            d["sources"][k] = d["sources"].get(k, 0) + 1
            names = [s[1] for s in ss if s[0] == "attr"]
            d["with_repeated_name"] += len(set(names)) < len(names)
            d["with_class"] += hx("class") in names
            u, rn = c.get("uses", 1), c.get("renders", 1)
            d["uses_per_render"][str(u)] = d["uses_per_render"].get(str(u), 0) + 1
            d["renders_per_process"][str(rn)] = d["renders_per_process"].get(str(rn), 0) + 1
            if u > 1:
                d["use_style"][c["style"]] = d["use_style"].get(c["style"], 0) + 1
            for s in ss:
                keys = [unhx(e[0]).decode() for e in (s[2] if s[0] == "spread" else s[1])] if s[0] != "attr" else []
                d["with_keys_equal_but_for_case"] += len({k.lower() for k in keys}) < len(set(keys))
                if u > 1 and s[0] != "attr":
                    d["with_shared_object_used_twice"] += 1
                if u > 1 and s[0] == "mixin":
                    cl = [a for a in s[1] if a[0] == hx("class")]
                    d["with_shared_array_next_to_second_class_used_twice"] += any(
                        a[1][0] == "arr" and not a[2] for a in cl[:-1])
            if u > 1:
                cl = [s for s in ss if s[0] == "attr" and s[1] == hx("class")]
                d["with_shared_array_next_to_second_class_used_twice"] += any(
                    s[2][0] == "arr" and not s[4] for s in cl[:-1])
            for s in ss:
                if s[0] == "spread":
                    d["with_object_literal_spread" if s[1] else "with_data_map_spread"] += 1
                elif s[0] == "mixin":
                    d["with_mixin_attributes"] += 1
                else:
                    d["with_array"] += s[2][0] == "arr"
                    d["with_unescaped"] += not s[3]
                    d["value_kinds"][s[2][0]] = d["value_kinds"].get(s[2][0], 0) + 1
            r = o["runs"]
            d["go_panic"] += r[0]["load"] == "ok" and r[0]["class"] == "exec_panic"
            d["go_load_error"] += r[0]["load"] != "ok"
            d["order_differs_between_processes"] += len({y["out"] for x in r for y in renders_of(x)} if all(
                x["load"] == "ok" for x in r) else {x["out"] for x in r}) > 1
        return d


PROP = C05()
