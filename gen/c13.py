# C13 — debug (pretty-source) mode changes white space only.
#
# Every case is one pug tree rendered by the real engine in production mode AND in debug mode (Engine.Debug, fresh engine
# per render) with one or two data values.  The case stream is the union of the template streams of the checks that share
# the template-pipeline model — C02 (control flow), C03 (mixins), C06 (static trees with delimiter-heavy texts, mixed
# programs) — and this property's own stream of white-space-heavy trees: texts with white space of every kind at their
# edges (the lexer's four bytes and two it must not trim: form feed, no-break space), block-level vs inline tags, nested
# block tags, pre / textarea / script (with line feeds, block-level children, code), multi-statement code lines
# (`- var a = 1; var b = 2`), doctype, the same inside if / each and inside mixin definitions and mixin blocks.
#
# DIRECTORY cases (class Dir): the rendered template is one of 2-4 files of a directory tree below template/page (same
# directory and sub-directories, names that are prefixes of each other) which one engine loads — production mode all at
# once, debug mode only the rendered name (and the names it is a prefix of), again on every render.  The files define
# mixins of the SAME names with different bodies / parameter lists, call them with blocks, end in escaped or raw code
# lines, carry doctypes; some start with an interpolated tag (compiled under whatever raw-mode flag the compiler holds
# before the file's first code node).  Every template of the directory is rendered in both modes, under both
# assignments of the file names (and creation orders) to the templates, optionally after renders of its siblings on the
# same engine.  The model compiles the rendered template on its own; the oracle compares Go's two outputs.
import json
import tgen
import tmpl
from core import CoreProp, ser, de, shrink_nodes
from common import unhx, hx, cq_bool
import c02
import c03
import c06

WS_TEXTS = [b" a ", b"  ", b"\n", b"\t x", b" \r\n", b"x", b"a b", b" lead", b"trail ", b" \n ", b"a\xc2\xa0", b"\x0c b",
            b"\xc2\xa0", b" \x0c", b"caf\xc3\xa9 ", b" {", b"} ", b"-", b" - ", b"\n\n", b"line1\nline2", b" x\ty ", b"\r", b"\t",
            b"1 < 2 ", b" & ", b"  two  words  ", b"{{", b" }} "]
BLOCK_TAGS = [b"div", b"p", b"ul", b"li", b"section", b"h1", b"pre", b"textarea", b"script", b"table", b"td", b"main"]
INLINE_TAGS = [b"span", b"b", b"i", b"a", b"em", b"q", b"code"]
VOID = [b"br", b"hr", b"img", b"input"]
SCRIPT_TEXTS = [b"var a = 1;", b"\n", b"a++;\n", b"f({})", b"if (a) { b() }", b" // c", b"x = 1;\ny = 2;", b"  "]
DOCTYPES = [b"html", b"xml"]


class W:
    """white-space-heavy trees"""

    def __init__(self, rng):
        self.rng = rng
        self.n = 0

    def fresh(self, p=b"w"):
        self.n += 1
        return p + str(self.n).encode()

    def text(self):
        return ('text', self.rng.choice(WS_TEXTS))

    def multi_code(self):
        r = self.rng
        k = r.random()
        a, b = self.fresh(), self.fresh()
        if k < 0.3:
            st = [('vars', [('var', a, ('num', r.choice([0, 1, 7])))]), ('vars', [('var', b, ('str', r.choice([b"s", b" s ", b""])))])]
        elif k < 0.45:
            st = [('vars', [('var', a, ('num', 1))]), ('expr', ('un', '++', ('id', a))), ('expr', ('id', a))]
        elif k < 0.6:
            st = [('expr', ('str', r.choice([b" a ", b"a", b"\n", b" "]))), ('expr', ('str', r.choice([b" b ", b"b", b"\t"])))]
        elif k < 0.72:
            st = [('vars', [('var', a, ('id', b"s"))]), ('expr', ('id', a)), ('expr', ('id', b"n"))]
        elif k < 0.82:
            st = [('vars', [('var', a, ('num', 2))]), ('expr', ('assign', ('id', a), ('bin', '+', ('id', a), ('num', 1)))),
                  ('expr', ('id', a))]
        elif k < 0.92:
            st = [('vars', [('var', a, ('num', 1)), ('var', b, ('num', 2))]), ('expr', ('bin', '+', ('id', a), ('id', b)))]
        else:
            # the if statement last: a `;` after its closing brace would be an empty statement, which the compiler rejects
            st = [('expr', ('str', b"|")),
                  ('if', ('id', b"p"), ('block', [('expr', ('str', b" T "))]), ('block', [('expr', ('str', b" F "))]))]
        esc = r.random() < 0.4
        return ('code', st, esc, r.random() < 0.5)

    def single_code(self):
        r = self.rng
        k = r.random()
        if k < 0.4:
            return ('code', [('expr', ('id', r.choice([b"s", b"n", b"p"])))], True, True)
        if k < 0.6:
            return ('code', [('expr', ('str', r.choice([b" lit ", b"lit", b"  "])))], r.random() < 0.5, True)
        if k < 0.8:
            x = self.fresh()
            return ('code', [('vars', [('var', x, ('str', b" v "))])], False, False)
        return ('code', [('expr', ('id', b"s"))], False, True)

    def script(self, depth):
        r = self.rng
        body = []
        for _ in range(r.choice([1, 2, 3])):
            k = r.random()
            if k < 0.5:
                body.append(('text', r.choice(SCRIPT_TEXTS)))
            elif k < 0.65:
                body.append(self.multi_code())
            elif k < 0.8 and depth > 0:
                body.append(('tag', r.choice([b"div", b"p"]), False, [], [], self.nodes(depth - 1, r.choice([0, 1, 2]))))
            elif k < 0.9:
                body.append(('tag', r.choice(INLINE_TAGS), True, [], [], [self.text()]))
            else:
                body.append(self.single_code())
        return ('tag', b"script", r.random() < 0.15, [], [], body)

    def nodes(self, depth, width):
        r = self.rng
        out = []
        for _ in range(width):
            k = r.random()
            if k < 0.3 or depth <= 0:
                out.append(self.text())
            elif k < 0.36:
                out.append(self.multi_code())
            elif k < 0.42:
                out.append(self.single_code())
            elif k < 0.46:
                out.append(('tag', r.choice(VOID), r.random() < 0.7, [], [], []))
            elif k < 0.5:
                out.append(self.script(depth))
            elif k < 0.53:
                out.append(('comment',))
            elif k < 0.56:
                out.append(('block', self.nodes(depth - 1, r.choice([1, 2]))))
            elif k < 0.63:
                alt = None
                if r.random() < 0.6:
                    alt = ('block', self.nodes(depth - 1, r.choice([1, 2])))
                out.append(('cond', r.choice([('id', b"p"), ('un', '!', ('id', b"p")), ('bin', '>', ('id', b"n"), ('num', 0))]),
                            self.nodes(depth - 1, r.choice([1, 2, 3])), alt))
            elif k < 0.69:
                v = self.fresh(b"it")
                body = self.nodes(depth - 1, r.choice([1, 2]))
                if r.random() < 0.6:
                    body.insert(r.randrange(len(body) + 1), ('code', [('expr', ('id', v))], True, True))
                out.append(('each', v, None, r.choice([('id', b"xs"), ('arr', [('num', 1), ('num', 2)]), ('id', b"none")]), body))
            else:
                inline = r.random() < 0.35
                name = r.choice(INLINE_TAGS if inline else BLOCK_TAGS)
                if name == b"script":
                    out.append(self.script(depth))
                    continue
                attrs = []
                if r.random() < 0.15:
                    attrs = [(b"class", ('str', r.choice([b"c", b" c d "])), True)]
                # the inline flag of the AST and the tag name are independent in real templates too (a div inside a span line)
                if r.random() < 0.1:
                    inline = not inline
                out.append(('tag', name, inline, attrs, [], self.nodes(depth - 1, r.choice([0, 1, 1, 2, 2, 3]))))
        return out

    def case(self, tier):
        r = self.rng
        depth = r.choice([1, 2, 2, 3, 3, 4, 5 if tier == "quick" else 7])
        nodes = self.nodes(depth, r.choice([1, 2, 2, 3, 4]))
        if r.random() < 0.3:
            # mixins: block-level tags and multi-statement code inside the definition and inside the block of a call
            name = r.choice([b"m", b"card"])
            body = self.nodes(min(depth, 2), r.choice([1, 2, 3]))
            if r.random() < 0.7:
                body.insert(r.randrange(len(body) + 1), ('mixinblock',))
            if r.random() < 0.5:
                body.insert(0, ('code', [('expr', ('id', b"a"))], True, True))
            if r.random() < 0.35:
                # the pug idiom `if block ... else ...`: what a mixin does when it is (not) given a block must be the
                # same in both modes
                body.append(('cond', ('id', b"block"), [self.text(), ('mixinblock',)], ('block', [self.text()])))
            nodes.insert(0, ('mixin', name, [b"a"], body))
            for _ in range(r.choice([1, 1, 2])):
                blk = self.nodes(min(depth, 2), r.choice([1, 2])) if r.random() < 0.7 else []
                call = ('call', name, [r.choice([('str', b" arg "), ('id', b"s"), ('num', 3)])], [], blk)
                pos = r.randrange(1, len(nodes) + 1)
                if r.random() < 0.4:
                    nodes.insert(pos, ('tag', r.choice([b"div", b"ul"]), False, [], [], [self.text(), call, self.text()]))
                else:
                    nodes.insert(pos, call)
        if r.random() < 0.25:
            nodes.insert(0, ('doctype', r.choice(DOCTYPES)))
        d1 = {b"p": r.random() < 0.5, b"n": r.choice([0, 1, 5]), b"s": r.choice([b" s ", b"s", b"", b"<b> "]),
              b"xs": [r.choice([0, 1, 2]) for _ in range(r.choice([0, 1, 3]))]}
        datas = [d1]
        if r.random() < 0.5:
            datas.append({b"p": not d1[b"p"], b"n": r.choice([0, 2]), b"s": r.choice([b"\n", b"t "]), b"xs": [7, 8]})
        return {"nodes": ser(nodes), "datas": [ser(d) for d in datas]}


MIXIN_POOL = [b"m", b"card", b"item", b"m1", b"m2"]       # m / card: also W's names; m1 / m2: also C03's names
FLAT_NAMES = [b"home", b"home2", b"about", b"a", b"ab", b"list", b"t"]
SUB_NAMES = [b"sub/home", b"sub/item", b"sub/deep/a", b"home/detail", b"a/b", b"sub/t", b"t/t"]
PARAM_LISTS = [[b"a"], [b"a"], [b"a", b"b"], [], [b"x"], [b"b", b"a"]]
ITAG_VALUES = [b"a&b", b"x<y", b"q\"r", b"b", b"i>"]


class Dir:
    """directory trees of templates which share mixin names (and everything else a compiler could carry between files)"""

    def __init__(self, rng):
        self.rng = rng
        self.w = W(rng)

    def datas(self):
        r = self.rng
        d1 = {b"p": r.random() < 0.5, b"n": r.choice([0, 1, 5]), b"s": r.choice([b" s ", b"s", b"<b> ", b"a&b"]),
              b"xs": [r.choice([0, 1, 2]) for _ in range(r.choice([0, 1, 3]))], b"tg": r.choice(ITAG_VALUES)}
        datas = [d1]
        if r.random() < 0.4:
            datas.append({b"p": not d1[b"p"], b"n": r.choice([0, 2]), b"s": r.choice([b"\n", b"t "]), b"xs": [7, 8],
                          b"tg": r.choice(ITAG_VALUES)})
        return datas

    def definition(self, name, idx):
        """one template's own version of the mixin `name`: its own tag, marker text, parameter list, block position"""
        r, w = self.rng, self.w
        params = list(r.choice(PARAM_LISTS))
        marker = name + b":" + str(idx).encode() + r.choice([b"", b" ", b"!"])
        inner = [('text', marker)]
        for p in params:
            if r.random() < 0.8:
                inner.append(('code', [('expr', ('id', p))], r.random() < 0.7, True))
        if r.random() < 0.3:
            inner.append(w.multi_code())
        body = [('tag', r.choice(INLINE_TAGS + BLOCK_TAGS[:6]), r.random() < 0.5, [], [], inner)]
        if r.random() < 0.5:
            body += w.nodes(1, r.choice([1, 2]))
        if r.random() < 0.7:
            body.insert(r.randrange(len(body) + 1), ('mixinblock',))
        if r.random() < 0.2:
            body.append(('mixinblock',))
        return ('mixin', name, params, body)

    def template(self, idx, shared, common_defs):
        """(nodes, itag, datas): definitions of the directory's shared mixin names first, then a body calling them"""
        r, w = self.rng, self.w
        depth = r.choice([1, 2, 2, 3])
        defs = []
        for name in shared:
            if name in common_defs:
                defs.append(common_defs[name])           # the `include` case: the same definition in every file
            elif r.random() < 0.94:
                defs.append(self.definition(name, idx))  # else: calls a mixin this file does not define
        nodes = w.nodes(depth, r.choice([0, 1, 2, 3]))
        for _ in range(r.choice([1, 1, 2, 3])):
            name = r.choice(shared)
            args = [r.choice([('str', b" arg "), ('id', b"s"), ('num', 3), ('id', b"n"), ('str', b"<&>")])
                    for _ in range(r.choice([0, 1, 1, 2]))]
            blk = w.nodes(min(depth, 2), r.choice([1, 2])) if r.random() < 0.6 else []
            call = ('call', name, args, [], blk)
            pos = r.randrange(len(nodes) + 1)
            if r.random() < 0.35:
                nodes.insert(pos, ('tag', r.choice([b"div", b"ul", b"section"]), False, [], [], [w.text(), call, w.text()]))
            else:
                nodes.insert(pos, call)
        nodes = defs + nodes
        if r.random() < 0.2:
            nodes.insert(0, ('doctype', r.choice(DOCTYPES)))
        if r.random() < 0.45:
            # the file ends in a code line: raw (`!= s`) or escaped — the raw-mode flag the compiler is left with
            nodes.append(('code', [('expr', ('id', r.choice([b"s", b"n"])))], r.random() < 0.45, True))
        itag = None
        if r.random() < 0.25:
            itag = ('itag', ('id', b"tg"), r.random() < 0.5, w.nodes(1, r.choice([0, 1, 2])))
        return nodes, itag, self.datas()

    def borrowed(self, tier):
        """a whole program of another stream as one file of the directory (C03's programs all define m1, m2, ...)"""
        r = self.rng
        k = r.random()
        if k < 0.4:
            c = self.w.case(tier)
        elif k < 0.85:
            c = c03.PROP.generate(r, 1, tier)[0]
        else:
            c = c06.PROP.gen_mixed(r, tier)
        return de(c["nodes"]), None, [de(d) for d in c["datas"][:2]]

    def names(self, k):
        r = self.rng
        shape = r.random()
        if shape < 0.4:
            pool = FLAT_NAMES                         # all in one directory
        elif shape < 0.8:
            pool = FLAT_NAMES + SUB_NAMES             # the page directory and sub-directories
        else:
            pool = SUB_NAMES                          # sub-directories only
        return r.sample(pool, k)

    def group(self, tier):
        """all cases of one directory: every template x both assignments of names / creation order"""
        r = self.rng
        k = r.choice([2, 2, 3, 3, 4])
        shared = r.sample(MIXIN_POOL[:3], r.choice([1, 1, 2]))
        common_defs = {}
        if r.random() < 0.15:
            common_defs[shared[0]] = self.definition(shared[0], 0)
        tpls = []
        kind = r.random()
        for i in range(k):
            if kind < 0.65 or (kind < 0.85 and i % 2 == 0):
                tpls.append(self.template(i + 1, shared, common_defs))
            else:
                tpls.append(self.borrowed(tier))
        names = self.names(k)
        cases = []
        for rev in (False, True):
            ns = names[::-1] if rev else names
            slots = list(zip(ns, tpls))               # template i lives in the file called ns[i]
            order = slots[::-1] if rev else slots     # creation order: the same (name, position) slots in both passes
            for i, (nm, (nodes, itag, datas)) in enumerate(slots):
                d = [{"name": n2.decode(), "nodes": None if n2 == nm else ser(t2[0]), "itag": None if n2 == nm else ser(t2[1])}
                     for n2, t2 in order]
                before = []
                if r.random() < 0.3:
                    before = [n2.decode() for n2 in r.sample([n for n in ns if n != nm], r.choice([1, min(2, k - 1)]))]
                cases.append({"nodes": ser(nodes), "datas": [ser(x) for x in datas], "name": nm.decode(),
                              "itag": ser(itag), "dir": d, "before": before})
        return cases


def itag_json(t):
    """('itag', expr, inline, [node]): pug's `#{expr} ...` — a tag whose name is computed (InterpolatedTag)"""
    return {"type": "InterpolatedTag", "expr": tmpl.s_(tmpl.js_src(t[1])), "isInline": t[2], "selfClosing": False, "attrs": [],
            "attributeBlocks": [], "block": {"type": "Block", "nodes": [tmpl.pug_json(x) for x in t[3]]}}


def file_text(nodes, itag):
    body = [tmpl.pug_json(n) for n in nodes]
    if itag:
        body.insert(0, itag_json(itag))
    return json.dumps({"type": "Block", "nodes": body}, ensure_ascii=False).encode('utf-8', 'surrogateescape')


def mixin_defs(nodes):
    return {n[1]: n for n in nodes if isinstance(n, tuple) and n[0] == 'mixin'}


def big_loop(nodes):
    """a while loop driven to thousands of iterations (C02's cap cases): two modes x 10^4 iterations inside Coq"""
    for n in nodes:
        if not isinstance(n, tuple):
            continue
        if n[0] == 'while':
            t = n[1]
            if t[0] == 'bin' and t[3][0] == 'num' and (t[3][1] >= 200 or t[2][0] == 'num'):
                return True      # bound in the thousands, or a test between two literals (never-ending: runs to the cap)
        for x in n[1:]:
            if isinstance(x, list) and big_loop([y for y in x if isinstance(y, tuple)]):
                return True
            if isinstance(x, tuple) and x and x[0] in ('block', 'cond') and big_loop([x]):
                return True
        if n[0] == 'case':
            for _, body in n[2]:
                if big_loop(body):
                    return True
    return False


def count_tags(nodes, acc):
    for n in nodes:
        if not isinstance(n, tuple):
            continue
        if n[0] == 'tag':
            nm = n[1].decode("utf-8", "replace")
            if nm in ("pre", "textarea", "script"):
                acc[nm] = acc.get(nm, 0) + 1
            acc["inline" if n[2] else "block"] = acc.get("inline" if n[2] else "block", 0) + 1
        if n[0] == 'code' and len(n[1]) > 1:
            acc["multi_statement_code"] = acc.get("multi_statement_code", 0) + 1
        for x in n[1:]:
            if isinstance(x, list):
                count_tags([y for y in x if isinstance(y, tuple)], acc)
            elif isinstance(x, tuple) and x and x[0] in ('block', 'cond'):
                count_tags([x], acc)
        if n[0] == 'case':
            for _, body in n[2]:
                count_tags(body, acc)
    return acc


SEP = b'     {{- "" -}}\n'
DIR_SHARE = 0.085     # of the generator's draws; a draw yields 4-8 cases: about 30% of the cases


class C13(CoreProp):
    id = "C13"
    engine = "C13"
    debug_mode = True
    judge_module = "Run.Judge_C13"
    prop_module = "Props.C13"
    prop_file = "Props/C13.v"
    coq_targets = ["Props/C13.vo", "Run/Judge_C13.vo", "Props/Tables.vo"]
    sizes = {"quick": 600, "thorough": 8000}
    shard = 48
    design_ref = "DESIGN.md section 6/C13"
    rule = ("every case is ONE template rendered by the real engine in production AND debug mode (fresh engine per render) with 1-2 "
            "data values. About 30% of the cases are DIRECTORY cases: the rendered template is one of 2-4 files of a tree below "
            "template/page (one directory, sub-directories, names that are prefixes of each other such as a / ab / a/b) loaded by "
            "one engine — production mode compiles all files in one LoadTemplates, debug mode compiles the rendered name alone "
            "(plus the names it is a prefix of) on every render. The files of one directory define mixins of the SAME names "
            "(m, card, item; C03's m1, m2, ...) with different tags, marker texts, parameter lists and block positions (15% of "
            "the directories: one identical shared definition, the `include` case; 6% of the definitions missing), call them "
            "with blocks holding block-level tags and multi-statement code, carry doctypes, end in raw (`!=`) or escaped code "
            "lines, and 25% of them start with an interpolated tag `#{tg}` (compiled under the raw-mode flag the compiler holds "
            "before the file's first code node; data values with & < > quote); about 25% of the files are whole programs of the W, "
            "C03 and C06 streams. EVERY template of a directory is a case of its own, under BOTH assignments of the file names "
            "(and creation orders) to the templates, 30% of them after renders of 1-2 siblings on the same engine. Siblings that "
            "do not load on their own in both modes are left out by the harness (reported). The model compiles the rendered "
            "template on its own, so an influence of a sibling is Go <> M in one mode and an oracle violation between the modes; "
            "cases starting with an interpolated tag (no constructor in the pug model) are judged by the oracle alone. "
            "The other 70%: 30% white-space-heavy trees of this property (texts with space/tab/CR/LF and form feed / no-break space at "
            "their edges, block vs inline tags (also with the AST's inline flag contradicting the name), nesting depth <= 5 quick / 7 "
            "thorough, pre / textarea / script with line feeds, block children and code, multi-statement code lines, doctype, "
            "comments, if / each around them, mixin definitions — a third of them ending in the idiom `if block ... else ...` — and mixin-call blocks containing block-level tags, calls with and without a block), 20% C06 static "
            "trees (delimiter-heavy texts), 15% C06 mixed programs, 18% C02 control-flow programs (without the 10^4-iteration cap "
            "cases), 17% C03 mixin programs — 40% of the borrowed programs are placed inside a block-level element, so that separators "
            "meet the trim markers of if / each / case / mixin actions; oracle on Go's own two outputs: ws_subseq debug prod (debug = prod minus bytes of "
            "' \\t\\r\\n'); non-trivial = the debug-mode template text contains at least one separator and both modes loaded; "
            "distinct by SHA-1 of the case")
    trusted = [
        "M = Pug/Compile.v with debug = true / false (transform_tag.go CommonTag.render, transform_js_.go JsExpr, the other "
        "transform_*.go), Tmpl/IR.v (lexer trimming at token level, parse.go block structure), Tmpl/Exec.v: the shared "
        "hand-written Gallina reading of the Go code, compared with the real engine in BOTH modes on every case "
        "(load outcome, output or error class; the emitted template text is an advisory seam)",
        "S = ws_subseq / erase_ws of Run/Judge_Core.v (white space = space, tab, CR, LF, the lexer's trim set); "
        "C13_ws_subseq_spec proves it equal to the inductive reading `a is b with white-space bytes deleted`",
        "the token-level trimming model (IR.lexed) stands for parse/lex.go's byte-level trimming; their agreement is C06's "
        "seam (Tmpl/Lexer.v), not re-proved here",
        "debug mode's refusal to load a template that calls an undefined mixin (pug_parser.go) is modelled in the judge "
        "(Run/Judge_C13.v debug_load_ok), outside the theorems (one mode fails: outside the property's statement)",
        "the pug front end is not available offline: ASTs are generated (isInline, mustEscape, multi-statement code as "
        "pug's `- a; b` lines)",
        "directory cases: M is a model of compiling ONE template; that the engine compiles every file of a directory tree "
        "independently of the others (pugjs/engine.go compileDir: a fresh renderState per file) is not a theorem but is "
        "checked by the correspondence run: harness/c13.go writes the whole tree, production loads all of it, and the judge "
        "compares each template's two renders with M's prediction for that template alone and with each other (oracle); "
        "directory-listing order is the file system's (os.File.Readdir): both assignments of names / creation orders are run",
        "interpolated tags (`#{expr}`) have no constructor in Pug/Ast.v: cases whose rendered file starts with one are "
        "judged by the oracle on Go's two outputs only (Run/Judge_C13.v judge_opaque, verdict unmodelled when it holds)",
    ]
    assumptions = [
        "theorem domain dom_C13: every code node with more than one statement contains a statement that emits a token in "
        "production mode (an expression, a non-empty var list or an if); without it debug mode alone turns an empty "
        "mixin-call body into a block of separators and the two token lists are no longer related by insertion only. "
        "All generated cases are in this domain; the oracle on Go's own outputs does not depend on it",
        "both renders succeed (the property's own hypothesis); a case where exactly one mode fails (e.g. debug mode's "
        "'mixin called but not found') is judged against the model only",
        "model after repair F-C13-a (fixes/0001-fix-debug-mode-no-longer-adds-line-feeds-to-a-script.patch): debug mode does not "
        "apply the multi-line script wrapper",
        "directory cases: a sibling file that does not load on its own in both modes is left out of the directory by the "
        "harness (a directory with such a file cannot be loaded by production mode at all: no successful render to compare); "
        "every render uses a fresh engine, with at most two renders of sibling templates before it",
        "a case whose PRODUCTION render (or load outcome) already differs from the core model M is counted as unmodelled and "
        "judged by the oracle only: agreement of M with production mode is the correspondence of C01-C06, which alarms there; a "
        "difference that shows in debug mode only (output, load outcome or emitted template text) is drift here",
    ]
    not_yet_proved = [
        "C13_main / C13_tokens WITHOUT the domain predicate dom_C13: for a code node with several statements that all compile to "
        "nothing (`- {}{}`) standing alone in the body of a mixin call, debug mode creates a block of separators where production "
        "passes no block, later blocks are numbered differently and the token lists are not related by insertion; the outputs "
        "are still equal on the witness (Proofs/C13Proofs.v ex_off_domain_outputs) — not refuted, not proved; the generators "
        "never produce such code (it needs a statement list without `;`), the oracle on Go's outputs does not depend on it",
        "no theorem covers the engine's loading of a directory tree (that the compile of one file is independent of the files "
        "compiled before it by the same LoadTemplates, and of earlier renders on the same engine): the theorems are about the "
        "compile of ONE template in the two modes; file independence is explored by the directory cases of the correspondence "
        "run only",
    ]

    # ---------------------------------------------------------------- generation
    def generate(self, rng, n, tier):
        cases = []
        w = W(rng)
        dirs = Dir(rng)
        while len(cases) < n:
            k = rng.random()
            if rng.random() < DIR_SHARE:
                # a directory of templates: 2k cases (every template x both name assignments)
                cases.extend(dirs.group(tier))
                continue
            if k < 0.30:
                c = w.case(tier)
            elif k < 0.50:
                c = c06.PROP.gen_static(rng, tier)
            elif k < 0.65:
                c = c06.PROP.gen_mixed(rng, tier)
            elif k < 0.83:
                c = c02.PROP.generate(rng, 1, tier)[0]
                if big_loop(de(c["nodes"])):
                    continue
            else:
                c = c03.PROP.generate(rng, 1, tier)[0]
            nodes = c["nodes"]
            if k >= 0.50 and rng.random() < 0.4:
                # the other checks' programs inside a block-level element: separators next to the trim markers of control actions
                nodes = de(nodes)
                head = [nodes[0]] if nodes and nodes[0][0] == 'doctype' else []
                rest = nodes[len(head):]
                wrapped = ('tag', rng.choice([b"div", b"section", b"pre", b"ul"]), False, [], [], rest)
                nodes = ser(head + ([w.text(), wrapped, w.text()] if rng.random() < 0.5 else [wrapped]))
            c = {"nodes": nodes, "datas": c["datas"][:2]}
            cases.append(c)
        return cases[:n]

    # ---------------------------------------------------------------- harness / judge formats
    def harness_case(self, case):
        datas = [tmpl.data_go(de(d)) for d in case["datas"]]
        if "dir" not in case:
            return {"files": [[hx("t"), hx(file_text(de(case["nodes"]), None))]], "render": hx("t"), "datas": datas, "before": []}
        files = []
        for f in case["dir"]:
            if f["nodes"] is None:
                files.append([hx(f["name"]), hx(file_text(de(case["nodes"]), de(case.get("itag"))))])
            else:
                files.append([hx(f["name"]), hx(file_text(de(f["nodes"]), de(f.get("itag"))))])
        return {"files": files, "render": hx(case["name"]), "datas": datas, "before": [hx(b) for b in case.get("before", [])]}

    def emit(self, case, obs):
        return (b"{| d_case := " + CoreProp.emit(self, case, obs) + b"; d_opaque := " + cq_bool(bool(case.get("itag"))) + b" |}")

    def shrink(self, case):
        out = []
        if "dir" in case:
            if case.get("before"):
                out.append(dict(case, before=[]))
            sibs = [i for i, f in enumerate(case["dir"]) if f["nodes"] is not None]
            for i in sibs:
                out.append(dict(case, dir=case["dir"][:i] + case["dir"][i + 1:],
                                before=[b for b in case.get("before", []) if b != case["dir"][i]["name"]]))
            if not sibs and not case.get("itag"):
                out.append({"nodes": case["nodes"], "datas": case["datas"]})      # the template alone, under the usual name
            for i in sibs:
                f = case["dir"][i]
                cands = []
                if f.get("itag"):
                    cands.append(dict(f, itag=None))
                for cand in list(shrink_nodes(de(f["nodes"])))[:40]:
                    cands.append(dict(f, nodes=ser(cand)))
                for g in cands:
                    out.append(dict(case, dir=case["dir"][:i] + [g] + case["dir"][i + 1:]))
        return out + CoreProp.shrink(self, case)

    # ---------------------------------------------------------------- evidence
    def nontrivial(self, case, obs):
        d = obs.get("debug") or {}
        return d.get("load") == "ok" and obs["prod"].get("load") == "ok" and SEP in unhx(d.get("code", ""))

    def sample(self, case, obs):
        s = CoreProp.sample(self, case, obs)
        d = obs.get("debug") or {}
        if "dir" in case:
            s["rendered_name"] = case["name"]
            s["directory"] = [f["name"] + ".ast.json" for f in case["dir"]]
            s["rendered_before_on_the_same_engine"] = case.get("before", [])
            s["starts_with_interpolated_tag"] = bool(case.get("itag"))
        s["emitted_template_debug"] = unhx(d.get("code", "")).decode("utf-8", "replace")[:800]
        s["go_output_debug"] = [unhx(r.get("out", "")).decode("utf-8", "replace")[:300] if r.get("class") == "ok" else r.get("class")
                                for r in (d.get("res") or [])][:2]
        return s

    def distribution(self, cases, obss):
        d = CoreProp.distribution(self, cases, obss)
        tags = {}
        seps = {}
        both_ok = differ = one_fails = load_diff = 0
        dropped = {}
        for c, o in zip(cases, obss):
            count_tags(de(c["nodes"]), tags)
            dbg = o.get("debug") or {}
            k = unhx(dbg.get("code", "")).count(SEP)
            b = "0" if k == 0 else "1-3" if k <= 3 else "4-10" if k <= 10 else ">10"
            seps[b] = seps.get(b, 0) + 1
            if (dbg.get("load") == "ok") != (o["prod"].get("load") == "ok"):
                load_diff += 1
            for rd, rp in zip(dbg.get("res") or [], o["prod"].get("res") or []):
                if rd.get("class") == "ok" and rp.get("class") == "ok":
                    both_ok += 1
                    od, op = unhx(rd.get("out", "")), unhx(rp.get("out", ""))
                    if od != op:
                        differ += 1
                    n = len(op) - len(od)
                    bb = "0" if n == 0 else "1-4" if n <= 4 else "5-20" if n <= 20 else ">20"
                    dropped[bb] = dropped.get(bb, 0) + 1
                elif (rd.get("class") == "ok") != (rp.get("class") == "ok"):
                    one_fails += 1
        dirs = {"cases": 0, "files_in_directory": {}, "with_sub_directories": 0, "name_is_prefix_of_a_sibling": 0,
                "sibling_defines_same_mixin_differently": 0, "sibling_defines_same_mixin_identically": 0,
                "sibling_ends_in_raw_code": 0, "rendered_starts_with_interpolated_tag": 0, "with_history_on_the_engine": 0,
                "siblings_left_out_not_loadable_alone": 0, "distinct_directories": 0}
        seen_dirs = set()
        for c, o in zip(cases, obss):
            if "dir" not in c:
                continue
            dirs["cases"] += 1
            k = str(len(c["dir"]))
            dirs["files_in_directory"][k] = dirs["files_in_directory"].get(k, 0) + 1
            if any("/" in f["name"] for f in c["dir"]):
                dirs["with_sub_directories"] += 1
            if any(f["name"] != c["name"] and f["name"].startswith(c["name"]) for f in c["dir"]):
                dirs["name_is_prefix_of_a_sibling"] += 1
            mine = mixin_defs(de(c["nodes"]))
            same = diff = raw = False
            for f in c["dir"]:
                if f["nodes"] is None:
                    continue
                ns = de(f["nodes"])
                for nm, dfn in mixin_defs(ns).items():
                    if nm in mine:
                        if dfn == mine[nm]:
                            same = True
                        else:
                            diff = True
                codes_ = [n for n in ns if n[0] == 'code']
                if codes_ and ns[-1][0] == 'code' and not ns[-1][2]:
                    raw = True
            dirs["sibling_defines_same_mixin_differently"] += diff
            dirs["sibling_defines_same_mixin_identically"] += same
            dirs["sibling_ends_in_raw_code"] += raw
            dirs["rendered_starts_with_interpolated_tag"] += bool(c.get("itag"))
            dirs["with_history_on_the_engine"] += bool(c.get("before"))
            dirs["siblings_left_out_not_loadable_alone"] += len(o.get("dropped") or [])
            seen_dirs.add(json.dumps(sorted(json.dumps([f["nodes"] if f["nodes"] is not None else c["nodes"],
                                                        f["itag"] if f["nodes"] is not None else c.get("itag")], sort_keys=True)
                                            for f in c["dir"])))
        dirs["distinct_directories"] = len(seen_dirs)
        d["directory_cases"] = dirs
        d.update({"constructs": tags, "separators_in_debug_template": seps, "render_pairs_both_ok": both_ok,
                  "render_pairs_outputs_differ": differ, "white_space_bytes_dropped_by_debug": dropped,
                  "render_pairs_one_mode_fails": one_fails, "cases_load_outcome_differs": load_diff})
        return d

    def model_expr(self):
        one = ("(fun dbg => (match model_toks dbg c with Some ts => Some (string_of_list_ascii (show_toks ts)) | None => None end, "
               "model_load dbg c, "
               "map (fun d => match model_out dbg c d with OOk o => (0, string_of_list_ascii o) | OPanic => (1, EmptyString) "
               "| OUnmod => (3, EmptyString) | OFuel => (4, EmptyString) end) (c_datas c)))")
        return "(let c := d_case c in (text_seam2 c, %s false, %s true))" % (one, one)


PROP = C13()
