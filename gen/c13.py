# C13 — debug (pretty-source) mode changes white space only.
#
# Every case is one pug tree rendered by the real engine in production mode AND in debug mode (Engine.Debug, fresh engine
# per render) with one or two data values.  The case stream is the union of the template streams of the checks that share
# the template-pipeline model — C02 (control flow), C03 (mixins), C06 (static trees with delimiter-heavy texts, mixed
# programs) — and this property's own stream of white-space-heavy trees: texts with white space of every kind at their
# edges (the lexer's four bytes and two it must not trim: form feed, no-break space), block-level vs inline tags, nested
# block tags, pre / textarea / script (with line feeds, block-level children, code), multi-statement code lines
# (`- var a = 1; var b = 2`), doctype, the same inside if / each and inside mixin definitions and mixin blocks.
import json
import tgen
import tmpl
from core import CoreProp, ser, de
from common import unhx
import c02
import c03
import c06

WS_TEXTS = [b" a ", b"  ", b"\n", b"\t x", b" \r\n", b"x", b"a b", b" lead", b"trail ", b" \n ", b"a\xc2\xa0", b"\x0c b",
            b"\xc2\xa0", b" \x0c", b"caf\xc3\xa9 ", b" {", b"} ", b"-", b" - ", b"\n\n", b"line1\nline2", b" x\ty ", b"\r", b"\t",
            b"1 < 2 ", b" & ", b"  two  words  ", b"{{", b" }} "]
BLOCK_TAGS = [b"div", b"p", b"ul", b"li", b"section", b"h1", b"pre", b"textarea", b"script", b"table", b"td", b"main"]
INLINE_TAGS = [b"span", b"b", b"i", b"a", b"em", b"q", b"code"]
VOID = [b"br", b"hr", b"img", b"input"]
SCRIPT_TEXTS = [b"var a = 1;", b"\n", b"a++;\n", b"f({})", b"if (a) { b() }", b" // c", b"x = 1;\ny = 2;", b"  "]
DOCTYPES = [b"html", b"xml"]


class W:
    """white-space-heavy trees"""

    def __init__(self, rng):
        self.rng = rng
        self.n = 0

    def fresh(self, p=b"w"):
        self.n += 1
        return p + str(self.n).encode()

    def text(self):
        return ('text', self.rng.choice(WS_TEXTS))

    def multi_code(self):
        r = self.rng
        k = r.random()
        a, b = self.fresh(), self.fresh()
        if k < 0.3:
            st = [('vars', [('var', a, ('num', r.choice([0, 1, 7])))]), ('vars', [('var', b, ('str', r.choice([b"s", b" s ", b""])))])]
        elif k < 0.45:
            st = [('vars', [('var', a, ('num', 1))]), ('expr', ('un', '++', ('id', a))), ('expr', ('id', a))]
        elif k < 0.6:
            st = [('expr', ('str', r.choice([b" a ", b"a", b"\n", b" "]))), ('expr', ('str', r.choice([b" b ", b"b", b"\t"])))]
        elif k < 0.72:
            st = [('vars', [('var', a, ('id', b"s"))]), ('expr', ('id', a)), ('expr', ('id', b"n"))]
        elif k < 0.82:
            st = [('vars', [('var', a, ('num', 2))]), ('expr', ('assign', ('id', a), ('bin', '+', ('id', a), ('num', 1)))),
                  ('expr', ('id', a))]
        elif k < 0.92:
            st = [('vars', [('var', a, ('num', 1)), ('var', b, ('num', 2))]), ('expr', ('bin', '+', ('id', a), ('id', b)))]
        else:
            # the if statement last: a `;` after its closing brace would be an empty statement, which the compiler rejects
            st = [('expr', ('str', b"|")),
                  ('if', ('id', b"p"), ('block', [('expr', ('str', b" T "))]), ('block', [('expr', ('str', b" F "))]))]
        esc = r.random() < 0.4
        return ('code', st, esc, r.random() < 0.5)

    def single_code(self):
        r = self.rng
        k = r.random()
        if k < 0.4:
            return ('code', [('expr', ('id', r.choice([b"s", b"n", b"p"])))], True, True)
        if k < 0.6:
            return ('code', [('expr', ('str', r.choice([b" lit ", b"lit", b"  "])))], r.random() < 0.5, True)
        if k < 0.8:
            x = self.fresh()
            return ('code', [('vars', [('var', x, ('str', b" v "))])], False, False)
        return ('code', [('expr', ('id', b"s"))], False, True)

    def script(self, depth):
        r = self.rng
        body = []
        for _ in range(r.choice([1, 2, 3])):
            k = r.random()
            if k < 0.5:
                body.append(('text', r.choice(SCRIPT_TEXTS)))
            elif k < 0.65:
                body.append(self.multi_code())
            elif k < 0.8 and depth > 0:
                body.append(('tag', r.choice([b"div", b"p"]), False, [], [], self.nodes(depth - 1, r.choice([0, 1, 2]))))
            elif k < 0.9:
                body.append(('tag', r.choice(INLINE_TAGS), True, [], [], [self.text()]))
            else:
                body.append(self.single_code())
        return ('tag', b"script", r.random() < 0.15, [], [], body)

    def nodes(self, depth, width):
        r = self.rng
        out = []
        for _ in range(width):
            k = r.random()
            if k < 0.3 or depth <= 0:
                out.append(self.text())
            elif k < 0.36:
                out.append(self.multi_code())
            elif k < 0.42:
                out.append(self.single_code())
            elif k < 0.46:
                out.append(('tag', r.choice(VOID), r.random() < 0.7, [], [], []))
            elif k < 0.5:
                out.append(self.script(depth))
            elif k < 0.53:
                out.append(('comment',))
            elif k < 0.56:
                out.append(('block', self.nodes(depth - 1, r.choice([1, 2]))))
            elif k < 0.63:
                alt = None
                if r.random() < 0.6:
                    alt = ('block', self.nodes(depth - 1, r.choice([1, 2])))
                out.append(('cond', r.choice([('id', b"p"), ('un', '!', ('id', b"p")), ('bin', '>', ('id', b"n"), ('num', 0))]),
                            self.nodes(depth - 1, r.choice([1, 2, 3])), alt))
            elif k < 0.69:
                v = self.fresh(b"it")
                body = self.nodes(depth - 1, r.choice([1, 2]))
                if r.random() < 0.6:
                    body.insert(r.randrange(len(body) + 1), ('code', [('expr', ('id', v))], True, True))
                out.append(('each', v, None, r.choice([('id', b"xs"), ('arr', [('num', 1), ('num', 2)]), ('id', b"none")]), body))
            else:
                inline = r.random() < 0.35
                name = r.choice(INLINE_TAGS if inline else BLOCK_TAGS)
                if name == b"script":
                    out.append(self.script(depth))
                    continue
                attrs = []
                if r.random() < 0.15:
                    attrs = [(b"class", ('str', r.choice([b"c", b" c d "])), True)]
                # the inline flag of the AST and the tag name are independent in real templates too (a div inside a span line)
                if r.random() < 0.1:
                    inline = not inline
                out.append(('tag', name, inline, attrs, [], self.nodes(depth - 1, r.choice([0, 1, 1, 2, 2, 3]))))
        return out

    def case(self, tier):
        r = self.rng
        depth = r.choice([1, 2, 2, 3, 3, 4, 5 if tier == "quick" else 7])
        nodes = self.nodes(depth, r.choice([1, 2, 2, 3, 4]))
        if r.random() < 0.3:
            # mixins: block-level tags and multi-statement code inside the definition and inside the block of a call
            name = r.choice([b"m", b"card"])
            body = self.nodes(min(depth, 2), r.choice([1, 2, 3]))
            if r.random() < 0.7:
                body.insert(r.randrange(len(body) + 1), ('mixinblock',))
            if r.random() < 0.5:
                body.insert(0, ('code', [('expr', ('id', b"a"))], True, True))
            nodes.insert(0, ('mixin', name, [b"a"], body))
            for _ in range(r.choice([1, 1, 2])):
                blk = self.nodes(min(depth, 2), r.choice([1, 2])) if r.random() < 0.7 else []
                call = ('call', name, [r.choice([('str', b" arg "), ('id', b"s"), ('num', 3)])], [], blk)
                pos = r.randrange(1, len(nodes) + 1)
                if r.random() < 0.4:
                    nodes.insert(pos, ('tag', r.choice([b"div", b"ul"]), False, [], [], [self.text(), call, self.text()]))
                else:
                    nodes.insert(pos, call)
        if r.random() < 0.25:
            nodes.insert(0, ('doctype', r.choice(DOCTYPES)))
        d1 = {b"p": r.random() < 0.5, b"n": r.choice([0, 1, 5]), b"s": r.choice([b" s ", b"s", b"", b"<b> "]),
              b"xs": [r.choice([0, 1, 2]) for _ in range(r.choice([0, 1, 3]))]}
        datas = [d1]
        if r.random() < 0.5:
            datas.append({b"p": not d1[b"p"], b"n": r.choice([0, 2]), b"s": r.choice([b"\n", b"t "]), b"xs": [7, 8]})
        return {"nodes": ser(nodes), "datas": [ser(d) for d in datas]}


def big_loop(nodes):
    """a while loop driven to thousands of iterations (C02's cap cases): two modes x 10^4 iterations inside Coq"""
    for n in nodes:
        if not isinstance(n, tuple):
            continue
        if n[0] == 'while':
            t = n[1]
            if t[0] == 'bin' and t[3][0] == 'num' and (t[3][1] >= 200 or t[2][0] == 'num'):
                return True      # bound in the thousands, or a test between two literals (never-ending: runs to the cap)
        for x in n[1:]:
            if isinstance(x, list) and big_loop([y for y in x if isinstance(y, tuple)]):
                return True
            if isinstance(x, tuple) and x and x[0] in ('block', 'cond') and big_loop([x]):
                return True
        if n[0] == 'case':
            for _, body in n[2]:
                if big_loop(body):
                    return True
    return False


def count_tags(nodes, acc):
    for n in nodes:
        if not isinstance(n, tuple):
            continue
        if n[0] == 'tag':
            nm = n[1].decode("utf-8", "replace")
            if nm in ("pre", "textarea", "script"):
                acc[nm] = acc.get(nm, 0) + 1
            acc["inline" if n[2] else "block"] = acc.get("inline" if n[2] else "block", 0) + 1
        if n[0] == 'code' and len(n[1]) > 1:
            acc["multi_statement_code"] = acc.get("multi_statement_code", 0) + 1
        for x in n[1:]:
            if isinstance(x, list):
                count_tags([y for y in x if isinstance(y, tuple)], acc)
            elif isinstance(x, tuple) and x and x[0] in ('block', 'cond'):
                count_tags([x], acc)
        if n[0] == 'case':
            for _, body in n[2]:
                count_tags(body, acc)
    return acc


SEP = b'     {{- "" -}}\n'


class C13(CoreProp):
    id = "C13"
    debug_mode = True
    judge_module = "Run.Judge_C13"
    prop_module = "Props.C13"
    prop_file = "Props/C13.v"
    coq_targets = ["Props/C13.vo", "Run/Judge_C13.vo"]
    sizes = {"quick": 600, "thorough": 8000}
    shard = 48
    design_ref = "DESIGN.md section 6/C13"
    rule = ("every case is rendered by the real engine in production AND debug mode (fresh engine per render) with 1-2 data values; "
            "streams: 30% white-space-heavy trees of this property (texts with space/tab/CR/LF and form feed / no-break space at "
            "their edges, block vs inline tags (also with the AST's inline flag contradicting the name), nesting depth <= 5 quick / 7 "
            "thorough, pre / textarea / script with line feeds, block children and code, multi-statement code lines, doctype, "
            "comments, if / each around them, mixin definitions and mixin-call blocks containing block-level tags), 20% C06 static "
            "trees (delimiter-heavy texts), 15% C06 mixed programs, 18% C02 control-flow programs (without the 10^4-iteration cap "
            "cases), 17% C03 mixin programs — 40% of the borrowed programs are placed inside a block-level element, so that separators "
            "meet the trim markers of if / each / case / mixin actions; oracle on Go's own two outputs: ws_subseq debug prod (debug = prod minus bytes of "
            "' \\t\\r\\n'); non-trivial = the debug-mode template text contains at least one separator and both modes loaded; "
            "distinct by SHA-1 of the case")
    trusted = [
        "M = Pug/Compile.v with debug = true / false (transform_tag.go CommonTag.render, transform_js_.go JsExpr, the other "
        "transform_*.go), Tmpl/IR.v (lexer trimming at token level, parse.go block structure), Tmpl/Exec.v: the shared "
        "hand-written Gallina reading of the Go code, compared with the real engine in BOTH modes on every case "
        "(load outcome, output or error class; the emitted template text is an advisory seam)",
        "S = ws_subseq / erase_ws of Run/Judge_Core.v (white space = space, tab, CR, LF, the lexer's trim set); "
        "C13_ws_subseq_spec proves it equal to the inductive reading `a is b with white-space bytes deleted`",
        "the token-level trimming model (IR.lexed) stands for parse/lex.go's byte-level trimming; their agreement is C06's "
        "seam (Tmpl/Lexer.v), not re-proved here",
        "debug mode's refusal to load a template that calls an undefined mixin (pug_parser.go) is modelled in the judge "
        "(Run/Judge_C13.v debug_load_ok), outside the theorems (one mode fails: outside the property's statement)",
        "the pug front end is not available offline: ASTs are generated (isInline, mustEscape, multi-statement code as "
        "pug's `- a; b` lines)",
    ]
    assumptions = [
        "theorem domain dom_C13: every code node with more than one statement contains a statement that emits a token in "
        "production mode (an expression, a non-empty var list or an if); without it debug mode alone turns an empty "
        "mixin-call body into a block of separators and the two token lists are no longer related by insertion only. "
        "All generated cases are in this domain; the oracle on Go's own outputs does not depend on it",
        "both renders succeed (the property's own hypothesis); a case where exactly one mode fails (e.g. debug mode's "
        "'mixin called but not found') is judged against the model only",
        "model after repair F-C13-a (fixes/0001-fix-debug-mode-no-longer-adds-line-feeds-to-a-script.patch): debug mode does not "
        "apply the multi-line script wrapper",
        "a case whose PRODUCTION render (or load outcome) already differs from the core model M is counted as unmodelled and "
        "judged by the oracle only: agreement of M with production mode is the correspondence of C01-C06, which alarms there; a "
        "difference that shows in debug mode only (output, load outcome or emitted template text) is drift here",
    ]
    not_yet_proved = [
        "C13_main / C13_tokens WITHOUT the domain predicate dom_C13: for a code node with several statements that all compile to "
        "nothing (`- {}{}`) standing alone in the body of a mixin call, debug mode creates a block of separators where production "
        "passes no block, later blocks are numbered differently and the token lists are not related by insertion; the outputs "
        "are still equal on the witness (Proofs/C13Proofs.v ex_off_domain_outputs) — not refuted, not proved; the generators "
        "never produce such code (it needs a statement list without `;`), the oracle on Go's outputs does not depend on it",
    ]

    # ---------------------------------------------------------------- generation
    def generate(self, rng, n, tier):
        cases = []
        w = W(rng)
        while len(cases) < n:
            k = rng.random()
            if k < 0.30:
                c = w.case(tier)
            elif k < 0.50:
                c = c06.PROP.gen_static(rng, tier)
            elif k < 0.65:
                c = c06.PROP.gen_mixed(rng, tier)
            elif k < 0.83:
                c = c02.PROP.generate(rng, 1, tier)[0]
                if big_loop(de(c["nodes"])):
                    continue
            else:
                c = c03.PROP.generate(rng, 1, tier)[0]
            nodes = c["nodes"]
            if k >= 0.50 and rng.random() < 0.4:
                # the other checks' programs inside a block-level element: separators next to the trim markers of control actions
                nodes = de(nodes)
                head = [nodes[0]] if nodes and nodes[0][0] == 'doctype' else []
                rest = nodes[len(head):]
                wrapped = ('tag', rng.choice([b"div", b"section", b"pre", b"ul"]), False, [], [], rest)
                nodes = ser(head + ([w.text(), wrapped, w.text()] if rng.random() < 0.5 else [wrapped]))
            c = {"nodes": nodes, "datas": c["datas"][:2]}
            cases.append(c)
        return cases

    # ---------------------------------------------------------------- evidence
    def nontrivial(self, case, obs):
        d = obs.get("debug") or {}
        return d.get("load") == "ok" and obs["prod"].get("load") == "ok" and SEP in unhx(d.get("code", ""))

    def sample(self, case, obs):
        s = CoreProp.sample(self, case, obs)
        d = obs.get("debug") or {}
        s["emitted_template_debug"] = unhx(d.get("code", "")).decode("utf-8", "replace")[:800]
        s["go_output_debug"] = [unhx(r.get("out", "")).decode("utf-8", "replace")[:300] if r.get("class") == "ok" else r.get("class")
                                for r in (d.get("res") or [])][:2]
        return s

    def distribution(self, cases, obss):
        d = CoreProp.distribution(self, cases, obss)
        tags = {}
        seps = {}
        both_ok = differ = one_fails = load_diff = 0
        dropped = {}
        for c, o in zip(cases, obss):
            count_tags(de(c["nodes"]), tags)
            dbg = o.get("debug") or {}
            k = unhx(dbg.get("code", "")).count(SEP)
            b = "0" if k == 0 else "1-3" if k <= 3 else "4-10" if k <= 10 else ">10"
            seps[b] = seps.get(b, 0) + 1
            if (dbg.get("load") == "ok") != (o["prod"].get("load") == "ok"):
                load_diff += 1
            for rd, rp in zip(dbg.get("res") or [], o["prod"].get("res") or []):
                if rd.get("class") == "ok" and rp.get("class") == "ok":
                    both_ok += 1
                    od, op = unhx(rd.get("out", "")), unhx(rp.get("out", ""))
                    if od != op:
                        differ += 1
                    n = len(op) - len(od)
                    bb = "0" if n == 0 else "1-4" if n <= 4 else "5-20" if n <= 20 else ">20"
                    dropped[bb] = dropped.get(bb, 0) + 1
                elif (rd.get("class") == "ok") != (rp.get("class") == "ok"):
                    one_fails += 1
        d.update({"constructs": tags, "separators_in_debug_template": seps, "render_pairs_both_ok": both_ok,
                  "render_pairs_outputs_differ": differ, "white_space_bytes_dropped_by_debug": dropped,
                  "render_pairs_one_mode_fails": one_fails, "cases_load_outcome_differs": load_diff})
        return d

    def model_expr(self):
        one = ("(fun dbg => (match model_toks dbg c with Some ts => Some (string_of_list_ascii (show_toks ts)) | None => None end, "
               "model_load dbg c, "
               "map (fun d => match model_out dbg c d with OOk o => (0, string_of_list_ascii o) | OPanic => (1, EmptyString) "
               "| OUnmod => (3, EmptyString) | OFuel => (4, EmptyString) end) (c_datas c)))")
        return "(text_seam2 c, %s false, %s true)" % (one, one)


PROP = C13()
