# C15 — the JavaScript snippet parser (otto/parser): accepts or rejects every input without
# crashing; supported-subset expressions yield the tree JavaScript precedence/associativity prescribe.
import json
import os
import subprocess
from concurrent.futures import ThreadPoolExecutor
from common import *

# ------------------------------------------------------------------ expression trees
# ("id",name) ("num",lit,value|None) ("str",quote,value-bytes-hex,printed-body-hex) ("bool",b) ("null",) ("this",)
# ("hole",) ("arr",[e]) ("obj",[(keykind,keytext-hex,keyvalue-hex,e)]) ("dot",e,name) ("idx",e,i) ("call",f,[a])
# ("new",f,[a],parens) ("pre",op,e) ("post",op,e) ("bin",op,l,r) ("cond",c,a,b) ("assign",op,l,r) ("seq",[e])

BIN_PREC = {"||": 4, "&&": 5, "|": 6, "^": 7, "&": 8,
            "==": 9, "!=": 9, "===": 9, "!==": 9,
            "<": 10, ">": 10, "<=": 10, ">=": 10, "instanceof": 10, "in": 10,
            "<<": 11, ">>": 11, ">>>": 11, "+": 12, "-": 12, "*": 13, "/": 13, "%": 13}
BIN_OPS = sorted(BIN_PREC)
ASSIGN_OPS = ["=", "+", "-", "*", "/", "%", "&", "|", "^", "<<", ">>", ">>>"]
PRE_OPS = ["!", "-", "+", "~", "typeof", "void", "delete"]
P_SEQ, P_ASSIGN, P_COND, P_UNARY, P_POSTFIX, P_NEW, P_CALL, P_PRIMARY = 1, 2, 3, 14, 15, 16, 17, 18

IDS = ["a", "b", "x", "y", "foo", "bar", "i", "$el", "_t", "item", "idx1", "let", "of", "get", "value", "T"]
DOTNAMES = IDS + ["length", "class", "new", "true", "in", "default", "$", "x1"]
KEYWORDS = ["if", "in", "do", "var", "for", "new", "try", "this", "else", "case", "void", "with", "while",
            "break", "catch", "throw", "return", "typeof", "delete", "switch", "default", "finally",
            "function", "continue", "debugger", "instanceof", "const", "class", "enum", "export",
            "extends", "import", "super", "true", "false", "null"]


def prec(e):
    k = e[0]
    if k == "seq":
        return P_SEQ
    if k == "assign":
        return P_ASSIGN
    if k == "cond":
        return P_COND
    if k == "bin":
        return BIN_PREC[e[1]]
    if k == "pre":
        return P_UNARY
    if k == "post":
        return P_POSTFIX
    if k == "new":
        return P_CALL if e[3] else P_NEW
    if k in ("call", "dot", "idx"):
        return P_CALL
    return P_PRIMARY


def is_lhs(e):
    return e[0] in ("id", "dot", "idx")


def has_call_on_spine(e):
    # a `new` callee is a MemberExpression: no call may appear on its left spine outside parentheses
    while True:
        if e[0] == "call":
            return True
        if e[0] in ("dot", "idx"):
            e = e[1]
            continue
        if e[0] == "new":
            return not e[3]   # new without () directly as callee would swallow the outer argument list
        return False


class ExprGen:
    def __init__(self, rng, maxdepth):
        self.rng = rng
        self.maxdepth = maxdepth

    def string(self):
        r = self.rng
        q = r.choice(['"', '"', "'", "'", "`"])
        n = r.choice([0, 1, 1, 2, 3, 5, 8])
        chars = []
        for _ in range(n):
            m = r.random()
            if m < 0.6:
                chars.append(r.choice("abcxyz XYZ019_-+*/<>=!?:;,.()[]{}&|^%~#@"))
            elif m < 0.7:
                chars.append(r.choice("'\"`\\"))
            elif m < 0.8:
                chars.append(r.choice("\n\r\t\x00\x08\x0b\x0c\x7f"))
            elif m < 0.93:
                chars.append(r.choice("é€ñ\u00a0\u2028\u2029\uffff\u0100\u07ff\u0800"))
            else:
                chars.append(chr(r.choice([0x80, 0xff, 0xd7ff, 0xe000, 0xfffd])))
        body = b""
        for idx, ch in enumerate(chars):
            o = ord(ch)
            nxt_digit = idx + 1 < len(chars) and chars[idx + 1] in "01234567"
            plain_ok = (o < 0x80 and ch not in (q, "\\", "\n", "\r")) or (o >= 0x80 and o not in (0x2028, 0x2029))
            forms = []
            if plain_ok:
                forms += ["plain"] * 6
            if o < 0x100:
                forms.append("x")
            forms.append("u")
            named = {"\n": "n", "\r": "r", "\t": "t", "\x08": "b", "\x0b": "v", "\x0c": "f"}
            if ch in named:
                forms += ["named"] * 3
            if ch in "'\"\\`" or (0x20 <= o < 0x7f and ch not in "bfnrtvxu01234567" and not ch.isdigit()):
                forms.append("bs")
            if o == 0 and not nxt_digit:
                forms += ["zero"] * 2
            if o < 0o400 and not nxt_digit:
                forms.append("oct")
            f = r.choice(forms)
            if f == "plain":
                body += ch.encode("utf-8")
            elif f == "x":
                body += b"\\x%02x" % o if r.random() < 0.5 else b"\\x%02X" % o
            elif f == "u":
                body += b"\\u%04x" % o if r.random() < 0.5 else b"\\u%04X" % o
            elif f == "named":
                body += b"\\" + named[ch].encode()
            elif f == "bs":
                body += b"\\" + ch.encode("utf-8")
            elif f == "zero":
                body += b"\\0"
            else:
                body += b"\\%o" % o
        value = "".join(chars).encode("utf-8")
        return ("str", q, value.hex(), body.hex())

    def number(self):
        r = self.rng
        m = r.random()
        if m < 0.6:
            v = r.choice([0, 1, 2, 3, 7, 10, 42, 255, 1000, 65536, 2 ** 31, 2 ** 53, 9223372036854775807])
            return ("num", str(v), v)
        if m < 0.7:
            v = r.randrange(0, 1 << r.choice([4, 8, 16, 32, 62]))
            return ("num", ("0x%x" if r.random() < 0.5 else "0X%X") % v, v)
        if m < 0.78:
            v = r.randrange(0, 512)
            return ("num", "0%o" % v, v)
        if m < 0.82:
            return ("num", r.choice(["9223372036854775808", "18446744073709551616", "0x8000000000000000",
                                      "01000000000000000000000"]), None)
        return ("num", r.choice(["1.5", "0.25", ".5", "1e3", "2E-2", "1.", "0.0", "3.14e+10", "0e0", "1e999"]), None)

    def leaf(self):
        r = self.rng
        m = r.random()
        if m < 0.4:
            return ("id", r.choice(IDS))
        if m < 0.65:
            return self.number()
        if m < 0.85:
            return self.string()
        return r.choice([("bool", True), ("bool", False), ("null",), ("this",)])

    def lhs(self, d):
        r = self.rng
        m = r.random()
        if d <= 0 or m < 0.5:
            return ("id", r.choice(IDS))
        if m < 0.75:
            return ("dot", self.expr(d - 1, member=True), r.choice(DOTNAMES))
        return ("idx", self.expr(d - 1, member=True), self.expr(d - 1))

    def expr(self, d, member=False):
        r = self.rng
        if d <= 0 or r.random() < 0.12:
            return self.leaf()
        m = r.random()
        if member:
            m = m * 0.4 + 0.6     # favour postfix/member forms where a member expression is wanted
        if m < 0.38:
            return ("bin", r.choice(BIN_OPS), self.expr(d - 1), self.expr(d - 1))
        if m < 0.46:
            return ("pre", r.choice(PRE_OPS), self.expr(d - 1))
        if m < 0.5:
            return (r.choice(["pre", "post"]), r.choice(["++", "--"]), self.lhs(d - 1))
        if m < 0.57:
            return ("cond", self.expr(d - 1), self.expr(d - 1), self.expr(d - 1))
        if m < 0.62:
            return ("assign", r.choice(ASSIGN_OPS), self.lhs(d - 1), self.expr(d - 1))
        if m < 0.65:
            return ("seq", [self.expr(d - 1) for _ in range(r.randint(2, 4))])
        if m < 0.72:
            return ("dot", self.expr(d - 1, member=True), r.choice(DOTNAMES))
        if m < 0.78:
            return ("idx", self.expr(d - 1, member=True), self.expr(d - 1))
        if m < 0.86:
            return ("call", self.expr(d - 1, member=True), [self.expr(d - 1) for _ in range(r.choice([0, 1, 1, 2, 3]))])
        if m < 0.9:
            args = [self.expr(d - 1) for _ in range(r.choice([0, 0, 1, 2]))]
            return ("new", self.expr(d - 1, member=True), args, bool(args) or r.random() < 0.6)
        if m < 0.95:
            es = []
            for _ in range(r.choice([0, 1, 2, 3, 5])):
                es.append(("hole",) if r.random() < 0.12 else self.expr(d - 1))
            return ("arr", es)
        kvs = []
        for _ in range(r.choice([0, 1, 2, 3])):
            km = r.random()
            if km < 0.5:
                k = r.choice(IDS + ["class", "if", "null", "true", "new"])
                kvs.append(("id", k.encode().hex(), k.encode().hex(), self.expr(d - 1)))
            elif km < 0.8:
                s = self.string()
                kvs.append(("str", (s[1].encode() + bytes.fromhex(s[3]) + s[1].encode()).hex(), s[2], self.expr(d - 1)))
            else:
                n = self.number()
                kvs.append(("num", n[1].encode().hex(), n[1].encode().hex(), self.expr(d - 1)))
        return ("obj", kvs)


# ------------------------------------------------------------------ canonical dump (same text as Parse.v / c15.go)

def dump(e):
    k = e[0]
    if k == "id":
        return "(id %s)" % e[1]
    if k == "num":
        return "(num %s %s)" % (e[1], "f" if e[2] is None else "i%d" % e[2])
    if k == "str":
        return "(str %s %s)" % ({'"': "d", "'": "s", "`": "b"}[e[1]], e[2])
    if k == "bool":
        return "(bool true)" if e[1] else "(bool false)"
    if k in ("null", "this", "hole"):
        return "(%s)" % k
    if k == "arr":
        return "(arr" + "".join(" " + dump(x) for x in e[1]) + ")"
    if k == "obj":
        return "(obj" + "".join(" (%s %s)" % (kv[2], dump(kv[3])) for kv in e[1]) + ")"
    if k == "dot":
        return "(dot %s %s)" % (dump(e[1]), e[2])
    if k == "idx":
        return "(idx %s %s)" % (dump(e[1]), dump(e[2]))
    if k in ("call", "new"):
        return "(%s %s%s)" % (k, dump(e[1]), "".join(" " + dump(x) for x in e[2]))
    if k in ("pre", "post"):
        return "(%s %s %s)" % (k, e[1], dump(e[2]))
    if k == "bin":
        return "(bin %s %s %s)" % (e[1], dump(e[2]), dump(e[3]))
    if k == "cond":
        return "(cond %s %s %s)" % (dump(e[1]), dump(e[2]), dump(e[3]))
    if k == "assign":
        return "(assign %s %s %s)" % (e[1], dump(e[2]), dump(e[3]))
    if k == "seq":
        return "(seq" + "".join(" " + dump(x) for x in e[1]) + ")"
    raise ValueError(k)


# ------------------------------------------------------------------ printer: token list with minimal parentheses
# according to ECMA-262 (11.1-11.14); `extra(rng)` says where to add redundant parentheses.

def toks(e, need, paren_p, rng, force=False):
    """tokens of e in a context that requires precedence >= need"""
    inner = toks_raw(e, paren_p, rng)
    if force or prec(e) < need or (rng is not None and e[0] != "hole" and rng.random() < paren_p):
        n = 1 if rng is None or rng.random() < 0.8 else 2
        return ["("] * n + inner + [")"] * n
    return inner


def toks_list(es, paren_p, rng):
    out = []
    for i, x in enumerate(es):
        if i:
            out.append(",")
        out += toks(x, P_ASSIGN, paren_p, rng)
    return out


def toks_raw(e, pp, rng):
    k = e[0]
    if k == "id":
        return [e[1]]
    if k == "num":
        return [e[1]]
    if k == "str":
        return [e[1].encode() + bytes.fromhex(e[3]) + e[1].encode()]
    if k == "bool":
        return ["true" if e[1] else "false"]
    if k in ("null", "this"):
        return [k]
    if k == "arr":
        out = ["["]
        es = e[1]
        for i, x in enumerate(es):
            if x[0] == "hole":
                out.append(",")
            else:
                out += toks(x, P_ASSIGN, pp, rng)
                if i + 1 < len(es) or (rng is not None and rng.random() < 0.15):
                    out.append(",")
        return out + ["]"]
    if k == "obj":
        out = ["{"]
        for i, kv in enumerate(e[1]):
            if i:
                out.append(",")
            out += [bytes.fromhex(kv[1]), ":"] + toks(kv[3], P_ASSIGN, pp, rng)
        if e[1] and rng is not None and rng.random() < 0.15:
            out.append(",")
        return out + ["}"]
    if k == "dot":
        # 1.x would scan "1." as a number
        return toks(e[1], P_CALL, pp, rng, force=e[1][0] == "num") + [".", e[2]]
    if k == "idx":
        return toks(e[1], P_CALL, pp, rng) + ["["] + toks(e[2], P_SEQ, pp, rng) + ["]"]
    if k == "call":
        return toks(e[1], P_CALL, pp, rng) + ["("] + toks_list(e[2], pp, rng) + [")"]
    if k == "new":
        callee = toks(e[1], P_CALL, pp, rng, force=has_call_on_spine(e[1]))
        return ["new"] + callee + ((["("] + toks_list(e[2], pp, rng) + [")"]) if e[3] else [])
    if k == "pre":
        return [e[1]] + toks(e[2], P_UNARY, pp, rng)
    if k == "post":
        return toks(e[2], P_CALL, pp, rng) + ["NOLT", e[1]]     # no line terminator before ++ / --
    if k == "bin":
        p = BIN_PREC[e[1]]
        return toks(e[2], p, pp, rng) + [e[1]] + toks(e[3], p + 1, pp, rng)
    if k == "cond":
        return (toks(e[1], 4, pp, rng) + ["?"] + toks(e[2], P_ASSIGN, pp, rng) + [":"] +
                toks(e[3], P_ASSIGN, pp, rng))
    if k == "assign":
        return toks(e[2], P_CALL, pp, rng) + [e[1] + "=" if e[1] != "=" else "="] + toks(e[3], P_ASSIGN, pp, rng)
    if k == "seq":
        out = []
        for i, x in enumerate(e[1]):
            if i:
                out.append(",")
            out += toks(x, P_ASSIGN, pp, rng)
        return out
    raise ValueError(k)


IDCH = set(b"abcdefghijklmnopqrstuvwxyzABCDEFGHIJKLMNOPQRSTUVWXYZ0123456789$_")
OPCH = set(b"+-*/%&|^<>=!~.")
WS_SAFE = [b" ", b" ", b" ", b"  ", b"\t", b"/* c */", b"/**/", b" /* a*b / c */ ", b"\x0b", b"\x0c"]
WS_NL = [b"\n", b"\n", b"\r\n", b" \n ", b"// c\n", b"//\n", b"/* x */\n"]


def tb(t):
    return t if isinstance(t, bytes) else t.encode()


def render(tokens, rng, ws_p, nl_ok=True, cr_p=0.0):
    """join tokens; a separator is forced where two tokens would fuse"""
    out = b""
    nolt = False
    prev = None
    for t in tokens:
        if t == "NOLT":
            nolt = True
            continue
        t = tb(t)
        if prev is not None:
            a, b = prev[-1], t[0]
            isnum = prev[0] in b"0123456789" or (prev[0] == 0x2e and len(prev) > 1)
            must = (a in IDCH and b in IDCH) or (a in OPCH and b in OPCH) or (isnum and (b in IDCH or b == 0x2e)) \
                or (a == 0x2e and b in b"0123456789")
            sep = b""
            if rng is None:
                sep = b" " if must else b""
            elif must or rng.random() < ws_p:
                m = rng.random()
                if nl_ok and not nolt and m < 0.18:
                    sep = rng.choice(WS_NL)
                elif nl_ok and not nolt and m < 0.18 + cr_p:
                    sep = b"\r"
                else:
                    sep = rng.choice(WS_SAFE)
                if rng.random() < 0.15:
                    sep += rng.choice(WS_SAFE)
                if sep[:1] == b"/" and a == 0x2f:
                    sep = b" " + sep                 # "/" followed by a comment would read as "//"
            out += sep
        out += t
        prev = t
        nolt = False
    return out


def print_expr(e, rng, paren_p, ws_p, stmt_start=True, cr_p=0.0):
    ts = toks(e, P_SEQ, paren_p, rng)
    first = tb(ts[0])
    if stmt_start and (first in (b"{", b"function") or (e[0] == "id" and False)):
        ts = ["("] + ts + [")"]
    return render(ts, rng, ws_p, cr_p=cr_p)


# ------------------------------------------------------------------ shrinking of trees

def children(e):
    k = e[0]
    if k in ("arr", "seq"):
        return [x for x in e[1] if x[0] != "hole"]
    if k == "obj":
        return [kv[3] for kv in e[1]]
    if k in ("dot", "pre", "post"):
        return [e[1]] if k == "dot" else [e[2]]
    if k == "idx":
        return [e[1], e[2]]
    if k in ("call", "new"):
        return [e[1]] + list(e[2])
    if k == "bin":
        return [e[2], e[3]]
    if k == "cond":
        return [e[1], e[2], e[3]]
    if k == "assign":
        return [e[2], e[3]]
    return []


def tup(x):
    if isinstance(x, list):
        # lists that are nodes (came back from JSON) become tuples; child lists stay lists
        if x and isinstance(x[0], str) and x[0] in ("id", "num", "str", "bool", "null", "this", "hole", "arr", "obj",
                                                       "dot", "idx", "call", "new", "pre", "post", "bin", "cond",
                                                       "assign", "seq"):
            return tuple(tup(y) for y in x)
        return [tup(y) for y in x]
    return x


def replace_sub(e, path, new):
    if not path:
        return new
    k = e[0]
    i = path[0]
    ch = children(e)
    target = ch[i]
    def rep(x):
        return replace_sub(x, path[1:], new) if x is target else x
    if k in ("arr", "seq"):
        return (k, [rep(x) for x in e[1]])
    if k == "obj":
        return (k, [(kv[0], kv[1], kv[2], rep(kv[3])) for kv in e[1]])
    if k == "dot":
        return (k, rep(e[1]), e[2])
    if k in ("pre", "post"):
        return (k, e[1], rep(e[2]))
    if k == "idx":
        return (k, rep(e[1]), rep(e[2]))
    if k == "call":
        return (k, rep(e[1]), [rep(x) for x in e[2]])
    if k == "new":
        return (k, rep(e[1]), [rep(x) for x in e[2]], e[3])
    if k == "bin":
        return (k, e[1], rep(e[2]), rep(e[3]))
    if k == "cond":
        return (k, rep(e[1]), rep(e[2]), rep(e[3]))
    if k == "assign":
        return (k, e[1], rep(e[2]), rep(e[3]))
    return e


def wellformed(e):
    k = e[0]
    if k in ("post",) or (k == "pre" and e[1] in ("++", "--")):
        if not is_lhs(e[2]):
            return False
    if k == "assign" and not is_lhs(e[2]):
        return False
    return all(wellformed(c) for c in children(e))


def subpaths(e, path=()):
    yield path
    for i, c in enumerate(children(e)):
        yield from subpaths(c, path + (i,))


def get_sub(e, path):
    for i in path:
        e = children(e)[i]
    return e


# ------------------------------------------------------------------ mutation and hostile streams

ALPHABET = [b"a", b"x", b"1", b"0", b"9", b" ", b"\n", b"\t", b"(", b")", b"[", b"]", b"{", b"}", b".", b",", b";",
            b":", b"?", b"+", b"-", b"*", b"/", b"%", b"&", b"|", b"^", b"<", b">", b"=", b"!", b"~", b"'", b'"',
            b"`", b"\\", b"$", b"_", b"++", b"--", b"&&", b"||", b"===", b">>>", b"+=", b" in ", b" new ", b"typeof ",
            b"var ", b"return ", b"this", b"null", b"true", b" instanceof ", b"void ", b"delete ", b"\r", b"\r\n",
            b"//", b"/*", b"*/", b"0x", b"1e", b".5", b"e", b"get ", b"function", b"&^", b"#", b"@", b"\x00", b"\x7f"]

HOT = (b"()[]{}.,;:?+-*/%&|^<>=!~'\"`\\$_ \n\r\t" + b"abcefnrtuvxyzABCDEFX0123456789" +
       b"\x00\x01\x08\x0b\x0c\x1f\x7f\x80\xa0\xbf\xc0\xc2\xc3\xe0\xe2\xed\xef\xf0\xf4\xf5\xff")

SNIPPETS = [b"\"abc", b"'a\\", b"`x\n", b"\"a\\\n b\"", b"'\\x4'", b"'\\x4g'", b"\"\\u12\"", b"\"\\u00e9\"", b"'\\0'", b"'\\08'",
            b"'\\8'", b"'\\377'", b"'\\400'", b"'\\u{1}'", b"\"\\\r\n\"", b"\"\\\r\"", b"'\\\xe2\x80\xa8'", b"'\xe2\x80\xa8'",
            b"/* abc", b"/*/", b"/**/", b"// x", b"//\xe2\x80\xa9a", b"/* \n */", b"a /*\n*/ ++", b"a\n++\nb", b"a\n++", b"a++\nb",
            b"0x", b"0xg", b"08", b"09.5", b"1e", b"1e+", b"1.e1", b".e1", b"1..x", b"1.x", b"3in x", b"0b1", b"00", b"1_0",
            b"\xc3\xa9", b"\xc3", b"\xed\xa0\x80", b"\xef\xbb\xbfa", b"a\xc2\xa0b", b"\xe2\x80\xa8", b"\xf4\x90\x80\x80",
            b"\\u0061", b"a\\u0062", b"\\", b"a.\\u0062", b"({get a(){}})", b"({get:1})", b"({set:1, get})", b"({a:1 b:2})",
            b"({+:1})", b"({'a\n:1})", b"({0x:1})", b"[,]", b"[,,a,,]", b"[a b]", b"f(a,)", b"f(,a)", b"new", b"new new a",
            b"new a.b(c).d", b"a?b:c?d:e", b"a?b", b"a=b=c", b"1=2", b"a+b=c", b"(a)=1", b"++1", b"1++", b"a++++", b"- -a", b"--a--",
            b"a in b", b"a instanceof", b"typeof", b"void typeof delete a", b"/re/", b"a / b / c", b"a /= 2", b"a /=/ 2",
            b"var", b"var a", b"var a = 1, b", b"var a b", b"var 1", b"return", b"return 1", b"a: b", b"if (a) b", b"{}", b"{a:1}",
            b"function f(){}", b"(function(){})", b"(function f(a,b){return a+b})(1,2)", b"(function(a,){})", b"(function(){",
            b"a;b", b"a\nb", b"a b", b";;", b";", b"", b" ", b"\n", b"a &^ b", b"a &^= b", b"a <<= b >>>= c", b"a === b !== c",
            b"class", b"let x", b"const x", b"this.x", b"null.x", b"true.false", b"a.1", b"a.'b'", b"a.", b"a..b", b"a[", b"a[]",
            b"a[1", b"a(", b"a(1", b"(", b")", b"]", b"}", b"a)", b"((a)", b"//# sourceMappingURL=data:application/json,e30=",
            b"\r+\n", b"1 +\r2\n", b"1 +\r\n2", b"a\r\n++b", b"1 + \r 2 \n"]

NESTERS = [(b"(", b")"), (b"[", b"]"), (b"{a:", b"}"), (b"!", b""), (b"-", b""), (b"a?", b":b"), (b"a?b:", b""),
           (b"new ", b""), (b"typeof ", b""), (b"f(", b")"), (b"a[", b"]"), (b"a=", b""), (b"a,", b""), (b"(function(){return ", b"})"),
           (b"a+", b""), (b"a<", b""), (b"'", b"'"), (b"/*", b""), (b"a.", b"")]


def mutate(src, rng):
    s = bytearray(src)
    for _ in range(rng.choice([1, 1, 1, 2, 3])):
        m = rng.random()
        pos = rng.randrange(len(s) + 1)
        if m < 0.3 and s:
            del s[min(pos, len(s) - 1)]
        elif m < 0.6:
            s[pos:pos] = rng.choice(ALPHABET)
        elif m < 0.75 and s:
            p = min(pos, len(s) - 1)
            s[p:p + 1] = rng.choice(ALPHABET)
        elif m < 0.82 and len(s) > 1:
            p = rng.randrange(len(s) - 1)
            s[p], s[p + 1] = s[p + 1], s[p]
        elif m < 0.9 and s:
            a = rng.randrange(len(s))
            b = min(len(s), a + rng.randint(1, 6))
            s[pos:pos] = s[a:b]
        elif m < 0.95:
            s = s[:pos]
        else:
            s = s[pos:]
    return bytes(s)


def soup(rng, n):
    m = rng.random()
    if m < 0.35:
        return bytes(rng.choice(HOT) for _ in range(n))
    if m < 0.5:
        return bytes(rng.randrange(256) for _ in range(n))
    if m < 0.8:
        out = b""
        while len(out) < n:
            out += rng.choice(SNIPPETS) + rng.choice([b"", b" ", b"\n", b";", b","])
        return out
    out = b""
    while len(out) < n:
        out += rng.choice(ALPHABET)
    return out


def nest(rng, depth, close=None):
    o, c = rng.choice(NESTERS)
    if rng.random() < 0.3:
        o2, c2 = rng.choice(NESTERS)
        o, c = o + o2, c2 + c
    close = rng.random() < 0.6 if close is None else close
    core = rng.choice([b"a", b"1", b"", b"'s'"])
    return o * depth + core + (c * depth if close else b"")


# ------------------------------------------------------------------ the property

CLASSES = {"ok": 0, "err": 1, "panic": 2, "timeout": 3}
JUDGE_MAX = 2500        # larger inputs are observed only (extra), not run through the model
BIG_QUICK = 10000       # never larger in the quick tier (a 10^6-deep nesting kills the process: F-C15-c)
BIG_THOROUGH = 100000   # only in a child process under ulimit -v and a timeout


def mk(mode, src, stream, want=None, tree=None, params=b""):
    c = {"mode": mode, "params": hx(params), "src": hx(src), "stream": stream}
    if want is not None:
        c["want"] = hx(want)
    if tree is not None:
        c["tree"] = tree
    return c


def func_want(stmts_dump):
    return "(prog (expr (fun - () (%s))))" % "".join(stmts_dump)


class C15(Prop):
    id = "C15"
    engine = "C15"
    judge_module = "Run.Judge_C15"
    prop_module = "Props.C15"
    prop_file = "Props/C15.v"
    coq_targets = ["Props/C15.vo", "Run/Judge_C15.vo"]
    sizes = {"quick": 1800, "thorough": 36000}
    shard = 250
    design_ref = "DESIGN.md section 6 C15"
    rule = ("stream 1 (40%): generated expression trees of the supported subset (depth <= 8 quick / 14 thorough) printed "
            "with minimal parentheses plus random redundant parentheses, white space, line breaks and comments, through "
            "ParseFile and (as `return e` / statement lists) ParseFunction; oracle = the generator's own tree; "
            "stream 2 (30%): 1-3 byte-level mutations of those texts over the subset alphabet, Go vs model on tree / error; "
            "stream 3 (30%): arbitrary bytes, invalid UTF-8, unterminated literals, every escape form, nesting up to 600 deep "
            "(judged), plus inputs up to 10^4 bytes (quick) observed only: must return, no panic, same answer twice. "
            "non-trivial = at least 3 bytes; distinct by SHA-1 of the case")
    trusted = [
        "M (coq/Js/Lex.v, coq/Js/Parse.v) is a hand-written reading of otto/parser lexer.go, expression.go, statement.go, "
        "parser.go for the supported subset (one Gallina definition per Go function, open recursion closed on fuel); it "
        "stops at the first recorded error (answer class only: tree / error; no messages, no positions)",
        "PARTIAL: crash freedom and termination of the Go code itself (run-time panics such as nil dereference or index "
        "out of range, stack exhaustion, syntax outside the model) are OBSERVED - every parse runs under recover() and a "
        "watchdog, twice; inputs above 10^4 bytes in a child process under ulimit -v - not proved; the theorems "
        "C15_fuel / C15_no_model_panic are statements about M",
        "the harness's AST dump (harness/c15.go) and the generator's printer/dump (gen/c15.py, an independent statement "
        "of ECMA-262 precedence used as the oracle of stream 1) are trusted to be written correctly; a mistake shows up "
        "as an alarm, not as silence",
        "the judge's reject-oracle (balanced brackets / closed literals, Run/Judge_C15.v bal) only turns a Go-vs-model "
        "disagreement into a violation; acceptance of non-JavaScript by both (an object key may be any token) is a "
        "reproduced quirk, not part of C15",
    ]
    assumptions = [
        "outside the model (POutside, counted as unmodelled): regular expression literals, statements other than "
        "expression / var / return / empty, labels, getters/setters, &^=, identifier escapes, non-ASCII characters "
        "outside strings and comments, U+2028/9 in comments, inline source maps",
        "scope.allowIn is constantly true in the model (it is false only inside a for-statement head, outside the model)",
        "the nesting limit of 100000 levels (repair of F-C15-c) is not modelled; inputs shorter than 100000 bytes cannot "
        "reach it (the judged inputs are at most 2500 bytes)",
        "invalid UTF-8 is modelled as one whole-text test (read() records an error for every malformed sequence and the "
        "parser reads the text strictly left to right)",
    ]
    not_yet_proved = [
        "the round-trip theorems quantify over the subset wf (Js/Show.v): identifiers, decimal integer literals, string "
        "literals of plain ASCII characters in any of the three quotes, true/false/null/this, array and object literals "
        "without elisions, member/index/call/new, all unary, postfix, binary, conditional, assignment and comma "
        "operators, to any depth; hex/octal/float literals, escape sequences, non-ASCII strings, elisions, function "
        "literals and statement lists are covered by the correspondence streams only",
        "the printers separate tokens by single spaces; arbitrary white space, comments and redundant parentheses "
        "(beyond the minimal and the fully parenthesised form) are covered by the correspondence streams only",
        "the theorems are about the model M; that the Go code computes what M computes is checked per run on generated "
        "cases, not proved",
    ]

    # -------------------------------------------------------------- generation
    def gen_expr_case(self, rng, tier):
        maxd = 8 if tier == "quick" else 14
        while True:
            d = rng.choice([1, 2, 2, 3, 3, 4, 5, 6, maxd])
            e = ExprGen(rng, d).expr(d)
            if len(dump(e)) <= 6000:       # keeps the printed text below about 3 kB (the judge runs the model on it)
                return e

    def case_from_tree(self, e, rng, mode=None):
        paren_p = rng.choice([0, 0, 0.05, 0.15, 0.3])
        ws_p = rng.choice([0, 0.2, 0.5, 1.0])
        cr_p = rng.choice([0, 0, 0.03])
        mode = mode or ("file" if rng.random() < 0.7 else "func")
        if mode == "file":
            src = print_expr(e, rng, paren_p, ws_p, True, cr_p)
            want = "(prog (expr %s))" % dump(e)
        else:
            body = print_expr(e, rng, paren_p, ws_p, False, cr_p)
            src = b"return " + body + rng.choice([b"", b";", b" ", b"\n"])
            want = func_want(["(return %s)" % dump(e)])
        return mk(mode, src, 1, want.encode(), tree=e)

    def gen_stmts_case(self, rng, tier):
        # statement lists for ParseFunction / ParseFile: var, expression statements, return, empty
        n = rng.randint(1, 4)
        parts, dumps = [], []
        mode = rng.choice(["file", "func"])
        for i in range(n):
            m = rng.random()
            e = ExprGen(rng, 3).expr(rng.randint(0, 3))
            txt = print_expr(e, rng, 0.05, 0.3, True)
            if m < 0.3:
                names = rng.sample(IDS, rng.randint(1, 3))
                ds, dd = [], []
                for x in names:
                    if rng.random() < 0.7:
                        e2 = ExprGen(rng, 2).expr(rng.randint(0, 2))
                        ds.append(x.encode() + b" = " + render(toks(e2, P_ASSIGN, 0, None), None, 0))
                        dd.append("(%s %s)" % (x, dump(e2)))
                    else:
                        ds.append(x.encode())
                        dd.append("(%s)" % x)
                parts.append(b"var " + b", ".join(ds) + rng.choice([b";", b";\n", b"\n"]))
                dumps.append("(var %s)" % " ".join(dd))
            elif m < 0.4:
                parts.append(b";")
                dumps.append("(empty)")
            elif m < 0.6 and mode == "func" and i == n - 1:
                parts.append(b"return " + txt + rng.choice([b"", b";"]))
                dumps.append("(return %s)" % dump(e))
            else:
                if e[0] == "id":
                    e = ("pre", "!", e)         # `x` followed by a line break and `:`-less text is fine, but keep it simple
                    txt = print_expr(e, rng, 0, 0.3, True)
                parts.append(txt + rng.choice([b";", b";\n", b" ;", b"\n"]))
                dumps.append("(expr %s)" % dump(e))
        src = b"".join(parts)
        # a statement that ends with a line break must not be continued by the next one
        ok = True
        for a, b in zip(parts, parts[1:]):
            if not a.rstrip(b" \n").endswith(b";") and b[:1] in b"([+-/.*%&|^<>=!?:,;`'\"" + b"i":
                ok = False
            # otto does not end a statement at a line break after a keyword used as a property name
            # (x.in, x.new: insertSemicolon is left as it was); not part of the claimed subset
            if not a.rstrip(b" \n").endswith(b";") and any(a.rstrip(b" \n").endswith(k.encode()) for k in KEYWORDS):
                ok = False
        if not ok:
            src = b"".join(p if p.rstrip(b" \n").endswith(b";") else p.rstrip(b"\n") + b";\n" for p in parts)
        if mode == "file":
            want = "(prog%s)" % "".join(" " + d for d in dumps)
        else:
            want = func_want(dumps)
        return mk(mode, src, 1, want.encode())

    def gen_hostile(self, rng, tier):
        m = rng.random()
        if m < 0.45:
            src = soup(rng, rng.choice([1, 2, 3, 5, 8, 13, 21, 40, 80, 200]))
        elif m < 0.75:
            src = nest(rng, rng.choice([1, 2, 3, 5, 10, 30, 100, 300, 600]))
            if len(src) > JUDGE_MAX:
                src = src[:JUDGE_MAX]
        else:
            e = self.gen_expr_case(rng, tier)
            src = print_expr(e, rng, 0.1, 0.3)
            cut = rng.randrange(len(src) + 1)
            src = src[:cut] + soup(rng, rng.choice([1, 2, 4])) + (src[cut:] if rng.random() < 0.5 else b"")
        mode = "file" if rng.random() < 0.75 else "func"
        return mk(mode, src, 3)

    def gen_wrapper_breaker(self, rng, tier):
        # function bodies that close the wrapper "(function() {\n" ... "\n})" themselves
        e1 = print_expr(ExprGen(rng, 2).expr(rng.randint(0, 2)), rng, 0, 0.2, False)
        e2 = print_expr(ExprGen(rng, 2).expr(rng.randint(0, 2)), rng, 0, 0.2, True)
        pat = rng.choice([b"return %s}), (function(){ %s", b"%s}); (function(){ %s", b"%s}), (1, function(){ %s",
                          b"return %s}, function(){ %s", b"%s})(function(){ %s", b"}); %s; (function(){ %s",
                          b"%s}) + (function(){ %s", b"%s}), ({a:function(){ %s} ", b"return %s});({%s"])
        return mk("func", pat % (e1, e2), 2)

    def generate(self, rng, n, tier):
        cases = []
        for i in range(n):
            m = rng.random()
            if m < 0.32:
                cases.append(self.case_from_tree(self.gen_expr_case(rng, tier), rng))
            elif m < 0.4:
                cases.append(self.gen_stmts_case(rng, tier))
            elif m < 0.66:
                base = self.case_from_tree(self.gen_expr_case(rng, tier), rng)
                src = mutate(unhx(base["src"]), rng)
                cases.append(mk(base["mode"], src, 2))
            elif m < 0.7:
                cases.append(self.gen_wrapper_breaker(rng, tier))
            else:
                cases.append(self.gen_hostile(rng, tier))
        return cases

    # -------------------------------------------------------------- judging
    def emit(self, case, obs):
        want = cq_opt(cq_bytes(unhx(case["want"]))) if case.get("want") else b"None"
        return (b"{| mode := " + (b"0" if case["mode"] == "file" else b"1") +
                b"; params := " + cq_bytes(unhx(case.get("params", ""))) +
                b"; src := " + cq_bytes(unhx(case["src"])) +
                b"; want := " + want +
                b"; go_class := " + cq_nat(CLASSES.get(obs["class"], 2)) +
                b"; go_dump := " + cq_bytes(unhx(obs["dump"])) +
                b"; go_same := " + cq_bool(obs["same"]) + b" |}")

    def nontrivial(self, case, obs):
        return len(case["src"]) >= 6

    def sample(self, case, obs):
        return {"mode": case["mode"], "stream": case.get("stream"), "src": unhx(case["src"]).decode("latin-1"),
                "go_class": obs["class"], "go_tree": unhx(obs["dump"]).decode("latin-1")[:400],
                "want": unhx(case["want"]).decode("latin-1")[:400] if case.get("want") else None}

    def shrink(self, case):
        if case.get("tree") is not None:
            e = tup(case["tree"])
            # smallest subtrees first: the first candidate that still fails is the witness
            subs = [get_sub(e, p) for p in subpaths(e) if p]
            subs = sorted((x for x in subs if x[0] != "hole"), key=lambda x: len(dump(x)))
            seen = set()
            for sub in subs:
                d = dump(sub)
                if d not in seen and len(seen) < 150:
                    seen.add(d)
                    yield self._retree(case, sub)
            # then the tree itself with one subtree replaced by a child or a leaf
            cnt = 0
            for path in subpaths(e):
                sub = get_sub(e, path)
                for c in children(sub):
                    cand = replace_sub(e, list(path), c)
                    if wellformed(cand) and cnt < 40:
                        cnt += 1
                        yield self._retree(case, cand)
            if case.get("stream") != 0:
                plain = self._retree(case, e)
                plain["stream"] = 0
                yield plain
            return
        src = unhx(case["src"])
        n = len(src)
        step = max(1, n // 2)
        while step >= 1:
            for a in range(0, n, step):
                cand = src[:a] + src[a + step:]
                if cand != src:
                    c = dict(case)
                    c["src"] = hx(cand)
                    c.pop("want", None)
                    yield c
            step //= 2

    def _retree(self, case, e):
        mode = case["mode"]
        if mode == "file":
            src = print_expr(e, None, 0, 0, True)
            want = "(prog (expr %s))" % dump(e)
        else:
            src = b"return " + print_expr(e, None, 0, 0, False)
            want = func_want(["(return %s)" % dump(e)])
        return mk(mode, src, 1, want.encode(), tree=e)

    def model_expr(self):
        return "string_of_list_ascii (model_text c)"

    def distribution(self, cases, obss):
        d = {"stream1_generated": 0, "stream2_mutated": 0, "stream3_hostile": 0, "mode_file": 0, "mode_func": 0,
             "go_ok": 0, "go_err": 0, "go_panic": 0, "go_timeout": 0, "go_unequal_second_run": 0,
             "max_src_bytes": 0, "src_bytes_hist": {}, "slowest_ms": 0}
        for c, o in zip(cases, obss):
            d["stream%d_%s" % (c.get("stream", 3), {1: "generated", 2: "mutated", 3: "hostile"}[c.get("stream", 3)])] += 1
            d["mode_" + c["mode"]] += 1
            d["go_" + o["class"]] = d.get("go_" + o["class"], 0) + 1
            d["go_unequal_second_run"] += not o["same"]
            n = len(c["src"]) // 2
            d["max_src_bytes"] = max(d["max_src_bytes"], n)
            b = "<8" if n < 8 else "<32" if n < 32 else "<128" if n < 128 else "<512" if n < 512 else ">=512"
            d["src_bytes_hist"][b] = d["src_bytes_hist"].get(b, 0) + 1
            d["slowest_ms"] = max(d["slowest_ms"], o.get("ms", 0))
        return d

    # -------------------------------------------------------------- observation-only stream: large inputs
    def extra(self, binary, tmp, tier, rng, ev):
        """Inputs too large for the Coq judge: must return (ok or err), no panic, same answer twice.
        Quick: <= 10^4 bytes, in the harness process.  Thorough: additionally up to 10^5 bytes, each batch in a
        child process under `ulimit -v` and a timeout, because stack exhaustion kills the process (F-C15-c)."""
        viol = []
        cases = []
        sizes = [3000, 6000, BIG_QUICK]
        for o, c in (rng.sample(NESTERS, 5) if tier == "quick" else NESTERS):
            n = rng.choice(sizes)
            if o == b"{a:":
                # a chain of equal labels costs cubic time (every level reports every enclosing label again):
                # 2000 levels take 12 s, 3300 levels a minute; keep it small, slowness is not an alarm
                n = 1500 if tier == "quick" else 4500
            d = max(1, n // max(1, len(o) + len(c)))
            cases.append(mk("file", o * d + b"a" + c * d, 3))
            cases.append(mk("file", o * (n // len(o)), 3))
            cases.append(mk("func", o * (n // len(o)), 3))
        for _ in range(8 if tier == "quick" else 60):
            cases.append(mk(rng.choice(["file", "func"]), soup(rng, rng.choice(sizes)), 3))
        e = ExprGen(rng, 9).expr(9)
        cases.append(mk("file", print_expr(e, rng, 0.1, 0.5), 3))
        obs = {"cases": 0, "ok": 0, "err": 0, "panic": 0, "timeout": 0, "unequal_second_run": 0, "max_bytes": 0,
               "slowest_ms": 0}
        ev["coverage"]["large_input_observation"] = obs
        try:
            obss = run_harness(binary, self.engine, cases, timeout=1500)
        except BuildError as ex:
            obs["error"] = ex.what
            viol.append({"index": "large-batch", "case": None, "observation": {"stderr": ex.logtext[-1500:]},
                         "what": "the harness process died on a batch of inputs <= 10^4 bytes"})
            return viol
        self._tally(cases, obss, obs, viol, "large")
        if tier == "thorough":
            big = []
            for o, c in [x for x in NESTERS if x[0] != b"{a:"]:
                big.append(mk("file", o * (30000 // len(o)), 3))                      # unclosed: the quadratic error paths
            for o, c in [(b"(", b")"), (b"[", b"]"), (b"!", b""), (b"a?", b":b"), (b"f(", b")")]:
                d = BIG_THOROUGH // (len(o) + len(c))
                big.append(mk("file", o * d + b"a" + c * d, 3))                        # balanced, 10^5 bytes
            big.append(mk("file", soup(rng, BIG_THOROUGH), 3))
            # F-C15-c: more than a megabyte of nesting used to exhaust the goroutine stack (fatal, kills the
            # process); since the repair the parser answers "Maximum nesting depth exceeded"
            for o in (b"(", b"[", b"{", b"!", b"(function(){", b"a=", b"new "):
                big.append(mk("file", o * (1200000 // len(o)), 3))
            child = {"cases": 0, "ok": 0, "err": 0, "panic": 0, "timeout": 0, "unequal_second_run": 0, "max_bytes": 0,
                     "slowest_ms": 0, "child_died": 0}
            ev["coverage"]["child_process_observation"] = child

            def one(ic):
                i, c = ic
                c = dict(c)
                c["bound"] = 1500000
                inp = os.path.join(tmp, "big%d.json" % i)
                with open(inp, "w") as f:
                    json.dump([c], f)
                cmd = "ulimit -v 8000000; exec timeout 1700 %s %s < %s" % (binary, self.engine, inp)
                p = subprocess.run(["bash", "-c", cmd], capture_output=True)
                os.unlink(inp)
                return c, p

            with ThreadPoolExecutor(max_workers=4) as ex:
                results = list(ex.map(one, enumerate(big)))
            for c, p in results:
                n = len(c["src"]) // 2
                if p.returncode != 0:
                    child["child_died"] += 1
                    child["cases"] += 1
                    small = {"mode": c["mode"], "params": c["params"], "src": c["src"]} if n <= 20000 else \
                        {"mode": c["mode"], "params": c["params"], "src_is": "%r * %d" % (unhx(c["src"][:64])[:16], n),
                         "bytes": n}
                    viol.append({"index": "child-%d" % child["cases"], "case": small,
                                 "observation": {"exit": p.returncode, "stderr": p.stderr.decode(errors="replace")[:600]},
                                 "what": "the parser killed its process (fatal runtime error or resource limit) on an "
                                         "input of %d bytes run in a child process" % n})
                    continue
                self._tally([c], json.loads(p.stdout), child, viol, "child")
        return viol

    def _tally(self, cases, obss, obs, viol, tag):
        for i, (c, o) in enumerate(zip(cases, obss)):
            obs["cases"] += 1
            obs[o["class"]] = obs.get(o["class"], 0) + 1
            obs["unequal_second_run"] += not o["same"]
            obs["max_bytes"] = max(obs["max_bytes"], len(c["src"]) // 2)
            obs["slowest_ms"] = max(obs["slowest_ms"], o.get("ms", 0))
            if o["class"] in ("panic", "timeout") or not o["same"]:
                n = len(c["src"]) // 2
                small = {k: c[k] for k in ("mode", "params", "src")} if n <= 20000 else \
                    {"mode": c["mode"], "params": c["params"], "src_is": "%r... (%d bytes)" % (unhx(c["src"][:64])[:16], n)}
                viol.append({"index": "%s-%d" % (tag, i), "case": small,
                             "observation": o,
                             "what": "observation stream: the parser %s on a %d-byte input" % (
                                 "panicked" if o["class"] == "panic" else "did not return within the watchdog bound"
                                 if o["class"] == "timeout" else "gave two different answers", len(c["src"]) // 2)})


PROP = C15()
