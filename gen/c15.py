# C15 — the JavaScript snippet parser (otto/parser): accepts or rejects every input without
# crashing; supported-subset expressions yield the tree JavaScript precedence/associativity prescribe.
import base64
import json
import os
import subprocess
from concurrent.futures import ThreadPoolExecutor
from common import *

# ------------------------------------------------------------------ expression trees
# ("id",name) ("num",lit,value|None) ("str",quote,value-bytes-hex,printed-body-hex) ("bool",b) ("null",) ("this",)
# ("hole",) ("arr",[e]) ("obj",[(keykind,keytext-hex,keyvalue-hex,e)]) ("dot",e,name) ("idx",e,i) ("call",f,[a])
# ("new",f,[a],parens) ("pre",op,e) ("post",op,e) ("bin",op,l,r) ("cond",c,a,b) ("assign",op,l,r) ("seq",[e])

BIN_PREC = {"||": 4, "&&": 5, "|": 6, "^": 7, "&": 8,
            "==": 9, "!=": 9, "===": 9, "!==": 9,
            "<": 10, ">": 10, "<=": 10, ">=": 10, "instanceof": 10, "in": 10,
            "<<": 11, ">>": 11, ">>>": 11, "+": 12, "-": 12, "*": 13, "/": 13, "%": 13}
BIN_OPS = sorted(BIN_PREC)
ASSIGN_OPS = ["=", "+", "-", "*", "/", "%", "&", "|", "^", "<<", ">>", ">>>"]
PRE_OPS = ["!", "-", "+", "~", "typeof", "void", "delete"]
P_SEQ, P_ASSIGN, P_COND, P_UNARY, P_POSTFIX, P_NEW, P_CALL, P_PRIMARY = 1, 2, 3, 14, 15, 16, 17, 18

IDS = ["a", "b", "x", "y", "foo", "bar", "i", "$el", "_t", "item", "idx1", "let", "of", "get", "value", "T"]
DOTNAMES = IDS + ["length", "class", "new", "true", "in", "default", "$", "x1"]
KEYWORDS = ["if", "in", "do", "var", "for", "new", "try", "this", "else", "case", "void", "with", "while",
            "break", "catch", "throw", "return", "typeof", "delete", "switch", "default", "finally",
            "function", "continue", "debugger", "instanceof", "const", "class", "enum", "export",
            "extends", "import", "super", "true", "false", "null"]


def prec(e):
    k = e[0]
    if k == "seq":
        return P_SEQ
    if k == "assign":
        return P_ASSIGN
    if k == "cond":
        return P_COND
    if k == "bin":
        return BIN_PREC[e[1]]
    if k == "pre":
        return P_UNARY
    if k == "post":
        return P_POSTFIX
    if k == "new":
        return P_CALL if e[3] else P_NEW
    if k in ("call", "dot", "idx"):
        return P_CALL
    return P_PRIMARY


def is_lhs(e):
    return e[0] in ("id", "dot", "idx")


def has_call_on_spine(e):
    # a `new` callee is a MemberExpression: no call may appear on its left spine outside parentheses
    while True:
        if e[0] == "call":
            return True
        if e[0] in ("dot", "idx"):
            e = e[1]
            continue
        if e[0] == "new":
            return not e[3]   # new without () directly as callee would swallow the outer argument list
        return False


class ExprGen:
    def __init__(self, rng, maxdepth):
        self.rng = rng
        self.maxdepth = maxdepth

    def string(self):
        r = self.rng
        q = r.choice(['"', '"', "'", "'", "`"])
        n = r.choice([0, 1, 1, 2, 3, 5, 8])
        chars = []
        for _ in range(n):
            m = r.random()
            if m < 0.6:
                chars.append(r.choice("abcxyz XYZ019_-+*/<>=!?:;,.()[]{}&|^%~#@"))
            elif m < 0.7:
                chars.append(r.choice("'\"`\\"))
            elif m < 0.8:
                chars.append(r.choice("\n\r\t\x00\x08\x0b\x0c\x7f"))
            elif m < 0.93:
                chars.append(r.choice("é€ñ\u00a0\u2028\u2029\uffff\u0100\u07ff\u0800"))
            else:
                chars.append(chr(r.choice([0x80, 0xff, 0xd7ff, 0xe000, 0xfffd])))
        body = b""
        for idx, ch in enumerate(chars):
            o = ord(ch)
            nxt_digit = idx + 1 < len(chars) and chars[idx + 1] in "01234567"
            plain_ok = (o < 0x80 and ch not in (q, "\\", "\n", "\r")) or (o >= 0x80 and o not in (0x2028, 0x2029))
            forms = []
            if plain_ok:
                forms += ["plain"] * 6
            if o < 0x100:
                forms.append("x")
            forms.append("u")
            named = {"\n": "n", "\r": "r", "\t": "t", "\x08": "b", "\x0b": "v", "\x0c": "f"}
            if ch in named:
                forms += ["named"] * 3
            if ch in "'\"\\`" or (0x20 <= o < 0x7f and ch not in "bfnrtvxu01234567" and not ch.isdigit()):
                forms.append("bs")
            if o == 0 and not nxt_digit:
                forms += ["zero"] * 2
            if o < 0o400 and not nxt_digit:
                forms.append("oct")
            f = r.choice(forms)
            if f == "plain":
                body += ch.encode("utf-8")
            elif f == "x":
                body += b"\\x%02x" % o if r.random() < 0.5 else b"\\x%02X" % o
            elif f == "u":
                body += b"\\u%04x" % o if r.random() < 0.5 else b"\\u%04X" % o
            elif f == "named":
                body += b"\\" + named[ch].encode()
            elif f == "bs":
                body += b"\\" + ch.encode("utf-8")
            elif f == "zero":
                body += b"\\0"
            else:
                body += b"\\%o" % o
        value = "".join(chars).encode("utf-8")
        return ("str", q, value.hex(), body.hex())

    def number(self):
        r = self.rng
        m = r.random()
        if m < 0.6:
            v = r.choice([0, 1, 2, 3, 7, 10, 42, 255, 1000, 65536, 2 ** 31, 2 ** 53, 9223372036854775807])
            return ("num", str(v), v)
        if m < 0.7:
            v = r.randrange(0, 1 << r.choice([4, 8, 16, 32, 62]))
            return ("num", ("0x%x" if r.random() < 0.5 else "0X%X") % v, v)
        if m < 0.78:
            v = r.randrange(0, 512)
            return ("num", "0%o" % v, v)
        if m < 0.82:
            return ("num", r.choice(["9223372036854775808", "18446744073709551616", "0x8000000000000000",
                                      "01000000000000000000000"]), None)
        return ("num", r.choice(["1.5", "0.25", ".5", "1e3", "2E-2", "1.", "0.0", "3.14e+10", "0e0", "1e999"]), None)

    def leaf(self):
        r = self.rng
        m = r.random()
        if m < 0.4:
            return ("id", r.choice(IDS))
        if m < 0.65:
            return self.number()
        if m < 0.85:
            return self.string()
        return r.choice([("bool", True), ("bool", False), ("null",), ("this",)])

    def lhs(self, d):
        r = self.rng
        m = r.random()
        if d <= 0 or m < 0.5:
            return ("id", r.choice(IDS))
        if m < 0.75:
            return ("dot", self.expr(d - 1, member=True), r.choice(DOTNAMES))
        return ("idx", self.expr(d - 1, member=True), self.expr(d - 1))

    def expr(self, d, member=False):
        r = self.rng
        if d <= 0 or r.random() < 0.12:
            return self.leaf()
        m = r.random()
        if member:
            m = m * 0.4 + 0.6     # favour postfix/member forms where a member expression is wanted
        if m < 0.38:
            return ("bin", r.choice(BIN_OPS), self.expr(d - 1), self.expr(d - 1))
        if m < 0.46:
            return ("pre", r.choice(PRE_OPS), self.expr(d - 1))
        if m < 0.5:
            return (r.choice(["pre", "post"]), r.choice(["++", "--"]), self.lhs(d - 1))
        if m < 0.57:
            return ("cond", self.expr(d - 1), self.expr(d - 1), self.expr(d - 1))
        if m < 0.62:
            return ("assign", r.choice(ASSIGN_OPS), self.lhs(d - 1), self.expr(d - 1))
        if m < 0.65:
            return ("seq", [self.expr(d - 1) for _ in range(r.randint(2, 4))])
        if m < 0.72:
            return ("dot", self.expr(d - 1, member=True), r.choice(DOTNAMES))
        if m < 0.78:
            return ("idx", self.expr(d - 1, member=True), self.expr(d - 1))
        if m < 0.86:
            return ("call", self.expr(d - 1, member=True), [self.expr(d - 1) for _ in range(r.choice([0, 1, 1, 2, 3]))])
        if m < 0.9:
            args = [self.expr(d - 1) for _ in range(r.choice([0, 0, 1, 2]))]
            return ("new", self.expr(d - 1, member=True), args, bool(args) or r.random() < 0.6)
        if m < 0.95:
            es = []
            for _ in range(r.choice([0, 1, 2, 3, 5])):
                es.append(("hole",) if r.random() < 0.12 else self.expr(d - 1))
            return ("arr", es)
        kvs = []
        for _ in range(r.choice([0, 1, 2, 3])):
            km = r.random()
            if km < 0.5:
                k = r.choice(IDS + ["class", "if", "null", "true", "new"])
                kvs.append(("id", k.encode().hex(), k.encode().hex(), self.expr(d - 1)))
            elif km < 0.8:
                s = self.string()
                kvs.append(("str", (s[1].encode() + bytes.fromhex(s[3]) + s[1].encode()).hex(), s[2], self.expr(d - 1)))
            else:
                n = self.number()
                kvs.append(("num", n[1].encode().hex(), n[1].encode().hex(), self.expr(d - 1)))
        return ("obj", kvs)


# ------------------------------------------------------------------ canonical dump (same text as Parse.v / c15.go)

def dump(e):
    k = e[0]
    if k == "id":
        return "(id %s)" % e[1]
    if k == "num":
        return "(num %s %s)" % (e[1], "f" if e[2] is None else "i%d" % e[2])
    if k == "str":
        return "(str %s %s)" % ({'"': "d", "'": "s", "`": "b"}[e[1]], e[2])
    if k == "bool":
        return "(bool true)" if e[1] else "(bool false)"
    if k in ("null", "this", "hole"):
        return "(%s)" % k
    if k == "arr":
        return "(arr" + "".join(" " + dump(x) for x in e[1]) + ")"
    if k == "obj":
        return "(obj" + "".join(" (%s %s)" % (kv[2], dump(kv[3])) for kv in e[1]) + ")"
    if k == "dot":
        return "(dot %s %s)" % (dump(e[1]), e[2])
    if k == "idx":
        return "(idx %s %s)" % (dump(e[1]), dump(e[2]))
    if k in ("call", "new"):
        return "(%s %s%s)" % (k, dump(e[1]), "".join(" " + dump(x) for x in e[2]))
    if k in ("pre", "post"):
        return "(%s %s %s)" % (k, e[1], dump(e[2]))
    if k == "bin":
        return "(bin %s %s %s)" % (e[1], dump(e[2]), dump(e[3]))
    if k == "cond":
        return "(cond %s %s %s)" % (dump(e[1]), dump(e[2]), dump(e[3]))
    if k == "assign":
        return "(assign %s %s %s)" % (e[1], dump(e[2]), dump(e[3]))
    if k == "seq":
        return "(seq" + "".join(" " + dump(x) for x in e[1]) + ")"
    raise ValueError(k)


# ------------------------------------------------------------------ printer: token list with minimal parentheses
# according to ECMA-262 (11.1-11.14); `extra(rng)` says where to add redundant parentheses.

def toks(e, need, paren_p, rng, force=False):
    """tokens of e in a context that requires precedence >= need"""
    inner = toks_raw(e, paren_p, rng)
    if force or prec(e) < need or (rng is not None and e[0] != "hole" and rng.random() < paren_p):
        n = 1 if rng is None or rng.random() < 0.8 else 2
        return ["("] * n + inner + [")"] * n
    return inner


def toks_list(es, paren_p, rng):
    out = []
    for i, x in enumerate(es):
        if i:
            out.append(",")
        out += toks(x, P_ASSIGN, paren_p, rng)
    return out


def toks_raw(e, pp, rng):
    k = e[0]
    if k == "id":
        return [e[1]]
    if k == "num":
        return [e[1]]
    if k == "str":
        return [e[1].encode() + bytes.fromhex(e[3]) + e[1].encode()]
    if k == "bool":
        return ["true" if e[1] else "false"]
    if k in ("null", "this"):
        return [k]
    if k == "arr":
        out = ["["]
        es = e[1]
        for i, x in enumerate(es):
            if x[0] == "hole":
                out.append(",")
            else:
                out += toks(x, P_ASSIGN, pp, rng)
                if i + 1 < len(es) or (rng is not None and rng.random() < 0.15):
                    out.append(",")
        return out + ["]"]
    if k == "obj":
        out = ["{"]
        for i, kv in enumerate(e[1]):
            if i:
                out.append(",")
            out += [bytes.fromhex(kv[1]), ":"] + toks(kv[3], P_ASSIGN, pp, rng)
        if e[1] and rng is not None and rng.random() < 0.15:
            out.append(",")
        return out + ["}"]
    if k == "dot":
        # 1.x would scan "1." as a number
        return toks(e[1], P_CALL, pp, rng, force=e[1][0] == "num") + [".", e[2]]
    if k == "idx":
        return toks(e[1], P_CALL, pp, rng) + ["["] + toks(e[2], P_SEQ, pp, rng) + ["]"]
    if k == "call":
        return toks(e[1], P_CALL, pp, rng) + ["("] + toks_list(e[2], pp, rng) + [")"]
    if k == "new":
        callee = toks(e[1], P_CALL, pp, rng, force=has_call_on_spine(e[1]))
        return ["new"] + callee + ((["("] + toks_list(e[2], pp, rng) + [")"]) if e[3] else [])
    if k == "pre":
        return [e[1]] + toks(e[2], P_UNARY, pp, rng)
    if k == "post":
        return toks(e[2], P_CALL, pp, rng) + ["NOLT", e[1]]     # no line terminator before ++ / --
    if k == "bin":
        p = BIN_PREC[e[1]]
        return toks(e[2], p, pp, rng) + [e[1]] + toks(e[3], p + 1, pp, rng)
    if k == "cond":
        return (toks(e[1], 4, pp, rng) + ["?"] + toks(e[2], P_ASSIGN, pp, rng) + [":"] +
                toks(e[3], P_ASSIGN, pp, rng))
    if k == "assign":
        return toks(e[2], P_CALL, pp, rng) + [e[1] + "=" if e[1] != "=" else "="] + toks(e[3], P_ASSIGN, pp, rng)
    if k == "seq":
        out = []
        for i, x in enumerate(e[1]):
            if i:
                out.append(",")
            out += toks(x, P_ASSIGN, pp, rng)
        return out
    raise ValueError(k)


IDCH = set(b"abcdefghijklmnopqrstuvwxyzABCDEFGHIJKLMNOPQRSTUVWXYZ0123456789$_")
OPCH = set(b"+-*/%&|^<>=!~.")
WS_SAFE = [b" ", b" ", b" ", b"  ", b"\t", b"/* c */", b"/**/", b" /* a*b / c */ ", b"\x0b", b"\x0c"]
WS_NL = [b"\n", b"\n", b"\r\n", b" \n ", b"// c\n", b"//\n", b"/* x */\n"]


def tb(t):
    return t if isinstance(t, bytes) else t.encode()


def render(tokens, rng, ws_p, nl_ok=True, cr_p=0.0):
    """join tokens; a separator is forced where two tokens would fuse"""
    out = b""
    nolt = False
    prev = None
    for t in tokens:
        if t == "NOLT":
            nolt = True
            continue
        t = tb(t)
        if prev is not None:
            a, b = prev[-1], t[0]
            isnum = prev[0] in b"0123456789" or (prev[0] == 0x2e and len(prev) > 1)
            must = (a in IDCH and b in IDCH) or (a in OPCH and b in OPCH) or (isnum and (b in IDCH or b == 0x2e)) \
                or (a == 0x2e and b in b"0123456789")
            sep = b""
            if rng is None:
                sep = b" " if must else b""
            elif must or rng.random() < ws_p:
                m = rng.random()
                if nl_ok and not nolt and m < 0.18:
                    sep = rng.choice(WS_NL)
                elif nl_ok and not nolt and m < 0.18 + cr_p:
                    sep = b"\r"
                else:
                    sep = rng.choice(WS_SAFE)
                if rng.random() < 0.15:
                    sep += rng.choice(WS_SAFE)
                if sep[:1] == b"/" and a == 0x2f:
                    sep = b" " + sep                 # "/" followed by a comment would read as "//"
            out += sep
        out += t
        prev = t
        nolt = False
    return out


def print_expr(e, rng, paren_p, ws_p, stmt_start=True, cr_p=0.0):
    ts = toks(e, P_SEQ, paren_p, rng)
    first = tb(ts[0])
    if stmt_start and (first in (b"{", b"function") or (e[0] == "id" and False)):
        ts = ["("] + ts + [")"]
    return render(ts, rng, ws_p, cr_p=cr_p)


# ------------------------------------------------------------------ shrinking of trees

def children(e):
    k = e[0]
    if k in ("arr", "seq"):
        return [x for x in e[1] if x[0] != "hole"]
    if k == "obj":
        return [kv[3] for kv in e[1]]
    if k in ("dot", "pre", "post"):
        return [e[1]] if k == "dot" else [e[2]]
    if k == "idx":
        return [e[1], e[2]]
    if k in ("call", "new"):
        return [e[1]] + list(e[2])
    if k == "bin":
        return [e[2], e[3]]
    if k == "cond":
        return [e[1], e[2], e[3]]
    if k == "assign":
        return [e[2], e[3]]
    return []


def tup(x):
    if isinstance(x, list):
        # lists that are nodes (came back from JSON) become tuples; child lists stay lists
        if x and isinstance(x[0], str) and x[0] in ("id", "num", "str", "bool", "null", "this", "hole", "arr", "obj",
                                                       "dot", "idx", "call", "new", "pre", "post", "bin", "cond",
                                                       "assign", "seq"):
            return tuple(tup(y) for y in x)
        return [tup(y) for y in x]
    return x


def replace_sub(e, path, new):
    if not path:
        return new
    k = e[0]
    i = path[0]
    ch = children(e)
    target = ch[i]
    def rep(x):
        return replace_sub(x, path[1:], new) if x is target else x
    if k in ("arr", "seq"):
        return (k, [rep(x) for x in e[1]])
    if k == "obj":
        return (k, [(kv[0], kv[1], kv[2], rep(kv[3])) for kv in e[1]])
    if k == "dot":
        return (k, rep(e[1]), e[2])
    if k in ("pre", "post"):
        return (k, e[1], rep(e[2]))
    if k == "idx":
        return (k, rep(e[1]), rep(e[2]))
    if k == "call":
        return (k, rep(e[1]), [rep(x) for x in e[2]])
    if k == "new":
        return (k, rep(e[1]), [rep(x) for x in e[2]], e[3])
    if k == "bin":
        return (k, e[1], rep(e[2]), rep(e[3]))
    if k == "cond":
        return (k, rep(e[1]), rep(e[2]), rep(e[3]))
    if k == "assign":
        return (k, e[1], rep(e[2]), rep(e[3]))
    return e


def wellformed(e):
    k = e[0]
    if k in ("post",) or (k == "pre" and e[1] in ("++", "--")):
        if not is_lhs(e[2]):
            return False
    if k == "assign" and not is_lhs(e[2]):
        return False
    return all(wellformed(c) for c in children(e))


def subpaths(e, path=()):
    yield path
    for i, c in enumerate(children(e)):
        yield from subpaths(c, path + (i,))


def get_sub(e, path):
    for i in path:
        e = children(e)[i]
    return e


# ------------------------------------------------------------------ mutation and hostile streams

ALPHABET = [b"a", b"x", b"1", b"0", b"9", b" ", b"\n", b"\t", b"(", b")", b"[", b"]", b"{", b"}", b".", b",", b";",
            b":", b"?", b"+", b"-", b"*", b"/", b"%", b"&", b"|", b"^", b"<", b">", b"=", b"!", b"~", b"'", b'"',
            b"`", b"\\", b"$", b"_", b"++", b"--", b"&&", b"||", b"===", b">>>", b"+=", b" in ", b" new ", b"typeof ",
            b"var ", b"return ", b"this", b"null", b"true", b" instanceof ", b"void ", b"delete ", b"\r", b"\r\n",
            b"//", b"/*", b"*/", b"0x", b"1e", b".5", b"e", b"get ", b"function", b"&^", b"#", b"@", b"\x00", b"\x7f"]

HOT = (b"()[]{}.,;:?+-*/%&|^<>=!~'\"`\\$_ \n\r\t" + b"abcefnrtuvxyzABCDEFX0123456789" +
       b"\x00\x01\x08\x0b\x0c\x1f\x7f\x80\xa0\xbf\xc0\xc2\xc3\xe0\xe2\xed\xef\xf0\xf4\xf5\xff")

SNIPPETS = [b"\"abc", b"'a\\", b"`x\n", b"\"a\\\n b\"", b"'\\x4'", b"'\\x4g'", b"\"\\u12\"", b"\"\\u00e9\"", b"'\\0'", b"'\\08'",
            b"'\\8'", b"'\\377'", b"'\\400'", b"'\\u{1}'", b"\"\\\r\n\"", b"\"\\\r\"", b"'\\\xe2\x80\xa8'", b"'\xe2\x80\xa8'",
            b"/* abc", b"/*/", b"/**/", b"// x", b"//\xe2\x80\xa9a", b"/* \n */", b"a /*\n*/ ++", b"a\n++\nb", b"a\n++", b"a++\nb",
            b"0x", b"0xg", b"08", b"09.5", b"1e", b"1e+", b"1.e1", b".e1", b"1..x", b"1.x", b"3in x", b"0b1", b"00", b"1_0",
            b"\xc3\xa9", b"\xc3", b"\xed\xa0\x80", b"\xef\xbb\xbfa", b"a\xc2\xa0b", b"\xe2\x80\xa8", b"\xf4\x90\x80\x80",
            b"\\u0061", b"a\\u0062", b"\\", b"a.\\u0062", b"({get a(){}})", b"({get:1})", b"({set:1, get})", b"({a:1 b:2})",
            b"({+:1})", b"({'a\n:1})", b"({0x:1})", b"[,]", b"[,,a,,]", b"[a b]", b"f(a,)", b"f(,a)", b"new", b"new new a",
            b"new a.b(c).d", b"a?b:c?d:e", b"a?b", b"a=b=c", b"1=2", b"a+b=c", b"(a)=1", b"++1", b"1++", b"a++++", b"- -a", b"--a--",
            b"a in b", b"a instanceof", b"typeof", b"void typeof delete a", b"/re/", b"a / b / c", b"a /= 2", b"a /=/ 2",
            b"var", b"var a", b"var a = 1, b", b"var a b", b"var 1", b"return", b"return 1", b"a: b", b"if (a) b", b"{}", b"{a:1}",
            b"function f(){}", b"(function(){})", b"(function f(a,b){return a+b})(1,2)", b"(function(a,){})", b"(function(){",
            b"a;b", b"a\nb", b"a b", b";;", b";", b"", b" ", b"\n", b"a &^ b", b"a &^= b", b"a <<= b >>>= c", b"a === b !== c",
            b"class", b"let x", b"const x", b"this.x", b"null.x", b"true.false", b"a.1", b"a.'b'", b"a.", b"a..b", b"a[", b"a[]",
            b"a[1", b"a(", b"a(1", b"(", b")", b"]", b"}", b"a)", b"((a)", b"//# sourceMappingURL=data:application/json,e30=",
            b"\r+\n", b"1 +\r2\n", b"1 +\r\n2", b"a\r\n++b", b"1 + \r 2 \n"]

NESTERS = [(b"(", b")"), (b"[", b"]"), (b"{a:", b"}"), (b"!", b""), (b"-", b""), (b"a?", b":b"), (b"a?b:", b""),
           (b"new ", b""), (b"typeof ", b""), (b"f(", b")"), (b"a[", b"]"), (b"a=", b""), (b"a,", b""), (b"(function(){return ", b"})"),
           (b"a+", b""), (b"a<", b""), (b"'", b"'"), (b"/*", b""), (b"a.", b"")]


def mutate(src, rng):
    s = bytearray(src)
    for _ in range(rng.choice([1, 1, 1, 2, 3])):
        m = rng.random()
        pos = rng.randrange(len(s) + 1)
        if m < 0.3 and s:
            del s[min(pos, len(s) - 1)]
        elif m < 0.6:
            s[pos:pos] = rng.choice(ALPHABET)
        elif m < 0.75 and s:
            p = min(pos, len(s) - 1)
            s[p:p + 1] = rng.choice(ALPHABET)
        elif m < 0.82 and len(s) > 1:
            p = rng.randrange(len(s) - 1)
            s[p], s[p + 1] = s[p + 1], s[p]
        elif m < 0.9 and s:
            a = rng.randrange(len(s))
            b = min(len(s), a + rng.randint(1, 6))
            s[pos:pos] = s[a:b]
        elif m < 0.95:
            s = s[:pos]
        else:
            s = s[pos:]
    return bytes(s)


def soup(rng, n):
    m = rng.random()
    if m < 0.35:
        return bytes(rng.choice(HOT) for _ in range(n))
    if m < 0.5:
        return bytes(rng.randrange(256) for _ in range(n))
    if m < 0.8:
        out = b""
        while len(out) < n:
            out += rng.choice(SNIPPETS) + rng.choice([b"", b" ", b"\n", b";", b","])
        return out
    out = b""
    while len(out) < n:
        out += rng.choice(ALPHABET)
    return out


def nest(rng, depth, close=None):
    o, c = rng.choice(NESTERS)
    if rng.random() < 0.3:
        o2, c2 = rng.choice(NESTERS)
        o, c = o + o2, c2 + c
    close = rng.random() < 0.6 if close is None else close
    core = rng.choice([b"a", b"1", b"", b"'s'"])
    return o * depth + core + (c * depth if close else b"")


# ------------------------------------------------------------------ special comment and literal forms
# The forms the parser treats specially, each with well-formed, truncated and malformed payloads.  Most are outside
# the Coq model (POutside): they are judged by the observation oracle (returns, no panic, same answer every time).

def b64(b):
    return base64.b64encode(b)


SM_JSON = [b'{"version":3,"sources":["a.js"],"names":[],"mappings":"AAAA"}',
           b'{"version":3,"file":"out.js","sourceRoot":"","sources":["a.js","b.js"],"names":["x","y"],'
           b'"mappings":"AAAA,IAAIA,CAAC;AACDC,EAAE;;ACDF"}',
           b'{"version":3,"sources":[],"names":[],"mappings":""}',
           b'{"version":3,"sources":["a.js"],"names":[],"mappings":";;;;AAAA,,,"}',
           b'{"version":3,"sources":["a.js"],"names":[],"mappings":"A"}',
           b'{"version":3,"sources":["a.js"],"names":[],"mappings":"!!!!"}',
           b'{"version":3,"sources":["a.js"],"names":[],"mappings":"AAAAA"}',
           b'{"version":3,"sources":["a.js"],"names":[],"mappings":"gggggggggggggggggggggB"}',
           b'{"version":3,"sources":["a.js"],"names":[],"mappings":"AAgBC,SAAQ,CAAEA"}',
           b'{"version":3,"sources":["a.js"],"names":[],"mappings":"AADA"}',
           b'{"version":3,"sources":[1],"names":[2],"mappings":"AAAAA"}',
           b'{"version":3,"sources":null,"mappings":"AAAA"}',
           b'{"version":2,"sources":["a.js"],"names":[],"mappings":"AAAA"}',
           b'{"version":"3","sources":["a.js"],"names":[],"mappings":"AAAA"}',
           b'{"version":3,"sections":[{"offset":{"line":0,"column":0},"map":{"version":3,"sources":["a.js"],'
           b'"names":[],"mappings":"AAAA"}}]}',
           b'{"version":3,"sections":[{"offset":{"line":-1,"column":-1},"map":null}]}',
           b'{"version":3,"sections":[{}]}', b'{"version":3,"sections":[],"mappings":"AAAA"}',
           b'{"version":3}', b'{}', b'[]', b'null', b'"x"', b'3', b'', b' ', b'{', b'{"version":3,"sources":["a.js"',
           b'{"version":3,"mappings":"AAAA"}', b'\xff\xfe{"version":3}', b")]}'\n{\"version\":3}"]

SM_NAMES = [b"app.js.map", b"/abs/dir/x.map", b"http://x.test/y.map?z=1,2", b"", b" ", b"x,y", b"a b.map", b"\xc3\xa9.map",
            b"data:", b"data:,", b"data:text/plain;base64,AAAA", b"data:application/jso", b"file:///x.map"]

SM_COMMENT = [b"//# sourceMappingURL="] * 30 + [
              b"//@ sourceMappingURL=", b"//@ sourceMappingURL=", b"//#sourceMappingURL=", b"// # sourceMappingURL=",
              b"//# sourceMappingURL =", b"//# sourceURL=", b"//# SourceMappingURL=", b" //# sourceMappingURL=",
              b"\t//# sourceMappingURL="]


def sm_payload(rng):
    """what follows `sourceMappingURL=`"""
    m = rng.random()
    if m < 0.15:
        return rng.choice(SM_NAMES)
    media = rng.choice([b"data:application/json", b"data:application/json", b"data:application/json;charset=utf-8",
                        b"data:application/json;charset=utf8", b"data:application/jsonx", b"data:application/json-patch+json",
                        b"data:application/json;", b"data:application/json;x=\"a,b\""])
    enc = rng.choice([b";base64", b";base64", b";base64", b"", b";base64;", b";BASE64"])
    if m < 0.4:
        return media + enc                                   # no comma, no payload at all
    js = rng.choice(SM_JSON)
    k = rng.random()
    if k < 0.45:
        pay = b64(js)
    elif k < 0.6:
        pay = b64(js)
        pay = pay[:rng.randrange(len(pay) + 1)]              # truncated base64
    elif k < 0.7:
        pay = js                                             # not base64 at all
    elif k < 0.8:
        pay = b64(js).rstrip(b"=") + rng.choice([b"", b"=", b"===", b" ", b"\t", b"\r", b"*", b"%3D", b",", b",AAAA"])
    elif k < 0.88:
        pay = base64.urlsafe_b64encode(rng.choice([b"\xfb\xff\xfe", js + b"\xff?>"]))
    elif k < 0.94:
        pay = b""
    else:
        pay = bytes(rng.choice(b"ABCDabcd0189+/=-_ ,\\\"'") for _ in range(rng.choice([1, 2, 3, 4, 5, 8, 12])))
    return media + enc + b"," + pay


def sm_comment(rng):
    pay = sm_payload(rng)
    m = rng.random()
    if m < 0.86:
        c = rng.choice(SM_COMMENT) + pay
        if rng.random() < 0.05:
            c = c[:rng.randrange(2, len(c) + 1)]             # cut anywhere, also inside the marker itself
        return c
    if m < 0.93:
        return rng.choice([b"/*# sourceMappingURL=", b"/*@ sourceMappingURL=", b"/* # sourceMappingURL="]) + pay + \
            rng.choice([b" */", b"*/", b"", b" *"])
    return rng.choice(SM_COMMENT) + pay + rng.choice([b" ", b"\t", b" // x", b"/**/"])


RE_VALID = [b"a", b"abc", b"a|b", b"a*", b"a+?", b"a??", b"[a-z]", b"[^a]", b"\\d+", b"\\w\\s", b"(a)", b"(?:a)", b"a{1,2}",
            b"a{2}", b"a{2,}", b"^a$", b".", b"\\/", b"[/]", b"[\\/]", b"\\u0041", b"\\x41", b"\\cA", b"\\cz", b"\\0", b"a\\b",
            b"[\\b]", b"\\.", b"\\$", b"(a|b)*c", b"\\u00e9", b"\xc3\xa9", b"[\\]]", b"\\-", b"\\B", b"\\S\\D\\W",
            b"\\t\\n\\r\\f\\v", b"=", b"=a", b"\\\\", b"[^]]", b"[]]" , b"\\07", b"\\012", b"\\377", b"\\e", b"\\a", b"\\_",
            b"\\u00E9+", b"(a)(b)(c)", b"((a))", b"a{0}", b"a{,3}", b"{", b"}", b"a{", b"]", b"\\c", b"\\c1", b"\\x4", b"\\xg",
            b"\\u12", b"\\u", b"\\u{61}", b"[a-a]", b"\"", b"'", b"`", b"\\`", b"${x}", b"#", b"\\ ", b" ", b"\t", b"a/*b", b"*/"]
RE_RE2 = [b"(?=a)", b"(?!a)", b"a(?=b)c", b"x(?!y)", b"(a)\\1", b"\\1", b"\\2(b)", b"\\8", b"\\9", b"\\19", b"(?=)", b"(?!)",
          b"(?=a", b"(?!", b"(?=(a))\\1", b"[\\1]", b"(a)\\2", b"\\1\\2\\3", b"(?:(?=a))", b"((?!a)b)*"]
RE_INVALID = [b"(", b"a(", b"(a", b"((a)", b")", b"a)", b"())", b"[", b"[a", b"[^", b"a[b", b"(?", b"(?:", b"*", b"+", b"?",
              b"a**", b"a{2,1}", b"\\", b"(?<n>a)", b"(?<=a)", b"(?<!a)", b"\\k<n>", b"\\p{L}", b"\\pL", b"[z-a]", b"(?i)a",
              b"(?P<n>a)", b"\\Q.\\E", b"a{1000}", b"a{1001}", b"(a{1000}){1000}", b"((a{100}){100}){100}", b"[[:alpha:]]",
              b"[[:foo:]]", b"\\A", b"\\z", b"\\C", b"\\P{Foo}", b"(?#c)", b"(?s).", b"(?", b"(?x", b"[a", b"[\\", b"(\\",
              b"\xff", b"[\xff]", b"\xc3", b"\\\xff", b"\\\xc3\xa9", b"\\\xe2\x80\xa8", b"\xe2\x80\xa8", b"|*", b"^*", b"$+",
              b"\\b+", b"(?:)*?+", b"a{99999}", b"a{2147483648}", b"\\x{41}", b"\\u{110000}", b"\\uD800", b"\\uDFFF\\uD800",
              b"[\\d-x]", b"[a-\\d]", b"\\8\\9", b"(()", b"[()", b"([)]", b"\\)", b"\\(", b"(\\)"]
RE_ATOMS = [b"a", b"b", b"x", b"0", b"\\d", b"\\w", b"\\s", b".", b"[a-z]", b"[^/]", b"(", b")", b"(?:", b"(?=", b"(?!", b"(?<",
            b"[", b"]", b"[^", b"|", b"*", b"+", b"?", b"{2}", b"{1,", b"}", b"\\1", b"\\9", b"\\", b"\\/", b"\\u0041", b"\\u",
            b"\\x4", b"\\c", b"^", b"$", b"\xc3\xa9", b"\xff", b"-", b",", b"=", b" ", b"\\b", b"\\0", b"\\k", b"<", b">", b"!"]
RE_FLAGS = [b"", b"", b"", b"g", b"g", b"i", b"m", b"gi", b"gim", b"y", b"u", b"s", b"d", b"gg", b"x", b"G", b"g1", b"$", b"_",
            b"\\u0067", b"gimsuyd", b"ig" * 8, b"\xc3\xa9"]
RE_OPEN = [b"/abc", b"/a\\", b"/a\\/", b"/[/", b"/[/]", b"/(", b"/a\nb/", b"/a\r/", b"/a/\ng", b"/\n/", b"/a\\\nb/",
           b"/a\xe2\x80\xa8b/", b"/", b"/=", b"/=/", b"/ /", b"/*/", b"/[\n]/", b"/\\\n/", b"/a/g/", b"/a//", b"/a/ /b/", b"/a/i/b/g"]

BT_FORMS = [b"`a`", b"``", b"`a ${b} c`", b"`${", b"`${a", b"`${}`", b"`$`", b"`$${a}`", b"`a\nb`", b"`a\r\nb`", b"`a\\`b`",
            b"`a${`b`}c`", b"`${a + `${b}`}`", b"`\\u0041`", b"`\\x4`", b"`\\u{41}`", b"`\\u12`", b"`\\0`", b"`\\08`", b"`a",
            b"`a\\", b"`a\\\n`", b"`a\\\r\n`", b"tag`x`", b"f`a${b}`", b"`a`.length", b"`a` + `b`", b"`a``b`", b"`\xff`",
            b"`\xe2\x80\xa8`", b"`'\"`", b"'`'", b"\"`\"", b"`'", b"'`", b"`\"`'`'", b"`<div class=\"${c}\">${t}</div>`",
            b"`line1\n  line2 ${x}\n`", b"`\\${a}`", b"`${'`'}`", b"`}`", b"`{`", b"`${{a:1}}`", b"({`k`: 1})", b"a.`b`",
            b"`a`(1)", b"`a`[0]", b"new `a`", b"`\\`", b"`\\\\`", b"`\t`", b"`\x00`", b"` ` `"]

NUM_FORMS = [b"0", b"00", b"01", b"07", b"08", b"09", b"010", b"0777", b"0888", b"08.5", b"09e1", b"07.5", b"0.", b"0.0", b".0",
             b".", b"..", b"0..", b"1..x", b"1.x", b"1.toString()", b"1 .x", b"1.0.x", b"1.2.3", b".5.5", b"0x", b"0X", b"0x1g",
             b"0xG", b"0x1.8", b"0x1p3", b"0xfffffffffffffffff", b"0x7fffffffffffffff", b"0x8000000000000000", b"0b101",
             b"0B1", b"0o17", b"0O8", b"0b", b"0o", b"1_000", b"_1", b"1_", b"1n", b"0n", b"0x1n", b"1e", b"1e+", b"1e-", b"1E",
             b"1e1", b"1e+1", b"1e-1", b"1e1.5", b"1e1e1", b"1ee1", b"1e1000", b"1e-1000", b".e1", b".0e", b"5.e3", b"5.e",
             b"0e", b"0e0", b"00e1", b"0.e1", b"1a", b"1$", b"1_a", b"3in x", b"3 in x", b"1if", b"0xin", b"1.e", b"1.e+",
             b"9007199254740993", b"9223372036854775807", b"9223372036854775808", b"18446744073709551616", b"1" + b"0" * 400,
             b"0." + b"0" * 400 + b"1", b"1e" + b"9" * 30, b"0" * 40, b"0" * 40 + b"8", b"\xd9\xa1", b"1\xd9\xa1",
             b"\xef\xbc\x91", b"1\\u0061", b"0\\u0078", b"+.5", b"-0", b"- -1", b"-0x1", b"+0x", b"1++", b"++1", b"1--1",
             b"1 2", b"1,2", b"0,0", b"1/2/3", b"1/ 2/g", b"Infinity", b"NaN", b"-Infinity", b"1.5.toFixed", b"1..5", b"0.5.",
             b"01.5", b"00.5", b"0x.5", b"1e0x1", b"0xe+1", b"0xe-1", b"0xE+1"]

ID_FORMS = [b"\\u0061", b"a\\u0062c", b"\\u0061\\u0062", b"\\u{61}", b"a\\u{62}", b"\\u00", b"\\u006", b"\\u", b"\\u006g",
            b"\\U0061", b"\\x61", b"\\a", b"\\uD800", b"\\uDC00", b"\\uD83D\\uDE00", b"\\u0030a", b"a\\u0030", b"\\u0020",
            b"a\\u0020b", b"\\u002e", b"a\\u002eb", b"\\u0024", b"\\u005f", b"\\u00e9", b"\\u200c", b"a\\u200d", b"\\uFEFF",
            b"\\uffff", b"\\u0000", b"a\\u0000", b"\\u0069f", b"\\u0069f (a) b", b"v\\u0061r x", b"var v\\u0061r", b"\\u0076ar a",
            b"n\\u0065w X", b"typ\\u0065of a", b"tru\\u0065", b"nul\\u006c", b"th\\u0069s", b"\\u0066unction f(){}",
            b"function \\u0066(){}", b"function f(\\u0061){}", b"a.\\u0062", b"a.b\\u0063", b"a.\\u0069f", b"({\\u0061: 1})",
            b"({a\\u0062: 1})", b"({get \\u0061(){}})", b"var \\u0061 = 1", b"var a\\u0062 = 1, \\u0063", b"\\u0061 = 1",
            b"\\u0061++", b"\\u0061: x", b"\\u0061\\", b"\\\\u0061", b"\\u0061\\u", b"a\\", b"a\\b", b"a\\ub", b"\xc3\xa9",
            b"a\xc3\xa9", b"\xc3\xa9a", b"\xe2\x84\xab", b"\xf0\x9d\x92\x9c", b"\xf0\x9f\x98\x80", b"a\xcc\x81", b"\xcc\x81a",
            b"\xe2\x80\x8ca", b"a\xe2\x80\x8c", b"\xc2\xaa", b"\xef\xbf\xbf", b"\xe2\x80\xa8a", b"a\xe2\x80\xa9", b"\xef\xbb\xbfa",
            b"a\xef\xbb\xbf", b"\xc2\xa0a", b"a\xc2\xa0", b"\xe1\x9a\x80a", b"\xe3\x80\x80a", b"\xc2\x85a", b"$\\u0061", b"_\\u0061",
            b"\\u0061$", b"\\u{0}", b"\\u{}", b"\\u{61", b"\\u{110000}", b"\\u{0000000061}", b"'\\u0061' + \\u0061"]

# surroundings of a literal: {L} is replaced by the literal (a regular expression may follow each of these)
CTX_EXPR = [b"{L}", b"{L}", b"{L}", b"({L})", b"{L}.test(s)", b"s.replace({L}, \"-\")", b"s.replace({L}, '$1').trim()",
            b"var r = {L};", b"var r = {L}, q = {L}", b"x = {L}", b"x += {L}", b"f({L}, {L})", b"f(a, {L})", b"[{L}]", b"[{L}, {L},]",
            b"({k: {L}})", b"({k: {L}, j: {L}})", b"a ? {L} : b", b"a ? b : {L}", b"{L} ? a : b", b"!{L}", b"typeof {L}", b"void {L}",
            b"s.split({L}).length", b"s.match({L})[0]", b"a = b, {L}", b"a\n{L}", b"a;\n{L}", b"a || {L}", b"a && {L}.test(a)",
            b"a == {L}", b"a + {L}", b"a in {L}", b"new {L}", b"new RegExp({L})", b"{L}[0]", b"{L}.source.length", b"{L}({L})",
            b"if ({L}.test(x)) { y }", b"if (a) {L}; else {L}", b"for (;;) {L}", b"for (var i = {L}; ;) ;", b"while ({L}) break",
            b"do {L}; while (0)", b"switch ({L}) { case {L}: }", b"try { {L} } catch (e) { {L} }", b"throw {L}", b"with ({L}) a",
            b"l: {L}", b"{ {L} }", b";{L};", b"function f() { return {L} }", b"(function(){ return {L} })()", b"return {L}",
            b"return {L};", b"return s.replace({L}, '')", b"/* c */ {L} // d", b"{L} /* c */", b"// {L}\n{L}", b"/* {L} */ {L}",
            b"'{L}'", b"\"a\" + {L}", b"{L} {L}", b"{L}\n{L}", b"{L}/{L}", b"a / {L} / b", b"a /= {L}", b"a\n/{L}/g", b"a++ {L}",
            b"a++\n{L}", b"){L}", b"]{L}", b"}}{L}", b"{L})", b"{L}]", b"({L}", b"[{L}", b"a.{L}", b"a[{L}]", b"{L}: 1", b"({ {L}: 1 })",
            b"var {L} = 1", b"function {L}() {}", b"function f({L}) {}", b"{L} = 1", b"{L}++", b"++{L}", b"delete {L}", b"{L} => 1"]

SPECIAL_KINDS = ["sourcemap", "regexp_valid", "regexp_re2", "regexp_invalid", "regexp_random", "regexp_open", "backtick",
                 "number", "ident_escape"]


def special_literal(rng, kind=None):
    """(kind, literal bytes)"""
    kind = kind or rng.choice(SPECIAL_KINDS[1:])
    if kind == "regexp_valid":
        return kind, b"/" + rng.choice(RE_VALID) + b"/" + rng.choice(RE_FLAGS)
    if kind == "regexp_re2":
        return kind, b"/" + rng.choice([b"", b"", b"a", b"^", b"(b)"]) + rng.choice(RE_RE2) + rng.choice([b"", b"", b"x", b"$"]) + \
            b"/" + rng.choice(RE_FLAGS)
    if kind == "regexp_invalid":
        return kind, b"/" + rng.choice([b"", b"", b"a"]) + rng.choice(RE_INVALID) + rng.choice([b"", b"", b"b"]) + b"/" + \
            rng.choice(RE_FLAGS)
    if kind == "regexp_random":
        body = b"".join(rng.choice(RE_ATOMS) for _ in range(rng.choice([1, 2, 2, 3, 3, 4, 5, 8])))
        if body[:1] in (b"*", b"/") or not body:
            body = b"a" + body
        return kind, b"/" + body + b"/" + rng.choice(RE_FLAGS)
    if kind == "regexp_open":
        return kind, rng.choice(RE_OPEN)
    if kind == "backtick":
        return kind, rng.choice(BT_FORMS)
    if kind == "number":
        return kind, rng.choice(NUM_FORMS)
    if kind == "ident_escape":
        return kind, rng.choice(ID_FORMS)
    raise ValueError(kind)


def fill(ctx, lit, rng, other=None):
    """put the literal into every {L} of the context (the second {L}: sometimes another literal)"""
    parts = ctx.split(b"{L}")
    out = parts[0]
    for i, p in enumerate(parts[1:]):
        out += (other if (i and other is not None and rng.random() < 0.5) else lit) + p
    return out


def byte_edit(src, rng):
    """one or two small edits: cut, delete, insert, duplicate"""
    s = bytearray(src)
    for _ in range(rng.choice([1, 1, 2])):
        m = rng.random()
        pos = rng.randrange(len(s) + 1)
        if m < 0.3:
            s = s[:pos]
        elif m < 0.5 and s:
            del s[min(pos, len(s) - 1)]
        elif m < 0.8:
            s[pos:pos] = bytes([rng.choice(HOT)])
        else:
            s[pos:pos] = s[max(0, pos - rng.randint(1, 4)):pos]
    return bytes(s)


# ------------------------------------------------------------------ constructs left open
# Every construct of the language that has an end - string literals in the three quote styles, template
# placeholders, regular expression literals (and the character class inside one), block comments, brackets of
# every kind, escape sequences, line continuations, statements and operators that want more - cut off before
# that end: at the end of the input, before a line terminator that ends the input, and before a line terminator
# that is followed by more text (also by the very closer that is missing).  The scanner loops of the lexer all
# have the shape "read until the closer"; what ends them when the closer never comes is the subject here.

LINE_TERMS = [b"\n", b"\n", b"\r", b"\r\n", b"\xe2\x80\xa8", b"\xe2\x80\xa9"]
OPEN_KINDS = ["string_dq", "string_sq", "template", "template_placeholder", "regexp", "regexp_class", "block_comment",
              "line_comment", "brackets", "escape_at_end", "line_continuation", "half_statement"]
OPEN_BODY = [b"a", b"abc", b"x y", b" ", b"1", b"$", b"{", b"}", b"${", b"${a}", b"(", b")", b"[", b"]", b"//", b"/*", b"*/", b"/",
             b"\\\\", b"\\n", b"\\t", b"\\u0041", b"\\x41", b"\\0", b"\xc3\xa9", b"\xe2\x82\xac", b"\t", b";", b",", b"<b>", b"=", b"+",
             b"return", b"function", b"\x00", b"\x7f", b"\xff", b"#", b"@", b"?", b":"]
OPENERS = [b"(", b"(", b"[", b"[", b"{", b"{", b"f(", b"a[", b"{a:", b"({", b"[{", b"([", b"(function(){", b"(function(a){ return ",
           b"new X(", b"x = {", b"x = [", b"if (", b"if (a) {", b"for (", b"for (;;) {", b"for (var k in o) {", b"while (", b"while (a) {",
           b"function f(", b"function f(a, ", b"function f() {", b"switch (x) {", b"switch (x) { case 1: {", b"try {",
           b"try {} catch (e) {", b"try {} finally {", b"do {", b"with (a) {", b"l: {", b"a ? (", b"a.b(", b"a(b(", b"{a:{b:", b"[[", b"(("]
OPEN_FILL = [b"", b"", b"", b"a", b"1", b"a, ", b"a, b", b"a: ", b"'s', ", b"a + ", b"a;", b"a\n", b" ", b"/* c */", b"a = ", b"!"]
HALF = [b"a ?", b"a ? b", b"a ? b :", b"a +", b"a -", b"a *", b"a /", b"a %", b"a &&", b"a ||", b"a ==", b"a <", b"a >>>", b"a,", b"a =",
        b"a +=", b"a /=", b"!", b"-", b"~", b"- -", b"++", b"--", b"a++ +", b"typeof", b"void", b"delete", b"new", b"new X(", b"new new",
        b"a.", b"a.b.", b"a[", b"a instanceof", b"a in", b"var", b"var a =", b"var a,", b"var a = 1,", b"return", b"return (", b"throw",
        b"if", b"if (", b"if (a)", b"if (a) b; else", b"for", b"for (", b"for (;", b"for (;;", b"for (;;)", b"for (var k in", b"while",
        b"while (a)", b"do", b"do x; while", b"do x; while (", b"function", b"function f", b"function f(", b"function f()", b"function f(a,",
        b"x = function", b"x = function(", b"(function", b"l:", b"l: m:", b"case", b"switch", b"switch (a)", b"switch (a) {",
        b"switch (a) { case", b"switch (a) { case 1", b"switch (a) { case 1:", b"switch (a) { default", b"try", b"try {}", b"try {} catch",
        b"try {} catch (", b"try {} catch (e", b"try {} catch (e)", b"try {} finally", b"with", b"with (a)", b"break", b"continue l",
        b"({a:", b"({a", b"({a:1,", b"({get a", b"({get a(", b"({get a()", b"({set a(v", b"({'a'", b"({1:", b"[a,", b"[,", b"[a", b"f(a,",
        b"f(a", b"a ? b : c ?", b"debugger", b"else", b"catch", b"finally", b")", b"]", b"}", b"a)", b"a]", b"a}", b"*/", b"a */"]


def open_body(rng, forbid, n=None):
    """text for the inside of a literal or comment that contains none of the byte strings in `forbid`"""
    out = b""
    for _ in range(rng.choice([0, 1, 1, 2, 3, 5, 9]) if n is None else n):
        t = rng.choice(OPEN_BODY)
        if any(f in out[-2:] + t for f in forbid):
            continue
        out += t
    return out


def open_construct(rng, kind):
    """(construct left open, the closer it lacks)"""
    r = rng
    if kind in ("string_dq", "string_sq"):
        q = b'"' if kind == "string_dq" else b"'"
        body = open_body(r, [q, b"\n", b"\r", b"\xe2\x80"])
        if r.random() < 0.25:
            body += b"\\" + q + open_body(r, [q], 1)          # an escaped quote is not the end
        return q + body, q
    if kind == "template":
        body = open_body(r, [b"`"])
        if r.random() < 0.4:
            body += r.choice([b"${a}", b"${ a + 1 }", b"${f('x')}", b"${\"s\"}", b"${{a:1}.a}", b"$", b"${}", b"\\`", b"\\${", b"}", b"'", b'"'])
            body += open_body(r, [b"`"], 1)
        return b"`" + body, b"`"
    if kind == "template_placeholder":
        head = b"`" + open_body(r, [b"`", b"${"], r.choice([0, 1, 2])) + b"${"
        inner = r.choice([b"", b"a", b" a ", b"a +", b"a.", b"f(", b"f(a", b"{a:1", b"[1,", b"a ? b :", b"'s", b"\"s", b"'s'", b"`in", b"`in${b",
                          b"`in${b}`", b"a}", b"a} tail", b"a}${", b"a}${b", b"/re", b"/re/", b"/* c", b"// c", b"a\n", b"\\", b"a \\"])
        return head + inner, b"}`"
    if kind == "regexp":
        body = b"".join(x for x in (r.choice(RE_ATOMS) for _ in range(r.choice([0, 1, 2, 3, 5]))) if b"/" not in x or x == b"\\/")
        if r.random() < 0.3:
            body += r.choice([b"\\/", b"\\", b"(", b"(?:", b"(?=", b"{1,", b"\\u00", b"\\x4", b"\\c"])
        pre = r.choice([b"", b"", b"", b"x = ", b"(", b"a, ", b"!", b"return "])
        return pre + b"/" + (body if body[:1] not in (b"*", b"/") else b"a" + body), b"/"
    if kind == "regexp_class":
        body = r.choice([b"", b"a", b"a-", b"^", b"^/", b"/", b"a/b", b"\\]", b"\\", b"[", b"[:alpha:", b"a-z/g", b"\\/", b"]/[", b"/]/["])
        return r.choice([b"", b"x = ", b"("]) + b"/" + r.choice([b"", b"a", b"(", b"\\d"]) + b"[" + body, b"]/"
    if kind == "block_comment":
        body = open_body(r, [b"*/"])
        body += r.choice([b"", b"", b"*", b"/", b"* /", b"*\\/", b"/*", b"**", b"`", b"'", b'"', b"${"])
        return r.choice([b"", b"", b"a ", b"a + ", b"x = 1; ", b"f(", b"'s' "]) + b"/*" + body, b"*/"
    if kind == "line_comment":
        body = open_body(r, [b"\n", b"\r", b"\xe2\x80"]) + r.choice([b"", b"`", b"'", b'"', b"/*", b"\\", b"${", b"(", b"# sourceMappingURL=x"])
        return r.choice([b"", b"a ", b"a + ", b"x = 1; ", b"f( "]) + b"//" + body, b"\n"
    if kind == "brackets":
        d = r.choice([1, 1, 2, 2, 3, 4, 6, 10])
        out, closers = b"", []
        for _ in range(d):
            o = r.choice(OPENERS)
            out += o + r.choice(OPEN_FILL)
            closers.append(b"".join({40: b")", 91: b"]", 123: b"}"}[b] for b in reversed(o) if b in b"([{"))
        full = b"".join(reversed(closers))
        m = r.random()
        if m < 0.55:
            keep = b""                                           # nothing closed
        elif m < 0.8:
            keep = full[:r.randrange(len(full))]                 # some closed, not all
        elif m < 0.9:
            keep = full[:-1] if len(full) > 1 else b""           # all but the outermost
        else:
            k = r.randrange(len(full))
            keep = full[:k] + r.choice([b")", b"]", b"}"]) + full[k + 1:]    # one closer of the wrong kind
            keep = keep[:r.randrange(1, len(keep) + 1)]
        return out + r.choice([b"", b"a", b"1"]) + keep, full[len(keep):] or b")"
    if kind == "escape_at_end":
        q = r.choice([b'"', b"'", b"`", b"`", b"/", b""])
        body = open_body(r, [b'"', b"'", b"`", b"/", b"\n", b"\r", b"\xe2\x80"], r.choice([0, 1, 2]))
        if q == b"`" and r.random() < 0.4:
            body += b"${a}"
        esc = r.choice([b"\\", b"\\", b"\\", b"\\u", b"\\u0", b"\\u00", b"\\u004", b"\\x", b"\\x4", b"\\u{", b"\\u{4", b"\\u{41", b"\\0",
                        b"\\c", b"\\\\\\", b"\\1", b"\\8"])
        if q == b"":
            return r.choice([b"", b"a", b"a.", b"var ", b"a + "]) + esc, b""
        return r.choice([b"", b"", b"x = ", b"f("]) + q + body + esc, q
    if kind == "line_continuation":
        q = r.choice([b'"', b"'", b"`", b"`", b"/", b"", b"//", b"/*"])
        body = open_body(r, [b'"', b"'", b"`", b"/", b"\n", b"\r", b"\xe2\x80"], r.choice([0, 1, 2]))
        cont = b"\\" + r.choice(LINE_TERMS)
        if r.random() < 0.25:
            cont = cont + body[:2] + cont                        # two continued lines
        return (r.choice([b"a", b"a +", b"var a ="]) + b" " if q == b"" else r.choice([b"", b"", b"x = "]) + q + body) + cont, \
            (b"*/" if q == b"/*" else b"" if q in (b"", b"//") else q)
    if kind == "half_statement":
        return r.choice(HALF), b""
    raise ValueError(kind)


def open_text(rng, kind=None, nested=True):
    """(kind, text): an open construct in some surroundings with some ending"""
    r = rng
    kind = kind or r.choice(OPEN_KINDS)
    c, closer = open_construct(r, kind)
    m = r.random()
    if m < 0.3:
        pre = b""
    elif m < 0.6:
        pre = r.choice(CTX_EXPR).split(b"{L}")[0]                  # what stands before a literal somewhere
    elif m < 0.8:
        e = print_expr(ExprGen(r, 3).expr(r.randint(0, 3)), r, 0.05, 0.3)
        pre = e + r.choice([b" + ", b", ", b";\n", b"\n", b" = ", b" ? ", b"(", b" ", b";", b" || ", b"["])
    elif nested:
        k2 = r.choice(["template_placeholder", "template_placeholder", "brackets", "brackets", "half_statement", "template",
                       "string_dq", "block_comment", "regexp_class"])
        pre = open_construct(r, k2)[0] + r.choice([b"", b" ", b"\n"])   # open inside open
    else:
        pre = b""
    e = r.random()
    if kind == "line_continuation":
        e = e * 0.7 + (0.0 if e < 0.6 else 0.3)                   # mostly: the continuation IS the end of the input
    if e < 0.5:
        tail = b""
    elif e < 0.7:
        tail = r.choice(LINE_TERMS)
    else:
        tail = r.choice(LINE_TERMS) + r.choice([b"b", b"b;", b";x = 1", b"x = 1\n", b"  b", closer, closer, closer + b";", closer + b"\n",
                                                b"b" + closer, b"*/", b"`", b"'", b'"', b"/", b")", b"}", b"]", b"})", b"// c", b"/* c */ b",
                                                b"\n", b"\n\n" + closer])
    return kind, pre + c + tail


# ------------------------------------------------------------------ the property

CLASSES = {"ok": 0, "err": 1, "panic": 2, "crash": 2, "hang": 3, "timeout": 3}
JUDGE_MAX = 2500        # larger inputs are observed only (extra), not run through the model
BIG_QUICK = 10000       # never larger in the quick tier (a 10^6-deep nesting kills the process: F-C15-c)
BIG_THOROUGH = 100000   # only in a child process under ulimit -v and a timeout


def mk(mode, src, stream, want=None, tree=None, params=b"", kind=None):
    c = {"mode": mode, "params": hx(params), "src": hx(src), "stream": stream}
    if want is not None:
        c["want"] = hx(want)
    if tree is not None:
        c["tree"] = tree
    if kind is not None:
        c["kind"] = kind
    return c


def step_of(c):
    return {"mode": c["mode"], "params": c["params"], "src": c["src"]}


def step_key(st):
    return (st["mode"], st["params"], st["src"])


def func_want(stmts_dump):
    return "(prog (expr (fun - () (%s))))" % "".join(stmts_dump)


class C15(Prop):
    id = "C15"
    engine = "C15"
    judge_module = "Run.Judge_C15"
    prop_module = "Props.C15"
    prop_file = "Props/C15.v"
    coq_targets = ["Props/C15.vo", "Run/Judge_C15.vo"]
    sizes = {"quick": 2300, "thorough": 40000}
    shard = 250
    design_ref = "DESIGN.md section 6 C15"
    rule = ("stream 1 (28%): generated expression trees of the supported subset (depth <= 8 quick / 14 thorough) printed "
            "with minimal parentheses plus random redundant parentheses, white space, line breaks and comments, through "
            "ParseFile and (as `return e` / statement lists) ParseFunction; oracle = the generator's own tree; "
            "stream 2 (21%): 1-3 byte-level mutations of those texts over the subset alphabet, Go vs model on tree / error; "
            "stream 3 (17%): arbitrary bytes, invalid UTF-8, unterminated literals, every escape form, nesting up to 600 deep "
            "(judged), plus inputs up to 10^4 bytes (quick) observed only: must return, no panic, same answer twice; "
            "stream 6 (10%): constructs left open - every construct of the language that has an end, cut off before it: "
            "string literals in double quotes, single quotes and back-ticks (back-tick bodies with complete ${...} "
            "placeholders, $, }, escaped back-ticks), a template placeholder `...${ with a half expression / another open "
            "literal / an open comment inside, regular expression literals and the character class inside one, block "
            "comments, line comments, 1-10 nested brackets of every kind ( [ { f( a[ {a: function bodies, statement "
            "heads; none / some / all but one closed, one closer of the wrong kind), an escape sequence cut at every "
            "length (\\ \\u \\u00 \\x4 \\u{4 ...) as the last thing of a string / template / regular expression / identifier, "
            "a line continuation (\\ + LF, CR, CRLF, U+2028, U+2029) as the last thing of the input in each literal kind, in a "
            "comment and outside, and about 130 half statements and dangling operators; each alone, after what stands "
            "before a literal in about 100 surroundings, after a generated expression, or inside another open construct; "
            "ending at the end of the input (50%), before a line terminator that ends the input (20%), before a line "
            "terminator followed by more text - also by the missing closer itself (30%); as program and as function body "
            "(where the wrapper's `\\n})` follows), 12% of the function cases with the open construct in the parameter "
            "list; a fifth of them additionally in processes of their own; evidence counter open_construct_endings; "
            "stream 4 (13%): the comment and literal forms the parser treats specially, each well-formed, truncated and "
            "malformed - source map comments (//# and //@ sourceMappingURL=, /*# ... */, as last line / followed by a line "
            "break / in the middle; data: URLs with base64 payload of valid, damaged and non-source-map JSON, cut base64, no "
            "comma, no payload, plain file names, empty), regular expression literals (valid; valid in JavaScript but not in "
            "re2: look-ahead, back-references; invalid: open groups / classes, bad repeats, named groups, look-behind, "
            "\\p, invalid UTF-8; random atom sequences; every kind of flags; unterminated literals), back-tick strings "
            "with ${...}, line breaks and escapes, numeric literal edge forms, unicode escapes and non-ASCII letters in "
            "identifiers - alone, inside about 100 surroundings (call argument, var, condition, every statement form, after "
            "tokens where `/` means division), inside a generated expression, with 1-2 byte edits; as program and as "
            "function body (also in the parameter list); each in a process of its own (twice in a row) and once more in a "
            "freshly started process; "
            "stream 5 (11%): histories - the case's input A (a special form in some surroundings 60%, a generated "
            "expression with its tree 25%, hostile bytes or an open construct 15%) is parsed 2-4 times in one process of its "
            "own, before / "
            "between / after 1-6 other inputs that share sub-strings with A (the same literal alone and in other "
            "surroundings and through the other entry point, another literal in A's surroundings, A with a byte edit, "
            "prefixes, suffixes, sub-strings; 6% of the histories put 20-150 different inputs between two parses of A), and "
            "once in a freshly started process; every input that occurs more than once in a history must get the same "
            "answer class and the same whole-tree fingerprint each time, and no parse may panic or hang. "
            "EVERY parse of every stream runs in a child process under a watchdog: a parse that has not come back after "
            "2 s of processor time (+0.05 s per kB^2; the unchanged code needs milliseconds) or 38 s on the clock is recorded "
            "as class `hang` for that input, the child is ended and replaced, the input is asked again in a fresh process "
            "alone, and the judge counts a hang (class 3) or a killed process (class 2) as a violation like a panic; the "
            "shrinker minimises such an input like any other. "
            "non-trivial = at least 3 bytes; distinct by SHA-1 of the case")
    trusted = [
        "M (coq/Js/Lex.v, coq/Js/Parse.v) is a hand-written reading of otto/parser lexer.go, expression.go, statement.go, "
        "parser.go for the supported subset (one Gallina definition per Go function, open recursion closed on fuel); it "
        "stops at the first recorded error (answer class only: tree / error; no messages, no positions)",
        "PARTIAL: crash freedom and termination of the Go code itself (run-time panics such as nil dereference or index "
        "out of range, stack exhaustion, endless loops, syntax outside the model) are OBSERVED, not proved; the theorems "
        "C15_fuel / C15_no_model_panic are statements about M.  How they are observed (harness/c15.go): the runner parses "
        "nothing itself; every parse runs in a child process (batches of plain cases share one, histories have their "
        "own) in a goroutine under recover() and a watchdog that measures the PROCESSOR time the child has used since the "
        "parse began (2 s + 0.05 s per kB^2; the slowest path of the unchanged code, 10^4 unmatched brackets, needs 75 ms) "
        "and, as a second line, the clock (30 s + 4 times that).  A parse over the bound is class `hang` for that very "
        "input; the child ends (a looping goroutine cannot be stopped), the runner - which reads the children's answers "
        "line by line and so knows the input a child was busy with - starts a new one for the rest; a child killed by the "
        "Go runtime (stack exhaustion, out of memory under a 6 GB address space limit) is class `crash` for the input it "
        "was busy with.  A hang or crash seen in a shared child is asked again in a fresh process alone and that second "
        "answer is the one recorded (until three were seen again; evidence counter "
        "hangs_or_crashes_not_seen_again_alone).  Once 12 cases of a run are recorded with a hang or crash, the children "
        "started later work with a quarter of the bounds (a tree on which many inputs hang must not take the check ten "
        "minutes; a replay or a shrinking step is a run of its own under the full bounds).  An endless loop that shows only after particular earlier parses in the "
        "same process is seen in the histories (stream 5) only, not among the plain cases; a parse that is merely slow "
        "(below the bound) never alarms",
        "PARTIAL: 'the same answer every time' is OBSERVED, not proved: M is a function of the text by construction, the "
        "Go parser could keep state between calls (package variables, caches, pools).  Streams 4 and 5 parse equal inputs "
        "repeatedly in one process around related inputs and in a freshly started process and compare the answer class and "
        "a fingerprint of the whole tree (harness/c15.go c15Fingerprint: SHA-1 over every field of every node read by "
        "reflection, positions included; the *file.File of a program and comment maps are not walked); the judge "
        "(Run/Judge_C15.v hist_ok) compares them inside Coq.  State that shows only after more than 150 (quick) / 600 "
        "(thorough) other inputs, only under concurrent parses, or only in fields outside the returned tree is not seen",
        "the harness's AST dump (harness/c15.go) and the generator's printer/dump (gen/c15.py, an independent statement "
        "of ECMA-262 precedence used as the oracle of stream 1) are trusted to be written correctly; a mistake shows up "
        "as an alarm, not as silence",
        "the judge's reject-oracle (balanced brackets / closed literals, Run/Judge_C15.v bal) only turns a Go-vs-model "
        "disagreement into a violation; acceptance of non-JavaScript by both (an object key may be any token) is a "
        "reproduced quirk, not part of C15",
    ]
    assumptions = [
        "outside the model (POutside, counted as unmodelled, judged by the observation oracle alone: returns a tree or an "
        "error value, no panic, no hang, the same answer class and tree on every repetition): regular expression literals, "
        "statements other than expression / var / return / empty, labels, getters/setters, &^=, identifier escapes, "
        "non-ASCII characters outside strings and comments, U+2028/9 in comments; and ParseFile texts that contain "
        "`sourceMappingURL=data:application/json` (the inline source map is decoded by encoding/base64 and "
        "github.com/go-sourcemap/sourcemap: a payload that does not decode to a source map turns the answer into an error "
        "value whatever the text is).  About a quarter of the open constructs of stream 6 fall here (open regular "
        "expressions, statement heads)",
        "mode 0 only (what pugjs passes to ParseFile; ParseFunction has no mode): IgnoreRegExpErrors and StoreComments are "
        "not exercised",
        "scope.allowIn is constantly true in the model (it is false only inside a for-statement head, outside the model)",
        "the nesting limit of 100000 levels (repair of F-C15-c) is not modelled; inputs shorter than 100000 bytes cannot "
        "reach it (the judged inputs are at most 2500 bytes)",
        "invalid UTF-8 is modelled as one whole-text test (read() records an error for every malformed sequence and the "
        "parser reads the text strictly left to right)",
        "termination is observed up to a bound: an input of kB size on which the parser needs more than 2 s of processor "
        "time without looping forever would be reported as a hang (none known: 75 ms for 10^4 bytes), one "
        "that loops for less than the bound and then returns is not a hang",
    ]
    not_yet_proved = [
        "the round-trip theorems quantify over the subset wf (Js/Show.v): identifiers, decimal integer literals, string "
        "literals of plain ASCII characters in any of the three quotes, true/false/null/this, array and object literals "
        "without elisions, member/index/call/new, all unary, postfix, binary, conditional, assignment and comma "
        "operators, to any depth; hex/octal/float literals, escape sequences, non-ASCII strings, elisions, function "
        "literals and statement lists are covered by the correspondence streams only",
        "the printers separate tokens by single spaces; arbitrary white space, comments and redundant parentheses "
        "(beyond the minimal and the fully parenthesised form) are covered by the correspondence streams only",
        "the theorems are about the model M; that the Go code computes what M computes is checked per run on generated "
        "cases, not proved",
        "termination of the Go scanner loops (scanString, the regular expression, comment and identifier scanners) on "
        "input that never supplies the closer is not proved: M terminates by construction (structural recursion on the "
        "text / fuel, C15_fuel), the Go loops are watched per input (class hang)",
        "no theorem covers regular expression literals, source map comments, identifier escapes or the independence of an "
        "answer from earlier parses: these are checked by observation only (streams 4 and 5)",
    ]

    # -------------------------------------------------------------- generation
    def gen_expr_case(self, rng, tier):
        maxd = 8 if tier == "quick" else 14
        while True:
            d = rng.choice([1, 2, 2, 3, 3, 4, 5, 6, maxd])
            e = ExprGen(rng, d).expr(d)
            if len(dump(e)) <= 6000:       # keeps the printed text below about 3 kB (the judge runs the model on it)
                return e

    def case_from_tree(self, e, rng, mode=None):
        paren_p = rng.choice([0, 0, 0.05, 0.15, 0.3])
        ws_p = rng.choice([0, 0.2, 0.5, 1.0])
        cr_p = rng.choice([0, 0, 0.03])
        mode = mode or ("file" if rng.random() < 0.7 else "func")
        if mode == "file":
            src = print_expr(e, rng, paren_p, ws_p, True, cr_p)
            want = "(prog (expr %s))" % dump(e)
        else:
            body = print_expr(e, rng, paren_p, ws_p, False, cr_p)
            src = b"return " + body + rng.choice([b"", b";", b" ", b"\n"])
            want = func_want(["(return %s)" % dump(e)])
        return mk(mode, src, 1, want.encode(), tree=e)

    def gen_stmts_case(self, rng, tier):
        # statement lists for ParseFunction / ParseFile: var, expression statements, return, empty
        n = rng.randint(1, 4)
        parts, dumps = [], []
        mode = rng.choice(["file", "func"])
        for i in range(n):
            m = rng.random()
            e = ExprGen(rng, 3).expr(rng.randint(0, 3))
            txt = print_expr(e, rng, 0.05, 0.3, True)
            if m < 0.3:
                names = rng.sample(IDS, rng.randint(1, 3))
                ds, dd = [], []
                for x in names:
                    if rng.random() < 0.7:
                        e2 = ExprGen(rng, 2).expr(rng.randint(0, 2))
                        ds.append(x.encode() + b" = " + render(toks(e2, P_ASSIGN, 0, None), None, 0))
                        dd.append("(%s %s)" % (x, dump(e2)))
                    else:
                        ds.append(x.encode())
                        dd.append("(%s)" % x)
                parts.append(b"var " + b", ".join(ds) + rng.choice([b";", b";\n", b"\n"]))
                dumps.append("(var %s)" % " ".join(dd))
            elif m < 0.4:
                parts.append(b";")
                dumps.append("(empty)")
            elif m < 0.6 and mode == "func" and i == n - 1:
                parts.append(b"return " + txt + rng.choice([b"", b";"]))
                dumps.append("(return %s)" % dump(e))
            else:
                if e[0] == "id":
                    e = ("pre", "!", e)         # `x` followed by a line break and `:`-less text is fine, but keep it simple
                    txt = print_expr(e, rng, 0, 0.3, True)
                parts.append(txt + rng.choice([b";", b";\n", b" ;", b"\n"]))
                dumps.append("(expr %s)" % dump(e))
        src = b"".join(parts)
        # a statement that ends with a line break must not be continued by the next one
        ok = True
        for a, b in zip(parts, parts[1:]):
            if not a.rstrip(b" \n").endswith(b";") and b[:1] in b"([+-/.*%&|^<>=!?:,;`'\"" + b"i":
                ok = False
            # otto does not end a statement at a line break after a keyword used as a property name
            # (x.in, x.new: insertSemicolon is left as it was); not part of the claimed subset
            if not a.rstrip(b" \n").endswith(b";") and any(a.rstrip(b" \n").endswith(k.encode()) for k in KEYWORDS):
                ok = False
        last = parts[-1].rstrip(b" \n")
        if not last.endswith(b";") and any(last.endswith(k.encode()) for k in KEYWORDS):
            ok = False       # the same at the end of the text: `x.new` + line break + end of input
        if not ok:
            src = b"".join(p if p.rstrip(b" \n").endswith(b";") else p.rstrip(b"\n") + b";\n" for p in parts)
        if mode == "file":
            want = "(prog%s)" % "".join(" " + d for d in dumps)
        else:
            want = func_want(dumps)
        return mk(mode, src, 1, want.encode())

    def gen_hostile(self, rng, tier):
        m = rng.random()
        if m < 0.45:
            src = soup(rng, rng.choice([1, 2, 3, 5, 8, 13, 21, 40, 80, 200]))
        elif m < 0.75:
            src = nest(rng, rng.choice([1, 2, 3, 5, 10, 30, 100, 300, 600]))
            if len(src) > JUDGE_MAX:
                src = src[:JUDGE_MAX]
        else:
            e = self.gen_expr_case(rng, tier)
            src = print_expr(e, rng, 0.1, 0.3)
            cut = rng.randrange(len(src) + 1)
            src = src[:cut] + soup(rng, rng.choice([1, 2, 4])) + (src[cut:] if rng.random() < 0.5 else b"")
        mode = "file" if rng.random() < 0.75 else "func"
        return mk(mode, src, 3)

    def gen_wrapper_breaker(self, rng, tier):
        # function bodies that close the wrapper "(function() {\n" ... "\n})" themselves
        e1 = print_expr(ExprGen(rng, 2).expr(rng.randint(0, 2)), rng, 0, 0.2, False)
        e2 = print_expr(ExprGen(rng, 2).expr(rng.randint(0, 2)), rng, 0, 0.2, True)
        pat = rng.choice([b"return %s}), (function(){ %s", b"%s}); (function(){ %s", b"%s}), (1, function(){ %s",
                          b"return %s}, function(){ %s", b"%s})(function(){ %s", b"}); %s; (function(){ %s",
                          b"%s}) + (function(){ %s", b"%s}), ({a:function(){ %s} ", b"return %s});({%s"])
        return mk("func", pat % (e1, e2), 2)

    # ---- stream 4: the special comment and literal forms, alone / embedded / damaged, as program and as function body
    FUNC_PARAMS = [b"", b"", b"", b"s", b"a, b", b"a,b,c", b" x ", b"a,", b",", b"a b", b")", b"a){", b"a = 1", b"...r", b"if",
                   b"/*c*/a", b"a//\n", b"\\u0061"]

    def special_text(self, rng, tier, kind=None):
        """(kind, literal, text): a special form alone, inside a snippet that is otherwise fine, or damaged"""
        kind = kind or rng.choice(["sourcemap"] * 3 + SPECIAL_KINDS)
        if kind == "sourcemap":
            lit = sm_comment(rng)
            m = rng.random()
            if m < 0.25:
                code = b""
            elif m < 0.75:
                code = print_expr(ExprGen(rng, 3).expr(rng.randint(0, 3)), rng, 0.05, 0.3) + rng.choice([b"", b";", b" "])
                if rng.random() < 0.3:
                    code = b"var v = " + code
            elif m < 0.9:
                code = fill(rng.choice(CTX_EXPR), special_literal(rng)[1], rng)
            else:
                code = soup(rng, rng.choice([2, 5, 12]))
            sep = rng.choice([b"\n"] * 20 + [b"\r\n", b"\n\n", b";\n", b" ", b"\r", b"\n /**/", b"\n\t"])
            tail = rng.choice([b""] * 24 + [b"\n", b"\r\n", b"\r", b" ", b"\n" + lit, b"\nx", b"\n//", b"\n\n"])
            src = (code + sep if code else rng.choice([b"", b"", b"\n", b" "])) + lit + tail
            if rng.random() < 0.06:
                src = byte_edit(src, rng)
            return kind, lit, src
        _, lit = special_literal(rng, kind)
        m = rng.random()
        if m < 0.25:
            src = lit
        elif m < 0.7:
            other = special_literal(rng)[1] if rng.random() < 0.3 else None
            src = fill(rng.choice(CTX_EXPR), lit, rng, other)
        elif m < 0.85:
            # inside a generated expression of the supported subset
            e = print_expr(ExprGen(rng, 3).expr(rng.randint(1, 3)), rng, 0.05, 0.3)
            src = rng.choice([b"(%s) + %s", b"f(%s, %s)", b"[%s, %s]", b"var a = %s;\nvar b = %s;", b"%s ? %s : 0",
                              b"%s;\n%s", b"x = {p: %s, q: %s}"]) % ((e, lit) if rng.random() < 0.7 else (lit, e))
        else:
            src = byte_edit(fill(rng.choice(CTX_EXPR), lit, rng), rng)
        return kind, lit, src

    def gen_special(self, rng, tier, kind=None):
        kind, lit, src = self.special_text(rng, tier, kind)
        mode = "file" if rng.random() < (0.8 if kind == "sourcemap" else 0.6) else "func"
        params = b""
        if mode == "func":
            if rng.random() < 0.4 and not src.startswith(b"return"):
                src = b"return " + src
            m = rng.random()
            params = rng.choice(self.FUNC_PARAMS) if m < 0.5 else lit if m < 0.58 and kind != "sourcemap" else b""
        c = mk(mode, src, 4, params=params, kind=kind)
        c["fresh"] = True      # processes of its own: twice in a row in one, once more in a freshly started one
        return c

    # ---- stream 5: histories.  A is parsed several times in one process, between other inputs that share
    # sub-strings with it, and once in a freshly started process
    def related(self, rng, tier, a, lit, kind):
        """inputs that share sub-strings with A"""
        asrc, out = unhx(a["src"]), []
        other_mode = "func" if a["mode"] == "file" else "file"
        for _ in range(rng.choice([1, 2, 2, 3, 3, 4, 6])):
            m = rng.random()
            if lit is not None and m < 0.2:
                out.append(mk(rng.choice(["file", "func"]), lit, 5))                              # the literal alone
            elif lit is not None and m < 0.5:
                src = fill(rng.choice(CTX_EXPR), lit, rng)                                        # other surroundings
                out.append(mk(rng.choice(["file", "func"]), src, 5))
            elif lit is not None and kind in SPECIAL_KINDS[1:] and m < 0.62:
                lit2 = special_literal(rng, kind if rng.random() < 0.7 else None)[1]              # same surroundings, other literal
                out.append(mk(a["mode"], asrc.replace(lit, lit2), 5, params=unhx(a["params"])))
            elif m < 0.7:
                out.append(mk(other_mode, asrc, 5))                                               # the other entry point
            elif m < 0.8:
                out.append(mk(a["mode"], byte_edit(asrc, rng), 5, params=unhx(a["params"])))      # a small edit
            elif m < 0.88:
                cut = rng.randrange(len(asrc) + 1)                                                # a prefix / a suffix
                out.append(mk(a["mode"], asrc[:cut] if rng.random() < 0.6 else asrc[cut:], 5, params=unhx(a["params"])))
            elif m < 0.94:
                out.append(mk(a["mode"], asrc + rng.choice([b" ", b"\n", b";", b"\n//", b" + 1", b")", b"\\"]), 5,
                              params=unhx(a["params"])))
            else:
                i = rng.randrange(len(asrc) + 1)                                                  # a sub-string
                out.append(mk(rng.choice(["file", "func"]), asrc[i:i + rng.choice([1, 2, 4, 8, 16])], 5))
        return out

    def gen_history(self, rng, tier):
        m = rng.random()
        lit, kind = None, None
        if m < 0.6:
            kind = rng.choice(SPECIAL_KINDS + ["regexp_re2", "regexp_invalid", "regexp_random", "regexp_valid"])
            kind, lit, src = self.special_text(rng, tier, kind)
            mode = "file" if rng.random() < 0.6 else "func"
            if mode == "func" and rng.random() < 0.4:
                src = b"return " + src
            a = mk(mode, src, 5, kind=kind)
        elif m < 0.85:
            # a generated expression (oracle = the generator's own tree); the shared sub-string is one of its leaves' texts
            d = rng.choice([1, 2, 3, 4])
            e = ExprGen(rng, d).expr(d)
            a = self.case_from_tree(e, rng)
            a["stream"], a["kind"] = 5, "expression"
            a.pop("tree")
            leaves = [get_sub(e, p) for p in subpaths(e)]
            leaves = [x for x in leaves if x[0] in ("id", "str", "num")]
            if leaves:
                lit = tb(toks_raw(rng.choice(leaves), 0, None)[0])
        else:
            kind = "hostile"
            a = self.gen_hostile(rng, tier) if rng.random() < 0.5 else self.gen_open(rng, tier)
            kind = a.get("kind") or kind
            if len(a["src"]) > 400:
                a["src"] = a["src"][:400]
            a["stream"], a["kind"] = 5, kind
            lit = None
        a.setdefault("kind", kind)
        sa = step_of(a)
        rel = [step_of(x) for x in self.related(rng, tier, a, lit, kind)]
        rel = [x for x in rel if step_key(x) != step_key(sa)] or [step_of(mk("file", b"a", 5))]
        p = rng.random()
        if p < 0.3:
            hist = [sa] + rel + [sa]
        elif p < 0.5:
            hist = rel + [sa, sa]                     # the others first: what they leave behind meets A's first parse
        elif p < 0.7:
            hist = []
            for x in rel:
                hist += [sa, x]
            hist.append(sa)
        elif p < 0.82:
            hist = [sa, sa] + rel + rel + [sa]
        elif p < 0.94:
            hist = rel[:1] + [sa] + rel + [sa] + rel[:1]
        else:
            # more distinct inputs than any small table holds, between two parses of A
            many = []
            for i in range(rng.choice([20, 70, 150] if tier == "quick" else [70, 150, 600])):
                k2, l2 = special_literal(rng, kind if kind in SPECIAL_KINDS[1:] and rng.random() < 0.7 else None)
                if l2[:1] == b"/" and len(l2) > 1:
                    l2 = b"/%d" % i + l2[1:]            # all different
                many.append(step_of(mk(a["mode"], fill(rng.choice(CTX_EXPR[:12]), l2, rng), 5)))
            many = [x for x in many if step_key(x) != step_key(sa)]
            hist = [sa] + many + rel + [sa]
        a["hist"] = hist
        a["fresh"] = True
        return a

    # ---- stream 6: constructs left open (see open_construct)
    def gen_open(self, rng, tier, kind=None):
        kind, src = open_text(rng, kind)
        mode = "file" if rng.random() < 0.6 else "func"
        params = b""
        if mode == "func":
            m = rng.random()
            if m < 0.35 and not src.startswith(b"return"):
                src = b"return " + src
            elif m < 0.47:
                # the open construct in the parameter list, a sound body behind it
                params, src = rng.choice([b"", b"a, ", b"a /* c */, "]) + open_text(rng, kind, nested=False)[1], \
                    rng.choice([b"return a", b"", b"a = 1;", b"return `t`"])
            elif m < 0.55:
                params = rng.choice(self.FUNC_PARAMS)
        return mk(mode, src, 6, params=params, kind="open_" + kind)

    def generate(self, rng, n, tier):
        cases = []
        for i in range(n):
            m = rng.random()
            if m < 0.23:
                cases.append(self.case_from_tree(self.gen_expr_case(rng, tier), rng))
            elif m < 0.28:
                cases.append(self.gen_stmts_case(rng, tier))
            elif m < 0.46:
                base = self.case_from_tree(self.gen_expr_case(rng, tier), rng)
                src = mutate(unhx(base["src"]), rng)
                cases.append(mk(base["mode"], src, 2))
            elif m < 0.49:
                cases.append(self.gen_wrapper_breaker(rng, tier))
            elif m < 0.66:
                cases.append(self.gen_hostile(rng, tier))
            elif m < 0.76:
                c = self.gen_open(rng, tier)
                if rng.random() < 0.2:
                    c["fresh"] = True      # some of them in processes of their own as well
                cases.append(c)
            elif m < 0.89:
                cases.append(self.gen_special(rng, tier))
            else:
                cases.append(self.gen_history(rng, tier))
        return cases

    # -------------------------------------------------------------- judging
    def history_of(self, case, obs):
        """[(input number, class, fingerprint)]: every parse of the case's process in order, then the fresh process.
        Numbers from the CASE (0 = the case's own input, the others by first appearance), answers from Go."""
        a = step_key(case)
        steps = case.get("hist") or [step_of(case), step_of(case)]
        ids, out = {a: 0}, []
        for st, o in zip(steps, obs.get("steps") or []):
            k = step_key(st)
            if k not in ids:
                ids[k] = len(ids)
            out.append((ids[k], CLASSES.get(o["class"], 2), o.get("fp", "")))
        if obs.get("fresh"):
            out.append((0, CLASSES.get(obs["fresh"]["class"], 2), obs["fresh"].get("fp", "")))
        return out

    def emit(self, case, obs):
        want = cq_opt(cq_bytes(unhx(case["want"]))) if case.get("want") else b"None"
        hist = cq_list([cq_pair(cq_nat(i), cq_pair(cq_nat(cl), cq_bytes(fp))) for i, cl, fp in self.history_of(case, obs)])
        return (b"{| mode := " + (b"0" if case["mode"] == "file" else b"1") +
                b"; params := " + cq_bytes(unhx(case.get("params", ""))) +
                b"; src := " + cq_bytes(unhx(case["src"])) +
                b"; want := " + want +
                b"; go_class := " + cq_nat(CLASSES.get(obs["class"], 2)) +
                b"; go_dump := " + cq_bytes(unhx(obs["dump"])) +
                b"; go_same := " + cq_bool(obs["same"]) +
                b"; go_fp := " + cq_bytes(obs.get("fp", "")) +
                b"; go_hist := " + hist + b" |}")

    def nontrivial(self, case, obs):
        return len(case["src"]) >= 6

    def sample(self, case, obs):
        d = {"mode": case["mode"], "stream": case.get("stream"), "src": unhx(case["src"]).decode("latin-1"),
             "go_class": obs["class"], "go_tree": unhx(obs["dump"]).decode("latin-1")[:400],
             "want": unhx(case["want"]).decode("latin-1")[:400] if case.get("want") else None}
        if case.get("hist"):
            d["history"] = [(i, cl) for i, cl, fp in self.history_of(case, obs)][:40]
        return d

    def shrink(self, case):
        if case.get("hist"):
            # a history: fewer steps first (only the parses of A; one half; one step less), then A alone twice
            a, hist = step_key(case), case["hist"]
            cands = [[st for st in hist if step_key(st) == a]]
            n = len(hist)
            step = max(1, n // 2)
            while step >= 1:
                for i in range(0, n, step):
                    cands.append(hist[:i] + hist[i + step:])
                step //= 2
            seen = set()
            for h in cands:
                k = json.dumps(h)
                if k in seen or len(h) >= n or not any(step_key(st) == a for st in h):
                    continue
                seen.add(k)
                c = dict(case)
                c["hist"] = h
                yield c
            # then a shorter A, replaced wherever it is parsed
            src = unhx(case["src"])
            n2 = len(src)
            step = max(1, n2 // 2)
            while step >= 1:
                for i in range(0, n2, step):
                    cand = src[:i] + src[i + step:]
                    c = dict(case)
                    c["src"] = hx(cand)
                    c.pop("want", None)
                    c["hist"] = [dict(st, src=c["src"]) if step_key(st) == a else st for st in hist]
                    if not any(step_key(st) == step_key(c) for st in hist):
                        yield c
                step //= 2
            return
        if case.get("tree") is not None:
            e = tup(case["tree"])
            # smallest subtrees first: the first candidate that still fails is the witness
            subs = [get_sub(e, p) for p in subpaths(e) if p]
            subs = sorted((x for x in subs if x[0] != "hole"), key=lambda x: len(dump(x)))
            seen = set()
            for sub in subs:
                d = dump(sub)
                if d not in seen and len(seen) < 150:
                    seen.add(d)
                    yield self._retree(case, sub)
            # then the tree itself with one subtree replaced by a child or a leaf
            cnt = 0
            for path in subpaths(e):
                sub = get_sub(e, path)
                for c in children(sub):
                    cand = replace_sub(e, list(path), c)
                    if wellformed(cand) and cnt < 40:
                        cnt += 1
                        yield self._retree(case, cand)
            if case.get("stream") != 0:
                plain = self._retree(case, e)
                plain["stream"] = 0
                yield plain
            return
        # plain bytes: first without processes of its own and without a parameter list, then fewer bytes
        if case.get("fresh"):
            c = dict(case)
            c.pop("fresh")
            yield c
        par = unhx(case.get("params", ""))
        if par:
            yield dict(case, params="")
        src = unhx(case["src"])
        n = len(src)
        step = max(1, n // 2)
        while step >= 1:
            for a in range(0, n, step):
                cand = src[:a] + src[a + step:]
                if cand != src:
                    c = dict(case)
                    c["src"] = hx(cand)
                    c.pop("want", None)
                    yield c
            step //= 2
        step = max(1, len(par) // 2)
        while par and step >= 1:
            for a in range(0, len(par), step):
                yield dict(case, params=hx(par[:a] + par[a + step:]))
            step //= 2

    def _retree(self, case, e):
        mode = case["mode"]
        if mode == "file":
            src = print_expr(e, None, 0, 0, True)
            want = "(prog (expr %s))" % dump(e)
        else:
            src = b"return " + print_expr(e, None, 0, 0, False)
            want = func_want(["(return %s)" % dump(e)])
        return mk(mode, src, 1, want.encode(), tree=e)

    def model_expr(self):
        return "string_of_list_ascii (model_text c)"

    def distribution(self, cases, obss):
        names = {0: "generated", 1: "generated", 2: "mutated", 3: "hostile", 4: "special_forms", 5: "histories", 6: "open_constructs"}
        d = {"stream1_generated": 0, "stream2_mutated": 0, "stream3_hostile": 0, "stream4_special_forms": 0,
             "stream5_histories": 0, "stream6_open_constructs": 0, "mode_file": 0, "mode_func": 0,
             "go_ok": 0, "go_err": 0, "go_panic": 0, "go_crash": 0, "go_hang": 0, "go_unequal_answers_to_one_input": 0,
             "open_construct_endings": {"end_of_input": 0, "line_terminator_then_end": 0, "line_terminator_then_text": 0},
             "hangs_or_crashes_not_seen_again_alone": 0,
             "max_src_bytes": 0, "src_bytes_hist": {}, "slowest_ms": 0,
             "special_form_kinds": {}, "special_form_answers": {}, "parses_in_histories": 0, "longest_history": 0,
             "history_inputs_parsed_more_than_once": 0, "fresh_process_comparisons": 0,
             "sourcemap_comment_last_line_file_mode": 0}
        for c, o in zip(cases, obss):
            st = c.get("stream", 3)
            d["stream%d_%s" % (max(st, 1), names[st])] += 1
            if (c.get("kind") or "").startswith("open_"):
                t = unhx(c["src"])
                body = t.rstrip(b"\n\r").replace(b"\xe2\x80\xa8", b"\n").replace(b"\xe2\x80\xa9", b"\n")
                end = "end_of_input" if t[-1:] not in (b"\n", b"\r") and t[-3:] not in (b"\xe2\x80\xa8", b"\xe2\x80\xa9") else \
                    "line_terminator_then_end"
                if end == "end_of_input" and (b"\n" in body[-12:] or b"\r" in body[-12:]):
                    end = "line_terminator_then_text"
                d["open_construct_endings"][end] += 1
            if o.get("retry") and o["class"] not in ("hang", "crash"):
                d["hangs_or_crashes_not_seen_again_alone"] += 1
            d["mode_" + c["mode"]] += 1
            d["go_" + o["class"]] = d.get("go_" + o["class"], 0) + 1
            d["go_unequal_answers_to_one_input"] += not o["same"]
            n = len(c["src"]) // 2
            d["max_src_bytes"] = max(d["max_src_bytes"], n)
            b = "<8" if n < 8 else "<32" if n < 32 else "<128" if n < 128 else "<512" if n < 512 else ">=512"
            d["src_bytes_hist"][b] = d["src_bytes_hist"].get(b, 0) + 1
            d["slowest_ms"] = max(d["slowest_ms"], o.get("ms", 0))
            if c.get("kind"):
                d["special_form_kinds"][c["kind"]] = d["special_form_kinds"].get(c["kind"], 0) + 1
                k = "%s:%s" % (c["kind"], o["class"])
                d["special_form_answers"][k] = d["special_form_answers"].get(k, 0) + 1
            if c.get("hist"):
                d["parses_in_histories"] += len(c["hist"])
                d["longest_history"] = max(d["longest_history"], len(c["hist"]))
                keys = [step_key(x) for x in c["hist"]]
                d["history_inputs_parsed_more_than_once"] += sum(1 for k in set(keys) if keys.count(k) > 1)
            if o.get("fresh"):
                d["fresh_process_comparisons"] += 1
            src = unhx(c["src"])
            if c["mode"] == "file" and src.split(b"\n")[-1].startswith(b"//# sourceMappingURL=data:application/json"):
                d["sourcemap_comment_last_line_file_mode"] += 1
        return d

    # -------------------------------------------------------------- observation-only stream: large inputs
    def extra(self, binary, tmp, tier, rng, ev):
        """Inputs too large for the Coq judge: must return (ok or err), no panic, same answer twice.
        Quick: <= 10^4 bytes, in the harness process.  Thorough: additionally up to 10^5 bytes, each batch in a
        child process under `ulimit -v` and a timeout, because stack exhaustion kills the process (F-C15-c)."""
        viol = []
        cases = []
        sizes = [3000, 6000, BIG_QUICK]
        for o, c in (rng.sample(NESTERS, 5) if tier == "quick" else NESTERS):
            n = rng.choice(sizes)
            if o == b"{a:":
                # a chain of equal labels costs cubic time (every level reports every enclosing label again):
                # 2000 levels take 12 s, 3300 levels a minute; keep it small, slowness is not an alarm
                n = 1500 if tier == "quick" else 4500
            d = max(1, n // max(1, len(o) + len(c)))
            cases.append(mk("file", o * d + b"a" + c * d, 3))
            cases.append(mk("file", o * (n // len(o)), 3))
            cases.append(mk("func", o * (n // len(o)), 3))
        for _ in range(8 if tier == "quick" else 60):
            cases.append(mk(rng.choice(["file", "func"]), soup(rng, rng.choice(sizes)), 3))
        e = ExprGen(rng, 9).expr(9)
        cases.append(mk("file", print_expr(e, rng, 0.1, 0.5), 3))
        # long constructs left open: kilobytes of literal / comment / placeholder text and no closer
        for kind in (OPEN_KINDS if tier == "thorough" else rng.sample(OPEN_KINDS[:7], 4)):
            c, closer = open_construct(rng, kind)
            n = rng.choice(sizes)
            pad = rng.choice([b"a", b"ab ", b"\\n", b"${a}", b"x y", b"(", b"\xc3\xa9"]) if kind != "brackets" else c
            big = c + pad * (n // len(pad))
            cases.append(mk(rng.choice(["file", "func"]), big + rng.choice([b"", b"\n", b"\r\n" + closer]), 3))
        obs = {"cases": 0, "ok": 0, "err": 0, "panic": 0, "crash": 0, "hang": 0, "unequal_second_run": 0, "max_bytes": 0,
               "slowest_ms": 0}
        ev["coverage"]["large_input_observation"] = obs
        try:
            obss = run_harness(binary, self.engine, cases, timeout=1500)
        except BuildError as ex:
            obs["error"] = ex.what
            viol.append({"index": "large-batch", "case": None, "observation": {"stderr": ex.logtext[-1500:]},
                         "what": "the harness process died on a batch of inputs <= 10^4 bytes"})
            return viol
        self._tally(cases, obss, obs, viol, "large")
        if tier == "thorough":
            big = []
            for o, c in [x for x in NESTERS if x[0] != b"{a:"]:
                big.append(mk("file", o * (30000 // len(o)), 3))                      # unclosed: the quadratic error paths
            for o, c in [(b"(", b")"), (b"[", b"]"), (b"!", b""), (b"a?", b":b"), (b"f(", b")")]:
                d = BIG_THOROUGH // (len(o) + len(c))
                big.append(mk("file", o * d + b"a" + c * d, 3))                        # balanced, 10^5 bytes
            big.append(mk("file", soup(rng, BIG_THOROUGH), 3))
            # F-C15-c: more than a megabyte of nesting used to exhaust the goroutine stack (fatal, kills the
            # process); since the repair the parser answers "Maximum nesting depth exceeded"
            for o in (b"(", b"[", b"{", b"!", b"(function(){", b"a=", b"new "):
                big.append(mk("file", o * (1200000 // len(o)), 3))
            child = {"cases": 0, "ok": 0, "err": 0, "panic": 0, "crash": 0, "hang": 0, "unequal_second_run": 0, "max_bytes": 0,
                     "slowest_ms": 0, "child_died": 0}
            ev["coverage"]["child_process_observation"] = child

            def one(ic):
                i, c = ic
                c = dict(c)
                c["bound"] = 1500000
                inp = os.path.join(tmp, "big%d.json" % i)
                with open(inp, "w") as f:
                    json.dump([c], f)
                cmd = "ulimit -v 8000000; exec timeout 1700 %s %s < %s" % (binary, self.engine, inp)
                p = subprocess.run(["bash", "-c", cmd], capture_output=True)
                os.unlink(inp)
                return c, p

            with ThreadPoolExecutor(max_workers=4) as ex:
                results = list(ex.map(one, enumerate(big)))
            for c, p in results:
                n = len(c["src"]) // 2
                if p.returncode != 0:
                    child["child_died"] += 1
                    child["cases"] += 1
                    small = {"mode": c["mode"], "params": c["params"], "src": c["src"]} if n <= 20000 else \
                        {"mode": c["mode"], "params": c["params"], "src_is": "%r * %d" % (unhx(c["src"][:64])[:16], n),
                         "bytes": n}
                    viol.append({"index": "child-%d" % child["cases"], "case": small,
                                 "observation": {"exit": p.returncode, "stderr": p.stderr.decode(errors="replace")[:600]},
                                 "what": "the parser killed its process (fatal runtime error or resource limit) on an "
                                         "input of %d bytes run in a child process" % n})
                    continue
                self._tally([c], json.loads(p.stdout), child, viol, "child")
        return viol

    def _tally(self, cases, obss, obs, viol, tag):
        for i, (c, o) in enumerate(zip(cases, obss)):
            obs["cases"] += 1
            obs[o["class"]] = obs.get(o["class"], 0) + 1
            obs["unequal_second_run"] += not o["same"]
            obs["max_bytes"] = max(obs["max_bytes"], len(c["src"]) // 2)
            obs["slowest_ms"] = max(obs["slowest_ms"], o.get("ms", 0))
            if o["class"] not in ("ok", "err") or not o["same"]:
                n = len(c["src"]) // 2
                small = {k: c[k] for k in ("mode", "params", "src")} if n <= 20000 else \
                    {"mode": c["mode"], "params": c["params"], "src_is": "%r... (%d bytes)" % (unhx(c["src"][:64])[:16], n)}
                viol.append({"index": "%s-%d" % (tag, i), "case": small,
                             "observation": o,
                             "what": "observation stream: the parser %s on a %d-byte input" % (
                                 "panicked" if o["class"] == "panic" else "did not return within the watchdog bound"
                                 if o["class"] in ("hang", "timeout") else "killed its process (fatal runtime error)"
                                 if o["class"] == "crash" else "gave two different answers", len(c["src"]) // 2)})


PROP = C15()
