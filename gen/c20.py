# C20 — Array / String methods over any call sequence: generated histories executed through
# real templates (runner "T" of harness/tmpl.go), judged inside Coq against Models/ArrayOps.v
# (M = the code, S = JavaScript).  Three kinds of histories: array histories (aliasing, storage sharing,
# state kept between calls), string histories (receivers, separators and indices at the places where
# a convenient library routine is not the JavaScript method; see edge_string / split_sep below) and
# route histories: every way a template has of making a SECOND NAME for an array - assignment, a mixin
# parameter bound from the argument list, block content of a mixin call reading the caller's variables,
# page data read from inside a mixin, the loop variable of an each over an array of arrays, a member of an
# object / an element of an array that holds it, a conditional or logical expression, the result of
# slice / pop on the holding array - followed by mutation through one name and observation through the
# others (see class G below: gen_mixin_call / gen_each / gen_hold / gen_rehold / gen_pop).
#
# A case is a structured program (mixins, calls with block content, loops, holders); `flatten` erases
# the routes: what is left is the flat history of method calls and bindings (SCall / SAlias / SPass /
# SPrintVar of Models/ArrayOps.v) that JavaScript's semantics of those routes prescribes - every
# parameter of every call and every member of every holder is a variable of its own in the flat
# program.  The template that the real engine executes keeps the routes.
import copy
import json
from common import *
import tmpl

ARR_METHODS = ["push", "pop", "shift", "unshift", "sort", "splice", "slice", "indexOf", "join", "length"]
STR_METHODS = ["length", "charAt", "indexOf", "slice", "split", "toUpperCase", "toLowerCase"]
CQ_METH = {"push": b"MPush", "pop": b"MPop", "shift": b"MShift", "unshift": b"MUnshift", "sort": b"MSort",
           "splice": b"MSplice", "slice": b"MSlice", "indexOf": b"MIndexOf", "join": b"MJoin",
           "length": b"MLength", "charAt": b"MCharAt", "split": b"MSplit", "toUpperCase": b"MUpper",
           "toLowerCase": b"MLower"}
UNIT = ("push", "sort")
MUTATING = ("push", "pop", "shift", "unshift", "sort", "splice")

# strings avoid the characters __pug__html rewrites (& < > " '), the JS escape character and the
# separator the templates put after every printed value
WORDS = ["a", "b", "B", "ab", "abc", "Zed", "x y", "", "1", "10", "2", "true", "null", "a,b", "hello World",
         "-1", "09", "z", "A", "aa", "b,a,,c", "k=v;", "0"]
NUMS = [0, 1, 2, 3, 5, 9, 10, 11, 12, 20, 100, 101, -1, -2, -10, 7]
SEPS = [",", "", "-", ", ", ";", "a", "b,", " "]

# ---- strings and arguments that tell JavaScript's String methods from look-alike library routines
# (strings.Fields / TrimSpace / regexp.Split / Count-based splitting / unicode case tables ...): short words over
# tiny alphabets, so that blanks come leading, trailing and adjacent, tabs and line feeds stand where a blank is the
# separator, separators overlap themselves ("aa" in "aaa"), regular-expression operators are data, and the
# characters next to the letter ranges (@ [ ` {) and digits go through the case mappings.  All ASCII; none of
# & < > " ' \ | (the escaper's and the template's own characters).
WS = " \t\n"
ALPHABETS = [
    (40, [" a", " ab", "  a\t", " a\n", " \t\n", "\ta b", " a,", "  A", ", a"]),        # white space
    (20, ["a", "ab", "aab", "-a-", ",,a", "aA", "abab"]),                                # runs and self-overlaps
    (25, ["Zz@[`{", "@AZ[", "`az{", "@`[{", "09:/ aZ", "mM~}!", "AZaz", "xX_-", "a1 ", "@a`A"]),   # case mapping
    (15, ["a.b*", "(a)+?", "[a]^$", "a.", "+-"]),                                        # regular-expression operators
]


def edge_string(rng):
    x = rng.randrange(100)
    for w, group in ALPHABETS:
        if x < w:
            break
        x -= w
    alpha = rng.choice(group)
    return "".join(rng.choice(alpha) for _ in range(rng.choice([0, 1, 2, 3, 3, 4, 4, 5, 6, 7, 9, 12])))


def self_overlaps(s):
    """pieces of s that occur in s at two overlapping places: "aa" in "aaa", "aba" in "ababa" """
    out = []
    for n in (2, 3):
        for i in range(len(s) - n + 1):
            d = s[i:i + n]
            if any(s.startswith(d, i + k) for k in range(1, n)):
                out.append(d)
    return out


def split_sep(rng, s):
    """a separator for s.split: the one-blank separator where s holds white space, pieces of s (single, doubled,
    overlapping), s itself, something longer than s, the empty separator"""
    x = rng.random()
    if x < (0.5 if any(c in WS for c in s) else 0.12):
        return " "
    if s:
        i = rng.randrange(len(s))
        ov = self_overlaps(s)
        if ov and x < 0.62:
            return rng.choice(ov)
        if x < 0.56:
            return s[i]
        if x < 0.66:
            return s[i] * 2
        if x < 0.74:
            return s[i:i + rng.randint(2, 3)]
        if x < 0.79:
            return s
    if x < 0.84 or x < 0.90 and not s:
        return s + rng.choice(["a", " ", s[-1:] or ","])
    if x < 0.93:
        return ""
    return rng.choice(SEPS + ["\t", "\n", "  ", "X", "aa", "."])


def index_needle(rng, s):
    x = rng.random()
    if x < 0.15:
        return ""
    if s:
        i = rng.randrange(len(s))
        if x < 0.55:
            return s[i:i + rng.randint(1, 3)]
        if x < 0.62:
            return s
        if x < 0.70:
            return s[i] * 2
        if x < 0.76:
            return s[i].swapcase()
    if x < 0.84:
        return s + rng.choice(["a", " "])
    return rng.choice(["z", "ab", ",", " ", "\t", "A", "a", ".", "  "])


def str_index(rng, n, lo):
    """an index for charAt / slice on a string of length n: inside, at the length, beyond it"""
    x = rng.random()
    if x < 0.70:
        return rng.randint(lo, n + 1)
    if x < 0.88:
        return n + rng.randint(2, 6)
    return rng.choice([50, 99, 1000])


BLANK_CLASS = "split_blank_on_edge_or_adjacent_whitespace"


def str_class(f, s, d):
    """the named situations of the String methods a call is in (evidence only)"""
    out = []
    if f == "split":
        if d == " " and s and (s[0] in WS or s[-1] in WS or "\t" in s or "\n" in s or
                               any(a in WS and b in WS for a, b in zip(s, s[1:]))):
            out.append(BLANK_CLASS)
        occ = [i for i in range(len(s)) if d and s.startswith(d, i)]
        if any(0 < j - i < len(d) for i in occ for j in occ):
            out.append("split_overlapping_separator")
        if len(d) > len(s):
            out.append("split_separator_longer_than_string")
        if s == "":
            out.append("split_empty_receiver")
        if d == "":
            out.append("split_empty_separator")
        if d and d == s:
            out.append("split_separator_is_string")
        if d and (s.startswith(d) or s.endswith(d) or d + d in s):
            out.append("split_empty_pieces")
    elif f == "indexOf":
        if d == "":
            out.append("indexOf_empty_needle")
        if len(d) > len(s):
            out.append("indexOf_needle_longer_than_string")
    elif f == "slice":
        out.append("slice_negative" if d < 0 else "slice_beyond_length" if d > len(s) else "slice_at_length" if d == len(s) else "slice_inside")
    elif f == "charAt":
        out.append("charAt_beyond_length" if d > len(s) else "charAt_at_length" if d == len(s) else "charAt_inside")
    elif f in ("toUpperCase", "toLowerCase"):
        if any(not c.isalpha() for c in s):
            out.append("case_mapping_with_non_letters")
        if any(c in "@[`{" for c in s):
            out.append("case_mapping_next_to_letter_range")
    return out


# ------------------------------------------------------------------ variable references
# A reference V names a variable inside a statement of a case:
#   n                        variable vN of the main template (page data or '- var vN'); flat variable n.  Inside a
#                            mixin body an integer names page data (a global of the template)
#   ["L", k]                 k-th name of the enclosing mixin definition (parameters first), written f<fid>_<k>;
#                            every call of the mixin has flat variables of its own for them
#   ["M", Vh, j, style, Vm]  member j of the holder whose own name is Vh, written  Vh.kj | Vh["kj"] | Vh[j]
#                            (style dot | key | idx); in the flat program it is the variable Vm
def is_plain(V):
    return isinstance(V, int) or V[0] == "L"


def vname(V, fid=None):
    if isinstance(V, int):
        return b"v%d" % V
    return b"f%d_%d" % (fid, V[1])


def vexpr(V, fid=None):
    if is_plain(V):
        return ('id', vname(V, fid))
    _, Vh, j, style, _ = V
    h = vexpr(Vh, fid)
    if style == "dot":
        return ('dot', h, b"k%d" % j)
    if style == "key":
        return ('idx', h, ('str', b"k%d" % j))
    return ('idx', h, ('num', j))


# ------------------------------------------------------------------ JSON <-> tmpl / Coq
def lit_expr(l):
    if l is None:
        return ('null',)
    if "n" in l:
        return ('num', l["n"])
    if "s" in l:
        return ('str', unhx(l["s"]))
    return ('bool', l["b"])


def lit_data(l):
    if l is None:
        return None
    if "n" in l:
        return ('f', l["n"]) if l.get("f") else l["n"]
    if "s" in l:
        return unhx(l["s"])
    return l["b"]


def lit_coq(l):
    if "n" in l:
        return b"(LNum " + cq_Z(l["n"]) + b")"
    if "s" in l:
        return b"(LStr " + cq_bytes(unhx(l["s"])) + b")"
    return b"(LBool " + cq_bool(l["b"]) + b")"


def elit_coq(l):
    return b"ENull" if l is None else b"(ELit " + lit_coq(l) + b")"


def arg_expr(a, fid=None):
    """an argument / source expression: a literal, a variable, or a variable inside a conditional / logical
    expression whose value it is"""
    if "lit" in a:
        return lit_expr(a["lit"])
    e = vexpr(a["var"], fid)
    w = a.get("wrap")
    if w:
        o = vexpr(w[1], fid)
        if w[0] == "tern1":
            return ('cond', ('bool', True), e, o)
        if w[0] == "tern0":
            return ('cond', ('bool', False), o, e)
        if w[0] == "or":
            return ('bin', '||', e, o)
        return ('bin', '&&', o, e)
    return e


def arg_coq(a):
    return b"(ALit " + lit_coq(a["lit"]) + b")" if "lit" in a else b"(AVar %d)" % a["var"]


def call_expr(s, fid=None):
    recv = vexpr(s["recv"], fid)
    if s["f"] == "length":
        if s["args"]:
            return ('call', ('dot', recv, b"length"), [arg_expr(a, fid) for a in s["args"]])
        return ('dot', recv, b"length")
    return ('call', ('dot', recv, s["f"].encode()), [arg_expr(a, fid) for a in s["args"]])


BAR = ('text', b"|")


def _var(name, e):
    return ('code', [('vars', [('var', name, e)])], False, False)


def nodes_of(stmts, case, fid=None):
    """pug nodes of a statement list; fid: the mixin definition the statements stand in (None: main template)"""
    nodes = []
    for s in stmts:
        op = s["op"]
        if op == "call":
            e = call_expr(s, fid)
            if s["mode"] == "bind":
                nodes.append(_var(vname(s["r"], fid), e))
            elif s["mode"] == "print":
                nodes += [('code', [('expr', e)], True, False), BAR]
            else:
                nodes += [('code', [('expr', e)], False, False), BAR]
        elif op == "alias":
            nodes.append(_var(vname(s["x"], fid), arg_expr({"var": s["y"], "wrap": s.get("wrap")}, fid)))
        elif op == "printvar":
            nodes += [('code', [('expr', vexpr(s["x"], fid))], True, False), BAR]
        elif op == "hold":
            es = [arg_expr(a, fid) for a in s["src"]]
            e = ('obj', [(b"k%d" % j, x) for j, x in enumerate(es)]) if s["kind"] == "obj" else ('arr', es)
            nodes.append(_var(vname(s["h"], fid), e))
        elif op == "rehold":
            nodes.append(_var(vname(s["h"], fid), ('call', ('dot', vexpr(s["of"], fid), b"slice"), [('num', s["from"])])))
        elif op == "pop":
            nodes.append(_var(vname(s["x"], fid), ('call', ('dot', vexpr(s["h"], fid), b"pop"), [])))
        elif op == "mixin":
            m = case["mixins"][s["m"]]
            blk = nodes_of(s["block"]["body"] or [], case, fid) if s.get("block") else []
            nodes.append(('call', b"mx%d" % m["fid"], [arg_expr(a, fid) for a in s["args"]], [], blk))
        elif op == "block":
            nodes.append(('mixinblock',))
        elif op == "each":
            ov = s["over"]
            over = ('arr', [arg_expr(a, fid) for a in ov["lit"]]) if "lit" in ov else vexpr(ov["h"], fid)
            key = vname(s["key"], fid) if s.get("key") is not None else None
            nodes.append(('each', vname(s["e"], fid), key, over, nodes_of(s["body"], case, fid)))
        else:
            raise ValueError(op)
    return nodes


def template(case):
    """pug nodes and page data of a case"""
    nodes, data = [], {}
    for m in case.get("mixins", []):
        nodes.append(('mixin', b"mx%d" % m["fid"], [vname(["L", k], m["fid"]) for k in range(m["np"])],
                      nodes_of(m["body"], case, m["fid"])))
    held = {}
    for v, i in case["inits"]:
        if i["k"] == "arr":
            if i.get("at"):                      # an array inside an object / array of the page data
                hv, kind, j = i["at"]
                held.setdefault((hv, kind), {})[j] = [lit_data(x) for x in i["xs"]]
            elif i["src"] == "data":
                data[vname(v)] = [lit_data(x) for x in i["xs"]]
            else:
                nodes.append(_var(vname(v), ('arr', [lit_expr(x) for x in i["xs"]])))
        elif i["k"] == "nat":
            nodes.append(_var(vname(v), lit_expr(i["v"])))
        else:
            data[vname(v)] = lit_data(i["v"])
    for (hv, kind), mem in held.items():
        if kind == "obj":
            data[vname(hv)] = {b"k%d" % j: mem[j] for j in sorted(mem)}
        else:
            data[vname(hv)] = [mem.get(j, []) for j in range(max(mem) + 1)]
    return nodes + nodes_of(case["body"], case), data


# ------------------------------------------------------------------ the flat program of a case
def ref_ints(V):
    if isinstance(V, int):
        return [V]
    if V[0] == "L":
        return []
    return ref_ints(V[1]) + ref_ints(V[4])


def stmt_refs(s):
    """every reference written in statement s itself (not in the statements it contains)"""
    op = s["op"]
    out = []
    args = []
    if op == "call":
        out.append(s["recv"])
        if "r" in s:
            out.append(s["r"])
        args = s["args"]
    elif op == "alias":
        out += [s["x"], s["y"]]
        if s.get("wrap"):
            out.append(s["wrap"][1])
    elif op == "printvar":
        out.append(s["x"])
    elif op == "hold":
        out += [s["h"]] + s["mem"]
        args = s["src"]
    elif op == "rehold":
        out += [s["h"], s["of"]] + s["mem"] + s["old"]
    elif op == "pop":
        out += [s["x"], s["h"], s["y"]]
    elif op == "mixin":
        args = s["args"]
    elif op == "each":
        out.append(s["e"])
        if s.get("key") is not None:
            out.append(s["key"])
        if "lit" in s["over"]:
            args = s["over"]["lit"]
        else:
            out += [s["over"]["h"]] + s["over"]["mem"]
    for a in args:
        if "var" in a:
            out.append(a["var"])
            if a.get("wrap"):
                out.append(a["wrap"][1])
    return out


def sub_bodies(s):
    if s["op"] == "each":
        return [s["body"]]
    if s["op"] == "mixin" and s.get("block") and s["block"].get("body"):
        return [s["block"]["body"]]
    return []


def all_bodies(case):
    """every statement list of a case (main, mixin definitions, loop bodies, block contents)"""
    out, todo = [], [case["body"]] + [m["body"] for m in case.get("mixins", [])]
    while todo:
        b = todo.pop()
        out.append(b)
        for s in b:
            todo += sub_bodies(s)
    return out


def case_top(case):
    top = max([v for v, _ in case["inits"]] + [i["at"][0] for _, i in case["inits"] if i.get("at")] + [-1])
    for b in all_bodies(case):
        for s in b:
            for V in stmt_refs(s):
                top = max([top] + ref_ints(V))
    return top + 1


class Flat:
    """erases the routes: yields the flat statements (call / alias / pass / printvar over flat variables) in the
    order JavaScript executes them.  Parameters and locals of a mixin get fresh flat variables per call."""

    def __init__(self, mixins, alloc, hook=None):
        self.mixins, self.alloc, self.hook = mixins, alloc, hook

    def res(self, V, fr):
        if isinstance(V, int):
            return V
        if V[0] == "L":
            loc = fr["loc"]
            if V[1] not in loc:
                loc[V[1]] = self.alloc()
            return loc[V[1]]
        return self.res(V[4], fr)

    def arg(self, a, fr):
        return {"lit": a["lit"]} if "lit" in a else {"var": self.res(a["var"], fr)}

    def stmts(self, body, fr):
        res, arg = self.res, self.arg
        for s in body:
            op = s["op"]
            if op == "call":
                st = {"op": "call", "recv": res(s["recv"], fr), "f": s["f"], "args": [arg(a, fr) for a in s["args"]],
                      "mode": s["mode"]}
                if "r" in s:
                    st["r"] = res(s["r"], fr)
                yield st
            elif op == "alias":
                if is_plain(s["y"]) and not s.get("wrap"):
                    yield {"op": "alias", "x": res(s["x"], fr), "y": res(s["y"], fr)}
                else:
                    yield {"op": "pass", "x": res(s["x"], fr), "a": {"var": res(s["y"], fr)}}
            elif op == "printvar":
                yield {"op": "printvar", "x": res(s["x"], fr)}
            elif op == "hold":
                for Vm, a in zip(s["mem"], s["src"]):
                    yield {"op": "pass", "x": res(Vm, fr), "a": arg(a, fr)}
            elif op == "rehold":
                for i, Vm in enumerate(s["mem"]):
                    yield {"op": "pass", "x": res(Vm, fr), "a": {"var": res(s["old"][s["from"] + i], fr)}}
            elif op == "pop":
                yield {"op": "pass", "x": res(s["x"], fr), "a": {"var": res(s["y"], fr)}}
            elif op == "mixin":
                m = self.mixins[s["m"]]
                vals = [arg(a, fr) for a in s["args"]]            # evaluated in the caller's frame
                fr2 = {"loc": {}, "blk": (s.get("block"), fr)}
                for k in range(m["np"]):
                    fr2["loc"][k] = self.alloc()
                for k in range(min(m["np"], len(vals))):
                    yield {"op": "pass", "x": fr2["loc"][k], "a": vals[k]}
                yield from self.stmts(m["body"], fr2)
            elif op == "block":
                blk, cfr = fr.get("blk") or (None, None)
                if blk:
                    if blk.get("body") is None:
                        if self.hook:
                            self.hook(blk, cfr)      # generation: the content is written where it first runs
                    else:
                        yield from self.stmts(blk["body"], cfr)
            elif op == "each":
                ov = s["over"]
                for a in (ov["lit"] if "lit" in ov else [{"var": V} for V in ov["mem"]]):
                    yield {"op": "pass", "x": res(s["e"], fr), "a": arg(a, fr)}
                    yield from self.stmts(s["body"], fr)
            else:
                raise ValueError(op)


def flatten(case):
    nxt = [case_top(case)]

    def alloc():
        nxt[0] += 1
        return nxt[0] - 1
    return list(Flat(case.get("mixins", []), alloc).stmts(case["body"], {"loc": {}, "blk": None}))


def stmt_coq(s):
    if s["op"] == "call":
        md = {"bind": b"(Bind %d)" % s.get("r", 0), "print": b"Print", "discard": b"Discard"}[s["mode"]]
        return b"(SCall " + md + b" %d " % s["recv"] + CQ_METH[s["f"]] + b" " + cq_list([arg_coq(a) for a in s["args"]]) + b")"
    if s["op"] == "alias":
        return b"(SAlias %d %d)" % (s["x"], s["y"])
    if s["op"] == "pass":
        return b"(SPass %d " % s["x"] + arg_coq(s["a"]) + b")"
    return b"(SPrintVar %d)" % s["x"]


def init_coq(v, i):
    if i["k"] == "arr":
        t = b"(IArr " + cq_list([elit_coq(x) for x in i["xs"]]) + b")"
    elif i["k"] == "nat":
        t = b"(INat " + lit_coq(i["v"]) + b")"
    else:
        t = b"(IBox " + elit_coq(i["v"]) + b")"
    return b"(%d, " % v + t + b")"


# ------------------------------------------------------------------ a plain simulation of JavaScript (guides generation)
def L(x):
    """python value -> lit json"""
    if x is None:
        return None
    if isinstance(x, bool):
        return {"b": x}
    if isinstance(x, int):
        return {"n": x}
    return {"s": hx(x)}


def unL(l):
    if l is None:
        return None
    if "n" in l:
        return l["n"]
    if "s" in l:
        return unhx(l["s"]).decode()
    return l["b"]


def js_str(x):
    if x is None:
        return ""
    if isinstance(x, bool):
        return "true" if x else "false"
    return str(x)


def is_num(x):
    return isinstance(x, int) and not isinstance(x, bool)


def is_arr(x):
    return isinstance(x, tuple)


class OutOfRange(Exception):
    """the statement is outside the range the property speaks about (or the simulation cannot follow it)"""


class Sim:
    """what JavaScript would hold: enough to pick in-range arguments"""

    def __init__(self):
        self.env = {}     # flat variable -> python scalar | ('arr', loc) ; None = null/undefined
        self.heap = []

    def step(self, st):
        """executes one flat statement; returns the value of a call"""
        env, heap = self.env, self.heap
        op = st["op"]
        if op == "alias":
            if st["y"] not in env:
                raise OutOfRange
            env[st["x"]] = env[st["y"]]
            return None
        if op == "pass":
            a = st["a"]
            if "lit" not in a and a["var"] not in env:
                raise OutOfRange
            env[st["x"]] = unL(a["lit"]) if "lit" in a else env[a["var"]]
            return None
        if op == "printvar":
            if st["x"] not in env or is_arr(env[st["x"]]):
                raise OutOfRange
            return None
        vals = []
        for a in st["args"]:
            if "lit" not in a and a["var"] not in env:
                raise OutOfRange
            vals.append(unL(a["lit"]) if "lit" in a else env[a["var"]])
        if st["recv"] not in env:
            raise OutOfRange
        recv, f = env[st["recv"]], st["f"]
        res = None
        if is_arr(recv):
            items = heap[recv[1]]
            if f in ("push", "unshift", "indexOf") and any(is_arr(x) for x in vals):
                raise OutOfRange
            if f == "push" and len(vals) == 1:
                items.append(vals[0])
                res = len(items)
            elif f == "pop" and not vals:
                res = items.pop() if items else None
            elif f == "shift" and not vals:
                res = items.pop(0) if items else None
            elif f == "unshift":
                items[0:0] = vals
                res = len(items)
            elif f == "sort" and not vals:
                # nulls sort as "null"; undefined cannot be told from null here, the judge knows
                items.sort(key=lambda x: "null" if x is None else js_str(x))
                res = recv
            elif f in ("splice", "slice") and len(vals) == 1 and is_num(vals[0]) and 0 <= vals[0] <= len(items):
                heap.append(items[vals[0]:])
                res = ('arr', len(heap) - 1)
                if f == "splice":
                    del items[vals[0]:]
            elif f == "indexOf" and len(vals) == 1:
                x = vals[0]
                res = next((i for i, e in enumerate(items) if type(e) == type(x) and e == x), -1)
            elif f == "join" and len(vals) == 1 and isinstance(vals[0], str):
                res = vals[0].join(js_str(e) for e in items)
            elif f == "length" and not vals:
                res = len(items)
            else:
                raise OutOfRange
        elif isinstance(recv, str):
            s = recv
            if f == "length" and not vals:
                res = len(s)
            elif f == "charAt" and len(vals) == 1 and is_num(vals[0]) and vals[0] >= 0:
                res = s[vals[0]:vals[0] + 1]
            elif f == "indexOf" and len(vals) == 1 and isinstance(vals[0], str):
                res = s.find(vals[0])
            elif f == "slice" and len(vals) == 1 and is_num(vals[0]) and vals[0] >= -len(s):
                d = vals[0]
                res = "" if d > len(s) else s[d:] if d != 0 else s
            elif f == "split" and len(vals) == 1 and isinstance(vals[0], str):
                heap.append(list(s) if vals[0] == "" else s.split(vals[0]))
                res = ('arr', len(heap) - 1)
            elif f == "toUpperCase" and not vals:
                res = s.upper()
            elif f == "toLowerCase" and not vals:
                res = s.lower()
            else:
                raise OutOfRange
        else:
            raise OutOfRange
        if st["mode"] == "bind":
            env[st["r"]] = None if f in UNIT else res      # the value of push / sort is the listed deviation
        elif is_arr(res) and f not in UNIT:
            raise OutOfRange                               # printing an array
        elif st["mode"] == "discard" and f not in UNIT:
            raise OutOfRange
        return res


def rand_elem(rng, nulls=True):
    x = rng.random()
    if x < 0.45:
        return rng.choice(NUMS)
    if x < 0.85:
        return rng.choice(WORDS)
    if x < 0.95 or not nulls:
        return rng.random() < 0.5
    return None


# ------------------------------------------------------------------ generation
class Frame:
    """a lexical frame of the generator: the main template or one mixin definition"""

    def __init__(self, kind, fid, fr):
        self.kind, self.fid, self.fr = kind, fid, fr
        fr["LF"] = self
        self.vis = {}        # flat variable -> reference by which this frame can name it
        self.holders = []    # objects / arrays of arrays whose members are in vis
        self.nloc = 0
        self.depth = 0       # > 0 inside a loop body or block content: names bound there end with it


class G:
    """generator of one case, guided by the simulation: every statement is executed as it is written"""

    def __init__(self, rng, maxops, hostile, stringy, routes):
        self.rng, self.maxops, self.hostile, self.stringy, self.routes = rng, maxops, hostile, stringy, routes
        self.sim = Sim()
        self.next = 0
        self.nfid = 0
        self.inits, self.body, self.mixins = [], [], []
        self.native = set()
        self.globals_ok = set()     # page data still bound as rendered: a mixin body may name it
        self.pinned = set()         # page data a mixin body names: never re-bound / popped afterwards
        self.stats = {"args": {"lit": 0, "native": 0, "boxed": 0}, "str": {}, "routes": {}}
        self.flat = Flat(self.mixins, self.alloc, self.block_hook)
        self.main = Frame("main", None, {"loc": {}, "blk": None})

    # ---- bookkeeping
    def alloc(self):
        self.next += 1
        return self.next - 1

    def new_fid(self):
        self.nfid += 1
        return self.nfid - 1

    def count(self, k):
        self.stats["routes"][k] = self.stats["routes"].get(k, 0) + 1

    def new_var(self, LF):
        flat = self.alloc()
        if LF.kind == "main":
            return flat, flat
        k = LF.nloc
        LF.nloc += 1
        LF.fr["loc"][k] = flat
        return flat, ["L", k]

    def binder(self, LF, p_fresh):
        """the variable a statement binds: a new name, or (main template, outside loops and blocks) an old one"""
        if LF.kind == "main" and LF.depth == 0 and self.rng.random() >= p_fresh:
            c = [v for v, V in LF.vis.items() if isinstance(V, int) and v not in self.pinned]
            if c:
                v = self.rng.choice(c)
                self.globals_ok.discard(v)
                return v, v
        return self.new_var(LF)

    @staticmethod
    def is_page_data(V):
        """inside a mixin: a name of the main template's page data (the variable itself or a member of it)"""
        return isinstance(V, int) or V[0] == "M" and isinstance(V[1], int)

    def use(self, LF, v):
        """the reference by which frame LF writes variable v at this place"""
        V = LF.vis[v]
        if LF.kind == "mixin" and self.is_page_data(V):
            self.pinned.add(v)                 # page data named from inside a mixin
            self.count("page_data_in_mixin")
        if not isinstance(V, int) and V[0] == "M":
            V = ["M", V[1], V[2], self.rng.choice(["dot", "key"]) if V[3] == "obj" else "idx", V[4]]
            self.count("member_of_object" if V[3] != "idx" else "element_of_array")
        return V

    def snapshot(self, LF):
        return (copy.deepcopy((self.sim.env, self.sim.heap)), self.next, self.nfid, set(self.native), len(self.mixins),
                dict(LF.vis), LF.nloc, dict(LF.fr["loc"]), LF.depth, copy.deepcopy(LF.holders), copy.deepcopy(self.stats),
                set(self.globals_ok), set(self.pinned), LF)

    def restore(self, snap):
        (self.sim.env, self.sim.heap), self.next, self.nfid, self.native, nm, vis, nloc, loc, depth, holders, self.stats, \
            self.globals_ok, self.pinned, LF = snap
        del self.mixins[nm:]
        LF.vis, LF.nloc, LF.depth, LF.holders = vis, nloc, depth, holders
        LF.fr["loc"].clear()
        LF.fr["loc"].update(loc)

    def run(self, stmts, LF):
        for fs in self.flat.stmts(stmts, LF.fr):
            self.exec_flat(fs)

    def exec_flat(self, fs):
        r = self.sim.step(fs)
        if fs["op"] == "alias":
            self.native.discard(fs["x"])
            if fs["y"] in self.native:
                self.native.add(fs["x"])
        elif fs["op"] == "pass":
            self.native.discard(fs["x"])
        elif fs["op"] == "call" and fs["mode"] == "bind":
            self.native.discard(fs["r"])
        return r

    def emit(self, LF, body, st):
        body.append(st)
        self.run([st], LF)

    def arrays(self, LF):
        return [v for v in LF.vis if is_arr(self.sim.env.get(v))]

    def strings(self, LF):
        return [v for v in LF.vis if isinstance(self.sim.env.get(v), str)]

    def observe(self, LF, body):
        arrs = sorted(self.arrays(LF))
        if LF.kind == "mixin":        # page data is read from inside a mixin now and then, not after every call
            arrs = [v for v in arrs if not self.is_page_data(LF.vis[v]) or self.rng.random() < 0.25]
        if len(arrs) > 7:
            arrs = sorted(self.rng.sample(arrs, 7))
        for v in arrs:
            self.emit(LF, body, {"op": "call", "mode": "print", "recv": self.use(LF, v), "f": "join", "args": [{"lit": L(",")}]})
            self.emit(LF, body, {"op": "call", "mode": "print", "recv": self.use(LF, v), "f": "length", "args": []})

    def arg_of(self, LF, val_ok, make_lit, pvar=0.45):
        """an argument whose JS value satisfies val_ok: a variable (native or boxed) or a literal"""
        env = self.sim.env
        if self.rng.random() < pvar:
            c = [v for v in LF.vis if v in env and not is_arr(env[v]) and val_ok(env[v])]
            if c:
                v = self.rng.choice(c)
                self.stats["args"]["native" if v in self.native else "boxed"] += 1
                return {"var": self.use(LF, v)}, env[v]
        self.stats["args"]["lit"] += 1
        x = make_lit()
        return {"lit": L(x)}, x

    # ---- initial bindings
    def add_init(self, i, val, native=False):
        v = self.alloc()
        self.inits.append([v, i])
        self.sim.env[v] = val
        self.main.vis[v] = v
        if native:
            self.native.add(v)
        elif i.get("src") != "lit":
            self.globals_ok.add(v)
        return v

    def rand_items(self):
        rng = self.rng
        n = rng.choice([0, 1, 2, 3, 3, 4, 5, 6, 8, 13, 16]) if rng.random() < 0.9 else rng.randint(0, 20)
        distinct = n > 12 and rng.random() < 0.7
        xs = []
        for k in range(n):
            e = rand_elem(rng, nulls=rng.random() < 0.3)
            if distinct:
                e = k * 3 + 1 if rng.random() < 0.5 else "w%02d" % k
            xs.append(e)
        ls = [L(x) for x in xs]
        return xs, ls

    def data_floats(self, ls):
        # Go ints and integer-valued float64s both convert to Number
        return [dict(l, f=True) if l is not None and "n" in l and self.rng.random() < 0.3 else l for l in ls]

    def gen_inits(self):
        rng, sim, stringy = self.rng, self.sim, self.stringy
        for _ in range(rng.choice([0, 1, 1]) if stringy else rng.choice([1, 1, 2, 2, 3])):
            xs, ls = self.rand_items()
            sim.heap.append(list(xs))
            src = rng.choice(["lit", "data"])
            if src == "data":
                ls = self.data_floats(ls)
            self.add_init({"k": "arr", "src": src, "xs": ls}, ('arr', len(sim.heap) - 1))
        if self.routes and rng.random() < 0.35:
            # arrays that arrive inside an object / an array of the page data: h.k0, h["k1"] / h[0], h[1]
            kind = rng.choice(["obj", "arr"])
            hv = self.alloc()
            mem = []
            for j in range(rng.choice([1, 2, 2, 3])):
                xs, ls = self.rand_items()
                sim.heap.append(list(xs))
                v = self.alloc()
                self.inits.append([v, {"k": "arr", "src": "data", "xs": self.data_floats(ls), "at": [hv, kind, j]}])
                sim.env[v] = ('arr', len(sim.heap) - 1)
                self.main.vis[v] = ["M", hv, j, kind, v]
                self.globals_ok.add(v)
                mem.append([v, v])
            self.main.holders.append({"h": hv, "kind": kind, "mem": mem, "len": len(mem), "allarr": True, "data": True})
            self.count("page_data_holder")
        for _ in range(rng.choice([0, 1, 2, 3])):
            x = rng.choice([0, 1, 2, 3, 4, ",", "a", "b", "-", True, 7, "1"])
            self.add_init({"k": "nat", "v": L(x)}, x, native=True)
        for _ in range(rng.choice([0, 1, 2])):
            x = rng.choice([0, 1, 2, 3, "a", ",", "1", None, False, 10, "abc"])
            self.add_init({"k": "box", "v": L(x)}, x)
        for _ in range(rng.choice([0, 1, 2]) if stringy else 0):      # separators / needles held in variables
            x = rng.choice([" ", " ", ",", "a", "aa", "", "\t", ".", "  "])
            if rng.random() < 0.5:
                self.add_init({"k": "nat", "v": L(x)}, x, native=True)
            else:
                self.add_init({"k": "box", "v": L(x)}, x)
        for _ in range(rng.choice([2, 3, 3, 4]) if stringy else rng.choice([0, 1, 1, 2])):
            if rng.random() < (0.8 if stringy else 0.4):
                s = edge_string(rng)
            else:
                s = rng.choice(WORDS + ["Hello, World", "one two  three", "aXbXXc", "MiXeD Case 123", " padded ", "tab\there",
                                        "two\nlines", "a.b.c", "x+y", "aaa", "[0]"])
            if rng.random() < 0.5:
                self.add_init({"k": "nat", "v": L(s)}, s, native=True)
            else:
                self.add_init({"k": "box", "v": L(s)}, s)

    # ---- one method call (or a plain assignment)
    def gen_op(self, LF, body, hostile_now=False, focus=None):
        """appends one call statement to body; False: nothing left to call"""
        rng, sim, stringy = self.rng, self.sim, self.stringy
        env = sim.env
        arrs, strs = self.arrays(LF), self.strings(LF)
        if rng.random() < 0.06 and LF.vis and not hostile_now:
            y = rng.choice([v for v in LF.vis if v in env] or [None])
            if y is not None:
                x, xV = self.binder(LF, 0.8)
                self.emit(LF, body, {"op": "alias", "x": xV, "y": self.use(LF, y)})
                LF.vis[x] = xV
                self.count("assignment")
                return True
        use_str = strs and (not arrs or rng.random() < (0.6 if stringy else 0.22)) and not (focus in arrs and rng.random() < 0.8)
        if not use_str and not arrs:
            return False
        recv = rng.choice(strs if use_str else arrs)
        if not use_str and focus in arrs and rng.random() < 0.7:
            recv = focus
        args, newarr = [], False
        if use_str:
            s = env[recv]
            f = rng.choice(STR_METHODS)
            f = rng.choice(STR_METHODS + ["split", "split"]) if stringy else f
            d = None
            if f in ("toUpperCase", "toLowerCase") and rng.random() < 0.5:   # the neighbours of the letter ranges
                c = [v for v in strs if any(ch in "@[`{" for ch in env[v])]
                if c:
                    recv = rng.choice(c)
                    s = env[recv]
            if f == "split" and rng.random() < 0.5:     # the receivers on which look-alike splitters differ
                c = [v for v in strs if str_class("split", env[v], " ")[:1] == [BLANK_CLASS] or self_overlaps(env[v])]
                if c:
                    recv = rng.choice(c)
                    s = env[recv]
            if f == "charAt":
                a, d = self.arg_of(LF, lambda x: is_num(x) and 0 <= x, lambda: str_index(rng, len(s), 0))
                args = [a]
            elif f == "indexOf":
                a, d = self.arg_of(LF, lambda x: isinstance(x, str) and len(x) <= 3, lambda: index_needle(rng, s), 0.3)
                args = [a]
            elif f == "slice":
                a, d = self.arg_of(LF, lambda x: is_num(x) and -len(s) <= x, lambda: str_index(rng, len(s), -len(s)))
                args = [a]
            elif f == "split":
                a, d = self.arg_of(LF, lambda x: isinstance(x, str) and len(x) <= 2, lambda: split_sep(rng, s), 0.3)
                args = [a]
                newarr = True
            for k in str_class(f, s, d):
                self.stats["str"][k] = self.stats["str"].get(k, 0) + 1
        else:
            items = sim.heap[env[recv][1]]
            many = len(arrs) >= 6
            f = rng.choice(["push"] * 3 + ["pop", "shift", "unshift", "sort"] * 2 + ["indexOf"] * 2 + ["join", "length"] +
                           ([] if many else ["splice", "slice"] * 2))
            if f == "push":
                a, x = self.arg_of(LF, lambda x: True, lambda: rand_elem(rng, nulls=False))
                args = [a]
            elif f == "unshift":
                for _ in range(rng.choice([0, 1, 1, 1, 2, 3])):
                    a, x = self.arg_of(LF, lambda x: True, lambda: rand_elem(rng, nulls=False))
                    args.append(a)
            elif f in ("splice", "slice"):
                a, n = self.arg_of(LF, lambda x: is_num(x) and 0 <= x <= len(items), lambda: rng.randint(0, len(items)))
                args = [a]
                newarr = True
            elif f == "indexOf":
                def needle():
                    if items and rng.random() < 0.7:
                        e = rng.choice(items)
                        if e is not None:
                            return e
                    return rand_elem(rng, nulls=False)
                a, x = self.arg_of(LF, lambda x: True, needle)
                args = [a]
            elif f == "join":
                a, d = self.arg_of(LF, lambda x: isinstance(x, str), lambda: rng.choice(SEPS))
                args = [a]
        st = {"op": "call", "recv": self.use(LF, recv), "f": f, "args": args}
        if hostile_now:
            h = rng.choice(["range", "type", "arity", "discard", "printarr"])
            if h == "range" and f in ("splice", "slice", "charAt"):
                n = rng.choice([-1, -2, 99]) if f != "slice" or not use_str else -99
                if f in ("splice", "slice") and not use_str:
                    n = rng.choice([-1, len(sim.heap[env[recv][1]]) + 1 + (1 if f == "splice" else 0), 50])
                st["args"] = [{"lit": L(n)}]
            elif h == "type" and args:
                st["args"] = [{"lit": L(rng.choice([True, "q", 3]))}]
            elif h == "arity":
                st["args"] = args + [{"lit": L(1)}] if rng.random() < 0.5 or not args else args[:-1]
            elif h == "discard":
                st["mode"] = "discard"
            elif h == "printarr" and newarr:
                st["mode"] = "print"
            st.setdefault("mode", "bind")
            if st["mode"] == "bind":
                st["r"] = self.new_var(LF)[1]
            try:
                self.emit(LF, body, st)
            except OutOfRange:
                pass
            return False
        bound = None
        if f in UNIT:
            x = rng.random()
            st["mode"] = "discard" if x < 0.85 else "bind" if x < 0.93 else "print"
            if st["mode"] == "bind":
                st["r"] = self.new_var(LF)[1]     # never used as an argument afterwards: its value is the deviation
        elif newarr:
            st["mode"] = "bind"
            bound = self.binder(LF, 0.9)
        elif rng.random() < 0.3:
            st["mode"] = "print"
        else:
            st["mode"] = "bind"
            bound = self.binder(LF, 0.92)
        if bound:
            st["r"] = bound[1]
        self.emit(LF, body, st)
        if bound:
            LF.vis[bound[0]] = bound[1]
            if not newarr and rng.random() < 0.85:
                self.emit(LF, body, {"op": "printvar", "x": bound[1]})
        if f in MUTATING or newarr:
            self.observe(LF, body)
        return True

    # ---- routes: second names for an array
    def arr_arg(self, LF, v=None):
        """an array of frame LF as an argument / source: the variable, or an expression whose value it is"""
        rng, env, heap = self.rng, self.sim.env, self.sim.heap
        arrs = self.arrays(LF)
        v = rng.choice(arrs) if v is None else v
        a = {"var": self.use(LF, v)}
        if rng.random() < 0.2:
            o = rng.choice(arrs)
            kinds = ["tern1", "tern0"]
            if LF.kind == "main" and LF.depth == 0:      # an empty array is false for the code: another property's finding
                if heap[env[v][1]]:
                    kinds.append("or")
                if heap[env[o][1]]:
                    kinds.append("and")
            a["wrap"] = [rng.choice(kinds), self.use(LF, o)]
            self.count("conditional_or_logical_expression")
        return a, v

    def gen_route(self, LF, body, depth):
        rng = self.rng
        if not self.arrays(LF):
            return False
        x = rng.random()
        top = LF.depth == 0
        hs = [H for H in LF.holders if H["kind"] == "arr" and H["len"] >= 1] if top else []
        if x < 0.45 and depth < 2:
            return self.gen_mixin_call(LF, body, depth)
        if x < 0.62 and depth < 2:
            return self.gen_each(LF, body, depth)
        if x < 0.80 and top:
            return self.gen_hold(LF, body)
        if x < 0.87 and hs:
            return self.gen_rehold(LF, body, rng.choice(hs))
        if x < 0.93 and hs:
            return self.gen_pop(LF, body, rng.choice(hs))
        a, v = self.arr_arg(LF)
        xf, xV = self.new_var(LF)
        st = {"op": "alias", "x": xV, "y": a["var"]}
        if a.get("wrap"):
            st["wrap"] = a["wrap"]
        self.emit(LF, body, st)
        LF.vis[xf] = xV
        self.count("assignment")
        self.gen_op(LF, body, focus=xf)
        return True

    def scalar_kind(self, x):
        return "str" if isinstance(x, str) else "num" if is_num(x) else "any"

    def gen_mixin_call(self, LF, body, depth, must=None):
        """+mx(args) [with block content]: a mixin written now (its body is generated while this first call runs) or
        one written earlier called again with other arguments"""
        rng, sim = self.rng, self.sim
        done = [i for i, m in enumerate(self.mixins) if m.get("done")]
        if done and must is None and rng.random() < 0.4:
            snap = self.snapshot(LF)
            i = rng.choice(done)
            m = self.mixins[i]
            args = []
            for k in m["kinds"]:
                if k == "arr":
                    args.append(self.arr_arg(LF)[0])
                else:
                    args.append(self.arg_of(LF, lambda x: k == "any" or self.scalar_kind(x) == k,
                                            lambda: rng.choice(WORDS) if k == "str" else rng.choice(NUMS) if k == "num"
                                            else rand_elem(rng, nulls=False))[0])
            st = {"op": "mixin", "m": i, "args": args}
            if m["blocks"] and rng.random() < 0.6:
                st["block"] = {"body": None}
            try:
                self.run([st], LF)          # the whole body again, under the new bindings
                if st.get("block") and st["block"]["body"] is None:
                    st["block"]["body"] = []
                body.append(st)
                self.count("mixin_called_again")
                self.observe(LF, body)
                return True
            except OutOfRange:
                self.restore(snap)
        np_ = rng.choice([1, 1, 2, 2, 3])
        args, kinds, first = [], [], None
        for k in range(np_):
            if k == 0 or rng.random() < 0.3:
                a, v = self.arr_arg(LF, must if k == 0 else None)     # the same array may be passed twice
                first = v if k == 0 else first
                kinds.append("arr")
            else:
                a, x = self.arg_of(LF, lambda x: True, lambda: rand_elem(rng, nulls=False))
                kinds.append(self.scalar_kind(x))
            args.append(a)
        m = {"fid": self.new_fid(), "np": np_, "body": [], "kinds": kinds, "blocks": 0}
        self.mixins.append(m)
        st = {"op": "mixin", "m": len(self.mixins) - 1, "args": args}
        markers = rng.random() < 0.5
        if markers and rng.random() < 0.8:
            st["block"] = {"body": None}
        fr2 = {"loc": {}, "blk": (st.get("block"), LF.fr)}
        LF2 = Frame("mixin", m["fid"], fr2)
        vals = [self.flat.arg(a, LF.fr) for a in args]
        params = []
        for k in range(np_):
            pf, pV = self.new_var(LF2)
            params.append(pf)
        for k in range(np_):
            self.exec_flat({"op": "pass", "x": params[k], "a": vals[k]})
            LF2.vis[params[k]] = ["L", k]
        self.count("mixin_parameter")
        for v in self.globals_ok:             # page data is visible inside a mixin
            if v in sim.env and v in self.main.vis:
                LF2.vis[v] = self.main.vis[v]
        nb = rng.randint(1, 4)
        at = sorted(rng.randrange(nb + 1) for _ in range(rng.choice([1, 1, 2]))) if markers else []
        for j in range(nb + 1):
            for _ in range(at.count(j)):
                self.place_block(LF2, m)
            if j < nb:
                if depth < 1 and rng.random() < 0.15:
                    self.gen_route(LF2, m["body"], depth + 1)
                else:
                    self.gen_op(LF2, m["body"], focus=params[0])
        if st.get("block") and st["block"]["body"] is None:
            st["block"]["body"] = []
        m["done"] = True
        body.append(st)
        self.observe(LF, body)
        return True

    def place_block(self, LF2, m):
        """`block` in a mixin body: the block content of the call runs here, in the caller's frame"""
        blk, cfr = LF2.fr["blk"]
        m["body"].append({"op": "block"})
        m["blocks"] += 1
        if not blk:
            return
        if blk["body"] is None:
            self.block_hook(blk, cfr)
            return
        snap = self.snapshot(cfr["LF"])
        snap2 = self.snapshot(LF2)
        try:
            self.run(blk["body"], cfr["LF"])          # placed a second time: the content runs again
            self.count("block_placed_twice")
        except OutOfRange:
            self.restore(snap)
            self.restore(snap2)
            m["body"].pop()
            m["blocks"] -= 1

    def block_hook(self, blk, cfr):
        """writes the block content of a call at the moment the mixin first places it: statements of the CALLER's
        frame (they read and change the caller's variables between the mixin's own statements)"""
        LF = cfr["LF"]
        blk["body"] = []
        saved = set(LF.vis)
        LF.depth += 1
        for _ in range(self.rng.randint(1, 3)):
            if not self.gen_op(LF, blk["body"]):
                break
        if self.rng.random() < 0.5:
            self.observe(LF, blk["body"])
        LF.depth -= 1
        for v in list(LF.vis):
            if v not in saved:
                del LF.vis[v]
        self.count("block_content_reads_caller")

    def gen_each(self, LF, body, depth):
        """each e in [a, b] / each e in h (h an array of arrays): the loop variable is a second name, in turn, of
        every element"""
        rng = self.rng
        arrs = self.arrays(LF)
        hs = [H for H in LF.holders if H["kind"] == "arr" and H["allarr"] and H["len"] >= 1]
        snap = self.snapshot(LF)
        if hs and rng.random() < 0.45:
            H = rng.choice(hs)
            over = {"h": H["h"], "mem": [mV for _, mV in H["mem"][:H["len"]]]}
            mems = [{"var": mV} for mV in over["mem"]]
            self.count("each_over_array_of_arrays_variable")
        else:
            mems = [{"var": self.use(LF, rng.choice(arrs))} for _ in range(rng.choice([1, 2, 2, 3]))]
            over = {"lit": mems}
            self.count("each_over_array_literal")
        ef, eV = self.new_var(LF)
        st = {"op": "each", "e": eV, "key": self.new_var(LF)[1] if rng.random() < 0.3 else None, "over": over, "body": []}
        saved = set(LF.vis)
        LF.depth += 1
        try:
            self.exec_flat({"op": "pass", "x": ef, "a": self.flat.arg(mems[0], LF.fr)})
            LF.vis[ef] = eV
            for _ in range(rng.randint(1, 3)):
                if depth < 1 and rng.random() < 0.2:
                    self.gen_mixin_call(LF, st["body"], depth + 1, must=ef)
                else:
                    self.gen_op(LF, st["body"], focus=ef)
            for a in mems[1:]:
                self.exec_flat({"op": "pass", "x": ef, "a": self.flat.arg(a, LF.fr)})
                self.run(st["body"], LF)
        except OutOfRange:
            self.restore(snap)
            return False
        LF.depth -= 1
        for v in list(LF.vis):
            if v not in saved:
                del LF.vis[v]
        body.append(st)
        self.observe(LF, body)
        return True

    def gen_hold(self, LF, body):
        """- var h = {k0: a, k1: b} / - var h = [a, b]: h.k0, h["k0"], h[0] are further names of a"""
        rng = self.rng
        kind = rng.choice(["obj", "arr"])
        src, allarr = [], True
        for j in range(rng.choice([1, 2, 2, 3])):
            if j == 0 or rng.random() < 0.7:
                src.append({"var": self.use(LF, rng.choice(self.arrays(LF)))})
            else:
                src.append(self.arg_of(LF, lambda x: True, lambda: rand_elem(rng, nulls=False))[0])
                allarr = False
        hV = self.new_var(LF)[1]
        mem = [list(self.new_var(LF)) for _ in src]
        self.emit(LF, body, {"op": "hold", "h": hV, "kind": kind, "mem": [mV for _, mV in mem], "src": src})
        for j, (mf, mV) in enumerate(mem):
            LF.vis[mf] = ["M", hV, j, kind, mV]
        LF.holders.append({"h": hV, "kind": kind, "mem": mem, "len": len(mem), "allarr": allarr, "data": False})
        self.count("object_holding_arrays" if kind == "obj" else "array_holding_arrays")
        self.gen_op(LF, body, focus=mem[0][0])          # a call through the new name
        return True

    def gen_rehold(self, LF, body, H):
        """- var g = h.slice(j): the copy holds the same arrays"""
        frm = self.rng.randrange(H["len"])
        hV = self.new_var(LF)[1]
        old = H["mem"][:H["len"]]
        mem = [list(self.new_var(LF)) for _ in old[frm:]]
        self.emit(LF, body, {"op": "rehold", "h": hV, "of": H["h"], "from": frm, "mem": [mV for _, mV in mem],
                             "old": [mV for _, mV in old]})
        for j, (mf, mV) in enumerate(mem):
            LF.vis[mf] = ["M", hV, j, "arr", mV]
        LF.holders.append({"h": hV, "kind": "arr", "mem": mem, "len": len(mem), "allarr": H["allarr"], "data": False})
        self.count("result_of_slice_on_holder")
        self.gen_op(LF, body, focus=mem[0][0])
        return True

    def gen_pop(self, LF, body, H):
        """- var x = h.pop(): the method hands back the array it held"""
        mf, mV = H["mem"][H["len"] - 1]
        if any(f in self.pinned for f, _ in H["mem"]):
            return False
        xf, xV = self.new_var(LF)
        self.emit(LF, body, {"op": "pop", "x": xV, "h": H["h"], "y": mV})
        H["len"] -= 1
        LF.vis.pop(mf, None)
        self.globals_ok.discard(mf)
        LF.vis[xf] = xV
        self.count("result_of_pop_on_holder")
        self.gen_op(LF, body, focus=xf)
        return True

    # ---- a whole case
    def gen(self):
        rng, main, body = self.rng, self.main, self.body
        self.gen_inits()
        self.observe(main, body)
        nops = rng.randint(1, self.maxops)
        hostile_at = rng.randrange(nops) if self.hostile else -1
        forced = self.routes
        for opi in range(nops):
            if opi != hostile_at and self.routes and (forced or rng.random() < 0.3) and self.arrays(main):
                snap, nb = self.snapshot(main), len(body)
                try:
                    if self.gen_route(main, body, 0):
                        forced = False
                except OutOfRange:          # a replayed body left the range: the route is not written
                    self.restore(snap)
                    del body[nb:]
                continue
            if not self.gen_op(main, body, hostile_now=(opi == hostile_at)):
                break
        case = {"inits": self.inits, "body": body}
        if self.mixins:
            case["mixins"] = [{"fid": m["fid"], "np": m["np"], "body": m["body"]} for m in self.mixins]
        return case, self.stats


def gen_case(rng, maxops, hostile, stringy=False, routes=False):
    """stringy: a history mostly of String method calls on edge_string receivers (their results - pieces of split,
    slices, characters, case-mapped copies - become receivers and array elements in turn);
    routes: a history in which arrays get second names through mixins, loops, holders and expressions"""
    return G(rng, maxops, hostile, stringy, routes).gen()


RULE = ("one case = one template executed by a real Engine: 1-3 initial arrays (literals or []interface{} page data, "
        "0-20 elements: integers, ASCII strings, booleans, null), native variables (- var i = 1), boxed page-data "
        "scalars and strings, then a generated history of <= 30 (thorough <= 120) calls of push pop shift unshift sort "
        "splice slice indexOf join length / length charAt indexOf slice split toUpperCase toLowerCase, each as "
        "'- var rN = recv.m(args)', '= recv.m(args)' or '- recv.m(args)', arguments as literals, native and boxed "
        "variables chosen in range by a plain simulation, results printed and results of splice/slice/split used as "
        "new receivers, aliases by '- var x = y'; after every call join(',') and length of every live array name "
        "(at most 7, sampled) are printed. "
        "35% of the cases are ROUTE histories: they start with, and then hold at every step with probability 0.3, a "
        "statement that makes a SECOND NAME for an array by a route other than assignment, followed by calls through "
        "the new name and the print-out of all names: (a) a mixin call +mx(a, ...) - 1-3 parameters, the first an "
        "array, the others arrays (the same array may be passed twice) or scalars (literals, native and boxed "
        "variables); the mixin body (1-4 calls, 70% of them through the first parameter, any method, results bound to "
        "mixin locals, holders and nested mixin calls inside) is generated while its first call runs; 40% of the later "
        "mixin calls call an EXISTING mixin again with other arguments (the body runs again under the new bindings; the "
        "call is dropped if that leaves the range); (b) block content: half of the mixins place `block` once or twice "
        "between their own calls, 80% of their calls carry 1-3 statements of the caller's frame that read and change "
        "the caller's variables there; (c) page data named from inside a mixin body (variables and members of page "
        "data objects/arrays; such data is never re-bound afterwards); (d) each e in [a, b, ..] over an array literal "
        "of 1-3 arrays (repeats allowed) or over a variable holding an array of arrays, body of 1-3 calls mostly "
        "through e, or a mixin call with e as argument, executed for every element; (e) holders - var h = {k0: a, k1: "
        "b} / [a, b] with 1-3 members (arrays, sometimes scalars), or arriving as an object / array of arrays in the "
        "page data (35% of route cases); members are then written h.k0, h[\"k0\"], h[0] as receivers, arguments, "
        "assignment sources, mixin arguments and loop elements; (f) method results: - var g = h.slice(j) (the copy "
        "holds the same arrays) and - var x = h.pop(); (g) 20% of the array arguments / sources are wrapped in an "
        "expression whose value they are: true ? a : b, false ? b : a, a || b and b && a (the logical forms only for "
        "non-empty arrays outside replayed bodies: an empty array is false for the code). The flat program judged in "
        "Coq (gen/c20.py flatten) erases the routes: every parameter of every call, every member of every holder and "
        "every loop variable is a variable of its own bound by SPass (handed over: the same value), mixin bodies are "
        "unfolded per call with fresh locals, block content is unfolded where the mixin places it, loop bodies once "
        "per element. distribution.second_name_routes counts the routes, cases_array_changed_inside_mixin_read_by_caller "
        "the cases in which a mixin body changes an array through a parameter or local. "
        "30% of the cases are string histories: 2-4 receivers drawn from tiny alphabets (blank/tab/line "
        "feed with a letter; one or two letters giving runs and self-overlaps; the neighbours @ [ ` { of the letter "
        "ranges, digits, punctuation; regular-expression operators), 60% of their calls are String methods and a third "
        "of those split; split separators: the one-blank separator (50% where the receiver holds white space; half of "
        "the splits re-pick a receiver with leading, trailing or adjacent blanks, a tab or a line feed, or a "
        "self-overlapping piece), single and doubled characters and 2-3 character pieces of the receiver, pieces that "
        "overlap themselves ('aa' on 'aaa'), the receiver itself, a separator longer than the receiver, the empty "
        "separator, separators held in variables; indexOf needles: the empty string (15%), pieces, the receiver, "
        "longer than the receiver, the other letter case; charAt/slice indices inside, at the length, and beyond it "
        "(length+2..6, 50, 99, 1000), slice starts down to -length; the pieces of split are array receivers of "
        "the following calls, so a wrong element count shows in length/join/indexOf/pop. The same strings (40%) "
        "also feed the array histories. The evidence field distribution.string_method_situations counts the calls in each "
        "named situation. 10% of the cases end in one out-of-range / ill-typed / wrong-arity call; non-trivial = at "
        "least 3 executed calls of which one mutates an array or splits a string; distinct by SHA-1 of the case")
TRUSTED = [
    "M is a hand-written reading of pugjs/types.go (Array/String methods) and of evalCall/evalArg/validateType in "
    "pugjs/tpl_exec.go; reflect, Go slices/append, sort.Slice (modelled as a stable sort: it is an insertion sort up "
    "to 12 elements; longer arrays with equal keys on different values are declined as unmodelled), strings.Index/"
    "Split/ToUpper/ToLower (modelled by str_index/str_split/up_char/low_char), big.Float formatting (integers "
    "below 10^10) are the Go runtime's, exercised by the correspondence runs only",
    "the text a template writes between values ('|'), the HTML escaper (strings avoid & < > \" ' \\ |) and the pug "
    "front end are outside this property: other properties cover them",
    "S is JavaScript's Array.prototype / String.prototype on integers below 10^10, ASCII strings, booleans, null and "
    "undefined, written from ECMA-262; no JavaScript engine is run. split (the SplitMatch loop), indexOf (smallest "
    "matching position) and the case mappings (the 26 letter pairs) of S are definitions of their own, not the "
    "helpers of M; C20_string_readings_agree proves the two readings equal for all strings and C20_split_join that "
    "join(sep) undoes split(sep); the judge evaluates S's own definitions on the real code's output",
    "route erasure is done by the generator (gen/c20.py Flat / flatten), not in Coq: that pug.js hands an array to a "
    "mixin parameter, a loop variable, an object member, an array element, the value of ?: / || / && and the result "
    "of slice / pop on the holder as THE SAME array object (SPass: the value itself), that a mixin's parameters and "
    "locals are new variables per call, that block content runs in the caller's frame where `block` stands, and that "
    "an each body runs once per element, is JavaScript's / pug's semantics read by hand; M's SPass (box: "
    "__op__array / __op__map / Push convert the value, __tryindex / Member / Pop give the stored Object back) is a "
    "reading of pugjs/runtime.go and transform_mixin.go / transform_each.go.  The holders themselves (the object "
    "{k0: a}, the array [a, b]) and the loop / mixin machinery are not objects of the flat program: C03 (mixins bind "
    "arguments per call) and C01 (expressions) own them; here they only carry arrays",
]
ASSUMPTIONS = [
    "array elements and arguments are integers of magnitude below 10^10, ASCII strings, booleans and null; arrays "
    "inside arrays as ELEMENTS of the arrays the methods are called on, printing an array itself, floats and non-ASCII "
    "strings are outside the claim (arrays of arrays and objects appear as holders only: they are indexed, iterated, "
    "sliced and popped, never joined, sorted or searched)",
    "in-range means: splice/slice start in 0..length, charAt index >= 0 (any index at or beyond the length is in "
    "range: ''), String.slice start >= -length (any start beyond the length is in range: ''), join/split/"
    "String.indexOf arguments are strings (any string, the empty one included); String.slice with an end argument "
    "is not modelled (such calls are declined as unmodelled); String.replace is not part of the property",
    "second names: mixin bodies name only their parameters, their own locals and page data that is never re-bound "
    "(a main-template '- var' is invisible inside a pugjs mixin - C03's subject); names bound inside a loop body or "
    "block content are not used after it; a || b and b && a are used on non-empty arrays only (an empty array is "
    "false for the code, true for JavaScript - outside this property); mixins are never given fewer arguments than "
    "parameters; holders are not changed while a loop runs over them",
]


def pug_lines(nodes, ind=0):
    """the template as pug-like text (evidence samples, replays)"""
    out = []
    pad = "  " * ind
    for nd in nodes:
        k = nd[0]
        if k == 'code':
            src = b'; '.join(tmpl.stmt_src(s) for s in nd[1]).decode(errors="replace")
            out.append(pad + ("= " if nd[2] else "- ") + src)
        elif k == 'mixin':
            out.append(pad + "mixin %s(%s)" % (nd[1].decode(), ", ".join(p.decode() for p in nd[2])))
            out += pug_lines(nd[3], ind + 1)
        elif k == 'call':
            out.append(pad + "+%s(%s)" % (nd[1].decode(), b", ".join(tmpl.js_src(a) for a in nd[2]).decode(errors="replace")))
            out += pug_lines(nd[4], ind + 1)
        elif k == 'mixinblock':
            out.append(pad + "block")
        elif k == 'each':
            out.append(pad + "each %s%s in %s" % (nd[1].decode(), ", " + nd[2].decode() if nd[2] else "",
                                                  tmpl.js_src(nd[3]).decode(errors="replace")))
            out += pug_lines(nd[4], ind + 1)
    return out


ROUTE_OPS = ("mixin", "each", "hold", "rehold", "pop")


class C20(Prop):
    id = "C20"
    engine = "T"
    judge_module = "Run.Judge_C20"
    prop_module = "Props.C20"
    prop_file = "Props/C20.v"
    coq_targets = ["Props/C20.vo", "Run/Judge_C20.vo"]
    sizes = {"quick": 700, "thorough": 9000}
    shard = 125
    design_ref = "DESIGN.md section 6 C20, section 7 F-C20-a..f"
    rule = RULE
    trusted = TRUSTED
    assumptions = ASSUMPTIONS
    not_yet_proved = []

    def generate(self, rng, n, tier):
        cases = []
        self.stats = {"lit": 0, "native": 0, "boxed": 0}
        self.str_stats = {"string_histories": 0}
        self.route_stats = {"route_histories": 0}
        maxops = 30 if tier == "quick" else 120
        for i in range(n):
            hostile = rng.random() < 0.10
            big = rng.random() < 0.15
            stringy = rng.random() < 0.30
            routes = rng.random() < 0.35
            c, st = gen_case(rng, maxops if big else 10, hostile, stringy, routes)
            for k in self.stats:
                self.stats[k] += st["args"][k]
            self.str_stats["string_histories"] += stringy
            self.route_stats["route_histories"] += routes
            for k, v in st["str"].items():
                self.str_stats[k] = self.str_stats.get(k, 0) + v
            for k, v in st["routes"].items():
                self.route_stats[k] = self.route_stats.get(k, 0) + v
            cases.append(c)
        return cases

    def run(self, binary, cases, tmp, tier):
        tcases = []
        for c in cases:
            nodes, data = template(c)
            tcases.append(tmpl.tmpl_case(nodes, data))
        res = []
        for i in range(0, len(tcases), 400):
            res += run_harness(binary, "T", tcases[i:i + 400])
        return res

    def emit(self, case, obs):
        if obs["load"] != "ok":
            cls, out = 2, b""
        elif obs["res"]["class"] == "ok":
            cls, out = 0, unhx(obs["res"]["out"])
        elif obs["res"]["class"] == "exec_panic":
            cls, out = 1, b""
        else:
            cls, out = 2, b""
        return (b"{| inits := " + cq_list([init_coq(v, i) for v, i in case["inits"]]) +
                b"; body := " + cq_list([stmt_coq(s) for s in flatten(case)]) +
                b"; go_class := %d; go_out := " % cls + cq_bytes(out) + b" |}")

    def nontrivial(self, case, obs):
        calls = [s for s in flatten(case) if s["op"] == "call" and not (s["mode"] == "print" and s["f"] in ("join", "length"))]
        return len(calls) >= 3 and any(s["f"] in MUTATING or s["f"] == "split" for s in calls)

    def sample(self, case, obs):
        nodes, data = template(case)
        out = unhx(obs["res"]["out"]).decode(errors="replace") if obs.get("load") == "ok" and obs["res"]["class"] == "ok" else None
        return {"template": pug_lines(nodes)[:60], "data": tmpl.data_plain(data), "go_class": obs["res"]["class"] if obs.get("load") == "ok" else obs.get("load"),
                "go_out": out[:300] if out is not None else None}

    def shrink(self, case):
        """candidates, boldest first (the driver keeps the first that still fails and asks again): one second-name
        statement alone with the print-out after it; unused mixins dropped; chunks of every statement list (main
        template, mixin bodies, loop bodies, block contents) from halves down; on small cases single statements,
        block contents, loop elements, arguments' wrappers, initial bindings, array elements"""
        body = case["body"]
        bodies = all_bodies(case)
        total = sum(len(b) for b in bodies)

        def is_print(s):
            return s["op"] == "printvar" or s["op"] == "call" and s["mode"] == "print"

        def is_route(s):
            return s["op"] in ROUTE_OPS or s["op"] == "alias" and s.get("wrap")
        for i, s in enumerate(body):
            if is_route(s):
                j = i + 1
                while j < len(body) and is_print(body[j]):
                    j += 1
                if j - i < len(body):
                    yield dict(case, body=body[i:j])
        used, todo = set(), [body]
        while todo:
            for s in todo.pop():
                todo += sub_bodies(s)
                if s["op"] == "mixin" and s["m"] not in used:
                    used.add(s["m"])
                    todo.append(case["mixins"][s["m"]]["body"])
        if len(used) < len(case.get("mixins", [])):
            c = copy.deepcopy(case)
            remap = {m: i for i, m in enumerate(sorted(used))}
            c["mixins"] = [c["mixins"][m] for m in sorted(used)]
            for b in all_bodies(c):
                for s in b:
                    if s["op"] == "mixin":
                        s["m"] = remap[s["m"]]
            if not c["mixins"]:
                del c["mixins"]
            yield c
        size = max(len(b) for b in bodies) // 2
        floor = max(2, total // 16)
        while size >= floor:
            for bi, b in enumerate(bodies):
                if len(b) > size:
                    for i in range(0, len(b), size):
                        c = copy.deepcopy(case)
                        del all_bodies(c)[bi][i:i + size]
                        yield c
            size //= 2
        if total > 60:
            return
        for bi, b in enumerate(bodies):
            for si in range(len(b)):
                c = copy.deepcopy(case)
                del all_bodies(c)[bi][si]
                yield c
        for bi, b in enumerate(bodies):
            for si, s in enumerate(b):
                if s["op"] == "mixin" and s.get("block"):
                    c = copy.deepcopy(case)
                    del all_bodies(c)[bi][si]["block"]
                    yield c
                if s["op"] == "each" and "lit" in s["over"] and len(s["over"]["lit"]) > 1:
                    for j in range(len(s["over"]["lit"])):
                        c = copy.deepcopy(case)
                        del all_bodies(c)[bi][si]["over"]["lit"][j]
                        yield c
                for ai, a in enumerate(s.get("args", []) if s["op"] in ("mixin", "call") else []):
                    if a.get("wrap"):
                        c = copy.deepcopy(case)
                        del all_bodies(c)[bi][si]["args"][ai]["wrap"]
                        yield c
        for i in range(len(case["inits"])):
            yield dict(case, inits=case["inits"][:i] + case["inits"][i + 1:])
        if total > 25:
            return
        for i, (v, ini) in enumerate(case["inits"]):
            if ini["k"] == "arr":
                for j in range(len(ini["xs"])):
                    ni = dict(ini)
                    ni["xs"] = ini["xs"][:j] + ini["xs"][j + 1:]
                    yield dict(case, inits=case["inits"][:i] + [[v, ni]] + case["inits"][i + 1:])

    def model_expr(self):
        return "(model_says c, spec_says c)"

    def distribution(self, cases, obss):
        d = {"methods": {}, "modes": {}, "go_class": {}, "history_len": {"1-5": 0, "6-15": 0, "16-40": 0, "41+": 0},
             "initial_arrays": {"lit": 0, "data": 0, "inside_page_data_object_or_array": 0}, "aliases": 0,
             "handed_over_bindings": 0, "cases_with_a_route": 0, "cases_array_changed_inside_mixin_read_by_caller": 0,
             "argument_kinds": dict(getattr(self, "stats", {})),
             "string_method_situations": dict(sorted(getattr(self, "str_stats", {}).items())),
             "second_name_routes": dict(sorted(getattr(self, "route_stats", {}).items()))}
        for c, o in zip(cases, obss):
            n = 0
            for s in flatten(c):
                if s["op"] == "alias":
                    d["aliases"] += 1
                if s["op"] == "pass":
                    d["handed_over_bindings"] += 1
                if s["op"] != "call" or (s["mode"] == "print" and s["f"] in ("join", "length") and s["args"] in ([], [{"lit": L(",")}])):
                    continue
                n += 1
                d["methods"][s["f"]] = d["methods"].get(s["f"], 0) + 1
                d["modes"][s["mode"]] = d["modes"].get(s["mode"], 0) + 1
            d["history_len"]["1-5" if n <= 5 else "6-15" if n <= 15 else "16-40" if n <= 40 else "41+"] += 1
            d["cases_with_a_route"] += any(s["op"] in ROUTE_OPS or s["op"] == "alias" and s.get("wrap") for b in all_bodies(c) for s in b)
            d["cases_array_changed_inside_mixin_read_by_caller"] += any(
                s["op"] == "call" and s["f"] in MUTATING and not isinstance(s["recv"], int) and s["recv"][0] == "L"
                for m in c.get("mixins", []) for s in m["body"])
            for v, i in c["inits"]:
                if i["k"] == "arr":
                    d["initial_arrays"]["inside_page_data_object_or_array" if i.get("at") else i["src"]] += 1
            k = o["res"]["class"] if o.get("load") == "ok" else o.get("load")
            d["go_class"][k] = d["go_class"].get(k, 0) + 1
        return d


PROP = C20()
