# C20 — Array / String methods over any call sequence: generated histories executed through
# real templates (runner "T" of harness/tmpl.go), judged inside Coq against Models/ArrayOps.v
# (M = the code, S = JavaScript).  Two kinds of histories: array histories (aliasing, storage sharing,
# state kept between calls) and string histories (receivers, separators and indices at the places where
# a convenient library routine is not the JavaScript method; see edge_string / split_sep below).
import json
from common import *
import tmpl

ARR_METHODS = ["push", "pop", "shift", "unshift", "sort", "splice", "slice", "indexOf", "join", "length"]
STR_METHODS = ["length", "charAt", "indexOf", "slice", "split", "toUpperCase", "toLowerCase"]
CQ_METH = {"push": b"MPush", "pop": b"MPop", "shift": b"MShift", "unshift": b"MUnshift", "sort": b"MSort",
           "splice": b"MSplice", "slice": b"MSlice", "indexOf": b"MIndexOf", "join": b"MJoin",
           "length": b"MLength", "charAt": b"MCharAt", "split": b"MSplit", "toUpperCase": b"MUpper",
           "toLowerCase": b"MLower"}
UNIT = ("push", "sort")
MUTATING = ("push", "pop", "shift", "unshift", "sort", "splice")

# strings avoid the characters __pug__html rewrites (& < > " '), the JS escape character and the
# separator the templates put after every printed value
WORDS = ["a", "b", "B", "ab", "abc", "Zed", "x y", "", "1", "10", "2", "true", "null", "a,b", "hello World",
         "-1", "09", "z", "A", "aa", "b,a,,c", "k=v;", "0"]
NUMS = [0, 1, 2, 3, 5, 9, 10, 11, 12, 20, 100, 101, -1, -2, -10, 7]
SEPS = [",", "", "-", ", ", ";", "a", "b,", " "]

# ---- strings and arguments that tell JavaScript's String methods from look-alike library routines
# (strings.Fields / TrimSpace / regexp.Split / Count-based splitting / unicode case tables ...): short words over
# tiny alphabets, so that blanks come leading, trailing and adjacent, tabs and line feeds stand where a blank is the
# separator, separators overlap themselves ("aa" in "aaa"), regular-expression operators are data, and the
# characters next to the letter ranges (@ [ ` {) and digits go through the case mappings.  All ASCII; none of
# & < > " ' \ | (the escaper's and the template's own characters).
WS = " \t\n"
ALPHABETS = [
    (40, [" a", " ab", "  a\t", " a\n", " \t\n", "\ta b", " a,", "  A", ", a"]),        # white space
    (20, ["a", "ab", "aab", "-a-", ",,a", "aA", "abab"]),                                # runs and self-overlaps
    (25, ["Zz@[`{", "@AZ[", "`az{", "@`[{", "09:/ aZ", "mM~}!", "AZaz", "xX_-", "a1 ", "@a`A"]),   # case mapping
    (15, ["a.b*", "(a)+?", "[a]^$", "a.", "+-"]),                                        # regular-expression operators
]


def edge_string(rng):
    x = rng.randrange(100)
    for w, group in ALPHABETS:
        if x < w:
            break
        x -= w
    alpha = rng.choice(group)
    return "".join(rng.choice(alpha) for _ in range(rng.choice([0, 1, 2, 3, 3, 4, 4, 5, 6, 7, 9, 12])))


def self_overlaps(s):
    """pieces of s that occur in s at two overlapping places: "aa" in "aaa", "aba" in "ababa" """
    out = []
    for n in (2, 3):
        for i in range(len(s) - n + 1):
            d = s[i:i + n]
            if any(s.startswith(d, i + k) for k in range(1, n)):
                out.append(d)
    return out


def split_sep(rng, s):
    """a separator for s.split: the one-blank separator where s holds white space, pieces of s (single, doubled,
    overlapping), s itself, something longer than s, the empty separator"""
    x = rng.random()
    if x < (0.5 if any(c in WS for c in s) else 0.12):
        return " "
    if s:
        i = rng.randrange(len(s))
        ov = self_overlaps(s)
        if ov and x < 0.62:
            return rng.choice(ov)
        if x < 0.56:
            return s[i]
        if x < 0.66:
            return s[i] * 2
        if x < 0.74:
            return s[i:i + rng.randint(2, 3)]
        if x < 0.79:
            return s
    if x < 0.84 or x < 0.90 and not s:
        return s + rng.choice(["a", " ", s[-1:] or ","])
    if x < 0.93:
        return ""
    return rng.choice(SEPS + ["\t", "\n", "  ", "X", "aa", "."])


def index_needle(rng, s):
    x = rng.random()
    if x < 0.15:
        return ""
    if s:
        i = rng.randrange(len(s))
        if x < 0.55:
            return s[i:i + rng.randint(1, 3)]
        if x < 0.62:
            return s
        if x < 0.70:
            return s[i] * 2
        if x < 0.76:
            return s[i].swapcase()
    if x < 0.84:
        return s + rng.choice(["a", " "])
    return rng.choice(["z", "ab", ",", " ", "\t", "A", "a", ".", "  "])


def str_index(rng, n, lo):
    """an index for charAt / slice on a string of length n: inside, at the length, beyond it"""
    x = rng.random()
    if x < 0.70:
        return rng.randint(lo, n + 1)
    if x < 0.88:
        return n + rng.randint(2, 6)
    return rng.choice([50, 99, 1000])


BLANK_CLASS = "split_blank_on_edge_or_adjacent_whitespace"


def str_class(f, s, d):
    """the named situations of the String methods a call is in (evidence only)"""
    out = []
    if f == "split":
        if d == " " and s and (s[0] in WS or s[-1] in WS or "\t" in s or "\n" in s or
                               any(a in WS and b in WS for a, b in zip(s, s[1:]))):
            out.append(BLANK_CLASS)
        occ = [i for i in range(len(s)) if d and s.startswith(d, i)]
        if any(0 < j - i < len(d) for i in occ for j in occ):
            out.append("split_overlapping_separator")
        if len(d) > len(s):
            out.append("split_separator_longer_than_string")
        if s == "":
            out.append("split_empty_receiver")
        if d == "":
            out.append("split_empty_separator")
        if d and d == s:
            out.append("split_separator_is_string")
        if d and (s.startswith(d) or s.endswith(d) or d + d in s):
            out.append("split_empty_pieces")
    elif f == "indexOf":
        if d == "":
            out.append("indexOf_empty_needle")
        if len(d) > len(s):
            out.append("indexOf_needle_longer_than_string")
    elif f == "slice":
        out.append("slice_negative" if d < 0 else "slice_beyond_length" if d > len(s) else "slice_at_length" if d == len(s) else "slice_inside")
    elif f == "charAt":
        out.append("charAt_beyond_length" if d > len(s) else "charAt_at_length" if d == len(s) else "charAt_inside")
    elif f in ("toUpperCase", "toLowerCase"):
        if any(not c.isalpha() for c in s):
            out.append("case_mapping_with_non_letters")
        if any(c in "@[`{" for c in s):
            out.append("case_mapping_next_to_letter_range")
    return out


def vname(n):
    return b"v%d" % n


# ------------------------------------------------------------------ JSON <-> tmpl / Coq
def lit_expr(l):
    if l is None:
        return ('null',)
    if "n" in l:
        return ('num', l["n"])
    if "s" in l:
        return ('str', unhx(l["s"]))
    return ('bool', l["b"])


def lit_data(l):
    if l is None:
        return None
    if "n" in l:
        return ('f', l["n"]) if l.get("f") else l["n"]
    if "s" in l:
        return unhx(l["s"])
    return l["b"]


def lit_coq(l):
    if "n" in l:
        return b"(LNum " + cq_Z(l["n"]) + b")"
    if "s" in l:
        return b"(LStr " + cq_bytes(unhx(l["s"])) + b")"
    return b"(LBool " + cq_bool(l["b"]) + b")"


def elit_coq(l):
    return b"ENull" if l is None else b"(ELit " + lit_coq(l) + b")"


def arg_expr(a):
    return lit_expr(a["lit"]) if "lit" in a else ('id', vname(a["var"]))


def arg_coq(a):
    return b"(ALit " + lit_coq(a["lit"]) + b")" if "lit" in a else b"(AVar %d)" % a["var"]


def call_expr(s):
    recv = ('id', vname(s["recv"]))
    if s["f"] == "length":
        if s["args"]:
            return ('call', ('dot', recv, b"length"), [arg_expr(a) for a in s["args"]])
        return ('dot', recv, b"length")
    return ('call', ('dot', recv, s["f"].encode()), [arg_expr(a) for a in s["args"]])


def template(case):
    """pug nodes and page data of a case"""
    nodes, data = [], {}
    for v, i in case["inits"]:
        if i["k"] == "arr":
            if i["src"] == "data":
                data[vname(v)] = [lit_data(x) for x in i["xs"]]
            else:
                nodes.append(('code', [('vars', [('var', vname(v), ('arr', [lit_expr(x) for x in i["xs"]]))])], False, False))
        elif i["k"] == "nat":
            nodes.append(('code', [('vars', [('var', vname(v), lit_expr(i["v"]))])], False, False))
        else:
            data[vname(v)] = lit_data(i["v"])
    bar = ('text', b"|")
    for s in case["body"]:
        if s["op"] == "call":
            e = call_expr(s)
            if s["mode"] == "bind":
                nodes.append(('code', [('vars', [('var', vname(s["r"]), e)])], False, False))
            elif s["mode"] == "print":
                nodes += [('code', [('expr', e)], True, False), bar]
            else:
                nodes += [('code', [('expr', e)], False, False), bar]
        elif s["op"] == "alias":
            nodes.append(('code', [('vars', [('var', vname(s["x"]), ('id', vname(s["y"])))])], False, False))
        else:
            nodes += [('code', [('expr', ('id', vname(s["x"])))], True, False), bar]
    return nodes, data


def stmt_coq(s):
    if s["op"] == "call":
        md = {"bind": b"(Bind %d)" % s.get("r", 0), "print": b"Print", "discard": b"Discard"}[s["mode"]]
        return b"(SCall " + md + b" %d " % s["recv"] + CQ_METH[s["f"]] + b" " + cq_list([arg_coq(a) for a in s["args"]]) + b")"
    if s["op"] == "alias":
        return b"(SAlias %d %d)" % (s["x"], s["y"])
    return b"(SPrintVar %d)" % s["x"]


def init_coq(v, i):
    if i["k"] == "arr":
        t = b"(IArr " + cq_list([elit_coq(x) for x in i["xs"]]) + b")"
    elif i["k"] == "nat":
        t = b"(INat " + lit_coq(i["v"]) + b")"
    else:
        t = b"(IBox " + elit_coq(i["v"]) + b")"
    return b"(%d, " % v + t + b")"


# ------------------------------------------------------------------ generation (guided by a plain JS simulation)
def L(x):
    """python value -> lit json"""
    if x is None:
        return None
    if isinstance(x, bool):
        return {"b": x}
    if isinstance(x, int):
        return {"n": x}
    return {"s": hx(x)}


def unL(l):
    if l is None:
        return None
    if "n" in l:
        return l["n"]
    if "s" in l:
        return unhx(l["s"]).decode()
    return l["b"]


class Sim:
    """what JavaScript would hold: enough to pick in-range arguments"""

    def __init__(self):
        self.env = {}     # var -> python scalar | ('arr', loc) ; None = null/undefined
        self.heap = []
        self.next = 0

    def fresh(self):
        self.next += 1
        return self.next - 1

    def arrays(self):
        return [v for v, x in self.env.items() if isinstance(x, tuple)]

    def strings(self):
        return [v for v, x in self.env.items() if isinstance(x, str)]

    def nums(self, lo, hi):
        return [v for v, x in self.env.items() if isinstance(x, int) and not isinstance(x, bool) and lo <= x <= hi]

    def scalars(self):
        return [v for v, x in self.env.items() if not isinstance(x, tuple)]


def js_str(x):
    if x is None:
        return ""
    if isinstance(x, bool):
        return "true" if x else "false"
    return str(x)


def rand_elem(rng, nulls=True):
    x = rng.random()
    if x < 0.45:
        return rng.choice(NUMS)
    if x < 0.85:
        return rng.choice(WORDS)
    if x < 0.95 or not nulls:
        return rng.random() < 0.5
    return None


def gen_case(rng, maxops, hostile, stringy=False):
    """stringy: a history mostly of String method calls on edge_string receivers (their results - pieces of split,
    slices, characters, case-mapped copies - become receivers and array elements in turn)"""
    sim = Sim()
    inits, body = [], []
    stats = {"args": {"lit": 0, "native": 0, "boxed": 0}, "str": {}}
    native = set()

    def add_init(i, val):
        v = sim.fresh()
        inits.append([v, i])
        sim.env[v] = val
        return v

    for _ in range(rng.choice([0, 1, 1]) if stringy else rng.choice([1, 1, 2, 2, 3])):
        n = rng.choice([0, 1, 2, 3, 3, 4, 5, 6, 8, 13, 16]) if rng.random() < 0.9 else rng.randint(0, 20)
        distinct = n > 12 and rng.random() < 0.7
        xs = []
        for k in range(n):
            e = rand_elem(rng, nulls=rng.random() < 0.3)
            if distinct:
                e = k * 3 + 1 if rng.random() < 0.5 else "w%02d" % k
            xs.append(e)
        sim.heap.append(list(xs))
        src = rng.choice(["lit", "data"])
        ls = [L(x) for x in xs]
        if src == "data":     # Go ints and integer-valued float64s both convert to Number
            ls = [dict(l, f=True) if l is not None and "n" in l and rng.random() < 0.3 else l for l in ls]
        add_init({"k": "arr", "src": src, "xs": ls}, ('arr', len(sim.heap) - 1))
    for _ in range(rng.choice([0, 1, 2, 3])):
        x = rng.choice([0, 1, 2, 3, 4, ",", "a", "b", "-", True, 7, "1"])
        native.add(add_init({"k": "nat", "v": L(x)}, x))
    for _ in range(rng.choice([0, 1, 2])):
        x = rng.choice([0, 1, 2, 3, "a", ",", "1", None, False, 10, "abc"])
        add_init({"k": "box", "v": L(x)}, x)
    for _ in range(rng.choice([0, 1, 2]) if stringy else 0):      # separators / needles held in variables
        x = rng.choice([" ", " ", ",", "a", "aa", "", "\t", ".", "  "])
        if rng.random() < 0.5:
            native.add(add_init({"k": "nat", "v": L(x)}, x))
        else:
            add_init({"k": "box", "v": L(x)}, x)
    for _ in range(rng.choice([2, 3, 3, 4]) if stringy else rng.choice([0, 1, 1, 2])):
        if rng.random() < (0.8 if stringy else 0.4):
            s = edge_string(rng)
        else:
            s = rng.choice(WORDS + ["Hello, World", "one two  three", "aXbXXc", "MiXeD Case 123", " padded ", "tab\there",
                                    "two\nlines", "a.b.c", "x+y", "aaa", "[0]"])
        if rng.random() < 0.5:
            native.add(add_init({"k": "nat", "v": L(s)}, s))
        else:
            add_init({"k": "box", "v": L(s)}, s)

    def arg_of(val_ok, make_lit, pvar=0.45):
        """an argument whose JS value satisfies val_ok: a variable (native or boxed) or a literal"""
        if rng.random() < pvar:
            c = [v for v in sim.scalars() if val_ok(sim.env[v])]
            if c:
                v = rng.choice(c)
                stats["args"]["native" if v in native else "boxed"] += 1
                return {"var": v}, sim.env[v]
        stats["args"]["lit"] += 1
        x = make_lit()
        return {"lit": L(x)}, x

    def is_num(x):
        return isinstance(x, int) and not isinstance(x, bool)

    def observe():
        for v in sorted(sim.arrays())[:7]:
            body.append({"op": "call", "mode": "print", "recv": v, "f": "join", "args": [{"lit": L(",")}]})
            body.append({"op": "call", "mode": "print", "recv": v, "f": "length", "args": []})

    observe()
    nops = rng.randint(1, maxops)
    hostile_at = rng.randrange(nops) if hostile else -1
    for opi in range(nops):
        arrs, strs = sim.arrays(), sim.strings()
        if rng.random() < 0.06 and sim.env:
            y = rng.choice(list(sim.env))
            x = sim.fresh() if rng.random() < 0.8 else rng.choice(list(sim.env))
            body.append({"op": "alias", "x": x, "y": y})
            sim.env[x] = sim.env[y]
            native.discard(x)
            if y in native:
                native.add(x)
            continue
        use_str = strs and (not arrs or rng.random() < (0.6 if stringy else 0.22))
        if not use_str and not arrs:
            break
        recv = rng.choice(strs if use_str else arrs)
        args, res, newarr = [], None, None
        if use_str:
            s = sim.env[recv]
            f = rng.choice(STR_METHODS)
            f = rng.choice(STR_METHODS + ["split", "split"]) if stringy else f
            d = None
            if f in ("toUpperCase", "toLowerCase") and rng.random() < 0.5:   # the neighbours of the letter ranges
                c = [v for v in strs if any(ch in "@[`{" for ch in sim.env[v])]
                if c:
                    recv = rng.choice(c)
                    s = sim.env[recv]
            if f == "split" and rng.random() < 0.5:     # the receivers on which look-alike splitters differ
                c = [v for v in strs if str_class("split", sim.env[v], " ")[:1] == [BLANK_CLASS] or self_overlaps(sim.env[v])]
                if c:
                    recv = rng.choice(c)
                    s = sim.env[recv]
            if f == "length":
                res = len(s)
            elif f == "charAt":
                a, d = arg_of(lambda x: is_num(x) and 0 <= x, lambda: str_index(rng, len(s), 0))
                args, res = [a], s[d:d + 1]
            elif f == "indexOf":
                a, d = arg_of(lambda x: isinstance(x, str) and len(x) <= 3, lambda: index_needle(rng, s), 0.3)
                args, res = [a], s.find(d)
            elif f == "slice":
                a, d = arg_of(lambda x: is_num(x) and -len(s) <= x, lambda: str_index(rng, len(s), -len(s)))
                args, res = [a], s[d:] if d != 0 else s
                if d > len(s):
                    res = ""
            elif f == "split":
                a, d = arg_of(lambda x: isinstance(x, str) and len(x) <= 2, lambda: split_sep(rng, s), 0.3)
                args = [a]
                newarr = list(s) if d == "" else s.split(d)
            elif f == "toUpperCase":
                res = s.upper()
            else:
                res = s.lower()
            for k in str_class(f, s, d):
                stats["str"][k] = stats["str"].get(k, 0) + 1
        else:
            loc = sim.env[recv][1]
            items = sim.heap[loc]
            many = len(arrs) >= 6
            f = rng.choice(["push"] * 3 + ["pop", "shift", "unshift", "sort"] * 2 + ["indexOf"] * 2 + ["join", "length"] +
                           ([] if many else ["splice", "slice"] * 2))
            if f == "push":
                a, x = arg_of(lambda x: True, lambda: rand_elem(rng, nulls=False))
                args = [a]
                items.append(x)
                res = len(items)
            elif f == "pop":
                res = items.pop() if items else None
            elif f == "shift":
                res = items.pop(0) if items else None
            elif f == "unshift":
                xs = []
                for _ in range(rng.choice([0, 1, 1, 1, 2, 3])):
                    a, x = arg_of(lambda x: True, lambda: rand_elem(rng, nulls=False))
                    args.append(a)
                    xs.append(x)
                items[0:0] = xs
                res = len(items)
            elif f == "sort":
                # nulls sort as "null"; undefined cannot be told from null here, the judge knows
                items.sort(key=lambda x: "null" if x is None else js_str(x))
                res = None
            elif f in ("splice", "slice"):
                a, n = arg_of(lambda x: is_num(x) and 0 <= x <= len(items), lambda: rng.randint(0, len(items)))
                args = [a]
                newarr = items[n:]
                if f == "splice":
                    del items[n:]
            elif f == "indexOf":
                def needle():
                    if items and rng.random() < 0.7:
                        e = rng.choice(items)
                        if e is not None:
                            return e
                    return rand_elem(rng, nulls=False)
                a, x = arg_of(lambda x: True, needle)
                args = [a]
                res = next((i for i, e in enumerate(items) if type(e) == type(x) and e == x), -1)
            elif f == "join":
                a, d = arg_of(lambda x: isinstance(x, str), lambda: rng.choice(SEPS))
                args, res = [a], d.join(js_str(e) for e in items)
            else:
                res = len(items)
        st = {"op": "call", "recv": recv, "f": f, "args": args}
        if opi == hostile_at:
            h = rng.choice(["range", "type", "arity", "discard", "printarr"])
            if h == "range" and f in ("splice", "slice", "charAt"):
                n = rng.choice([-1, -2, 99]) if f != "slice" or not use_str else -99
                if f in ("splice", "slice") and not use_str:
                    n = rng.choice([-1, len(sim.heap[sim.env[recv][1]]) + 1 + (1 if f == "splice" else 0), 50])
                st["args"] = [{"lit": L(n)}]
            elif h == "type" and args:
                st["args"] = [{"lit": L(rng.choice([True, "q", 3]))}]
            elif h == "arity":
                st["args"] = args + [{"lit": L(1)}] if rng.random() < 0.5 or not args else args[:-1]
            elif h == "discard":
                st["mode"] = "discard"
            elif h == "printarr" and newarr is not None:
                st["mode"] = "print"
            st.setdefault("mode", "bind")
            st.setdefault("r", sim.fresh())
            body.append(st)
            break
        if f in UNIT:
            x = rng.random()
            st["mode"] = "discard" if x < 0.85 else "bind" if x < 0.93 else "print"
            if st["mode"] == "bind":
                st["r"] = sim.fresh()
                sim.env[st["r"]] = None   # never used as an argument afterwards: its value is the deviation
                del sim.env[st["r"]]
            body.append(st)
        elif newarr is not None:
            st["mode"] = "bind"
            st["r"] = sim.fresh() if rng.random() < 0.9 or not sim.env else rng.choice(list(sim.env))
            sim.heap.append(newarr)
            sim.env[st["r"]] = ('arr', len(sim.heap) - 1)
            native.discard(st["r"])
            body.append(st)
        elif rng.random() < 0.3:
            st["mode"] = "print"
            body.append(st)
        else:
            st["mode"] = "bind"
            st["r"] = sim.fresh() if rng.random() < 0.92 or not sim.env else rng.choice(list(sim.env))
            sim.env[st["r"]] = res
            native.discard(st["r"])
            body.append(st)
            if rng.random() < 0.85:
                body.append({"op": "printvar", "x": st["r"]})
        if f in MUTATING or newarr is not None:
            observe()
    return {"inits": inits, "body": body}, stats


class C20(Prop):
    id = "C20"
    engine = "T"
    judge_module = "Run.Judge_C20"
    prop_module = "Props.C20"
    prop_file = "Props/C20.v"
    coq_targets = ["Props/C20.vo", "Run/Judge_C20.vo"]
    sizes = {"quick": 700, "thorough": 12000}
    shard = 125
    design_ref = "DESIGN.md section 6 C20, section 7 F-C20-a..f"
    rule = ("one case = one template executed by a real Engine: 1-3 initial arrays (literals or []interface{} page data, "
            "0-20 elements: integers, ASCII strings, booleans, null), native variables (- var i = 1), boxed page-data "
            "scalars and strings, then a generated history of <= 30 (thorough <= 120) calls of push pop shift unshift sort "
            "splice slice indexOf join length / length charAt indexOf slice split toUpperCase toLowerCase, each as "
            "'- var rN = recv.m(args)', '= recv.m(args)' or '- recv.m(args)', arguments as literals, native and boxed "
            "variables chosen in range by a plain simulation, results printed and results of splice/slice/split used as "
            "new receivers, aliases by '- var x = y'; after every call join(',') and length of every live array variable "
            "are printed. 35% of the cases are string histories: 2-4 receivers drawn from tiny alphabets (blank/tab/line "
            "feed with a letter; one or two letters giving runs and self-overlaps; the neighbours @ [ ` { of the letter "
            "ranges, digits, punctuation; regular-expression operators), 60% of their calls are String methods and a third "
            "of those split; split separators: the one-blank separator (50% where the receiver holds white space; half of "
            "the splits re-pick a receiver with leading, trailing or adjacent blanks, a tab or a line feed, or a "
            "self-overlapping piece), single and doubled characters and 2-3 character pieces of the receiver, pieces that "
            "overlap themselves ('aa' on 'aaa'), the receiver itself, a separator longer than the receiver, the empty "
            "separator, separators held in variables; indexOf needles: the empty string (15%), pieces, the receiver, "
            "longer than the receiver, the other letter case; charAt/slice indices inside, at the length, and beyond it "
            "(length+2..6, 50, 99, 1000), slice starts down to -length; the pieces of split are array receivers of "
            "the following calls, so a wrong element count shows in length/join/indexOf/pop. The same strings (40%) "
            "also feed the array histories. The evidence field distribution.string_method_situations counts the calls in each "
            "named situation. 10% of the cases end in one out-of-range / ill-typed / wrong-arity call; non-trivial = at "
            "least 3 calls of which one mutates an array or splits a string; distinct by SHA-1 of the case")
    trusted = [
        "M is a hand-written reading of pugjs/types.go (Array/String methods) and of evalCall/evalArg/validateType in "
        "pugjs/tpl_exec.go; reflect, Go slices/append, sort.Slice (modelled as a stable sort: it is an insertion sort up "
        "to 12 elements; longer arrays with equal keys on different values are declined as unmodelled), strings.Index/"
        "Split/ToUpper/ToLower (modelled by str_index/str_split/up_char/low_char), big.Float formatting (integers "
        "below 10^10) are the Go runtime's, exercised by the correspondence runs only",
        "the text a template writes between values ('|'), the HTML escaper (strings avoid & < > \" ' \\ |) and the pug "
        "front end are outside this property: other properties cover them",
        "S is JavaScript's Array.prototype / String.prototype on integers below 10^10, ASCII strings, booleans, null and "
        "undefined, written from ECMA-262; no JavaScript engine is run. split (the SplitMatch loop), indexOf (smallest "
        "matching position) and the case mappings (the 26 letter pairs) of S are definitions of their own, not the "
        "helpers of M; C20_string_readings_agree proves the two readings equal for all strings and C20_split_join that "
        "join(sep) undoes split(sep); the judge evaluates S's own definitions on the real code's output",
    ]
    assumptions = [
        "array elements and arguments are integers of magnitude below 10^10, ASCII strings, booleans and null; arrays "
        "inside arrays, printing an array itself, floats and non-ASCII strings are outside the claim",
        "in-range means: splice/slice start in 0..length, charAt index >= 0 (any index at or beyond the length is in "
        "range: ''), String.slice start >= -length (any start beyond the length is in range: ''), join/split/"
        "String.indexOf arguments are strings (any string, the empty one included); String.slice with an end argument "
        "is not modelled (such calls are declined as unmodelled); String.replace is not part of the property",
    ]
    not_yet_proved = []

    def generate(self, rng, n, tier):
        cases = []
        self.stats = {"lit": 0, "native": 0, "boxed": 0}
        self.str_stats = {"string_histories": 0}
        maxops = 30 if tier == "quick" else 120
        for i in range(n):
            hostile = rng.random() < 0.10
            big = rng.random() < 0.15
            stringy = rng.random() < 0.35
            c, st = gen_case(rng, maxops if big else 10, hostile, stringy)
            for k in self.stats:
                self.stats[k] += st["args"][k]
            self.str_stats["string_histories"] += stringy
            for k, v in st["str"].items():
                self.str_stats[k] = self.str_stats.get(k, 0) + v
            cases.append(c)
        return cases

    def run(self, binary, cases, tmp, tier):
        tcases = []
        for c in cases:
            nodes, data = template(c)
            tcases.append(tmpl.tmpl_case(nodes, data))
        res = []
        for i in range(0, len(tcases), 400):
            res += run_harness(binary, "T", tcases[i:i + 400])
        return res

    def emit(self, case, obs):
        if obs["load"] != "ok":
            cls, out = 2, b""
        elif obs["res"]["class"] == "ok":
            cls, out = 0, unhx(obs["res"]["out"])
        elif obs["res"]["class"] == "exec_panic":
            cls, out = 1, b""
        else:
            cls, out = 2, b""
        return (b"{| inits := " + cq_list([init_coq(v, i) for v, i in case["inits"]]) +
                b"; body := " + cq_list([stmt_coq(s) for s in case["body"]]) +
                b"; go_class := %d; go_out := " % cls + cq_bytes(out) + b" |}")

    def nontrivial(self, case, obs):
        calls = [s for s in case["body"] if s["op"] == "call" and not (s["mode"] == "print" and s["f"] in ("join", "length"))]
        return len(calls) >= 3 and any(s["f"] in MUTATING or s["f"] == "split" for s in calls)

    def sample(self, case, obs):
        nodes, data = template(case)
        lines = []
        for nd in nodes:
            if nd[0] == 'code':
                src = b'; '.join(tmpl.stmt_src(s) for s in nd[1]).decode()
                lines.append(("= " if nd[2] else "- ") + src)
        out = unhx(obs["res"]["out"]).decode(errors="replace") if obs.get("load") == "ok" and obs["res"]["class"] == "ok" else None
        return {"template": lines[:40], "data": tmpl.data_plain(data), "go_class": obs["res"]["class"] if obs.get("load") == "ok" else obs.get("load"),
                "go_out": out[:300] if out is not None else None}

    def shrink(self, case):
        body = case["body"]
        # drop the tail, then single statements, then initial bindings, then array elements
        for cut in (len(body) // 2, len(body) - 1):
            if 0 < cut < len(body):
                yield {"inits": case["inits"], "body": body[:cut]}
        for i in range(len(body)):
            yield {"inits": case["inits"], "body": body[:i] + body[i + 1:]}
        for i in range(len(case["inits"])):
            yield {"inits": case["inits"][:i] + case["inits"][i + 1:], "body": body}
        for i, (v, ini) in enumerate(case["inits"]):
            if ini["k"] == "arr":
                for j in range(len(ini["xs"])):
                    ni = dict(ini)
                    ni["xs"] = ini["xs"][:j] + ini["xs"][j + 1:]
                    yield {"inits": case["inits"][:i] + [[v, ni]] + case["inits"][i + 1:], "body": body}

    def model_expr(self):
        return "(model_says c, spec_says c)"

    def distribution(self, cases, obss):
        d = {"methods": {}, "modes": {}, "go_class": {}, "history_len": {"1-5": 0, "6-15": 0, "16-40": 0, "41+": 0},
             "initial_arrays": {"lit": 0, "data": 0}, "aliases": 0,
             "argument_kinds": dict(getattr(self, "stats", {})),
             "string_method_situations": dict(sorted(getattr(self, "str_stats", {}).items()))}
        for c, o in zip(cases, obss):
            n = 0
            for s in c["body"]:
                if s["op"] == "alias":
                    d["aliases"] += 1
                if s["op"] != "call" or (s["mode"] == "print" and s["f"] in ("join", "length") and s["args"] in ([], [{"lit": L(",")}])):
                    continue
                n += 1
                d["methods"][s["f"]] = d["methods"].get(s["f"], 0) + 1
                d["modes"][s["mode"]] = d["modes"].get(s["mode"], 0) + 1
            d["history_len"]["1-5" if n <= 5 else "6-15" if n <= 15 else "16-40" if n <= 40 else "41+"] += 1
            for v, i in c["inits"]:
                if i["k"] == "arr":
                    d["initial_arrays"][i["src"]] += 1
            k = o["res"]["class"] if o.get("load") == "ok" else o.get("load")
            d["go_class"][k] = d["go_class"].get(k, 0) + 1
        return d


PROP = C20()
