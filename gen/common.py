# Shared machinery of the checks: Coq build, Go harness, judging inside Coq,
# search/shrink, evidence and replay writers.  See DESIGN.md sections 1 and 4.
import fcntl
import hashlib
import json
import os
import random
import re
import shutil
import subprocess
import sys
import tempfile
import time
from concurrent.futures import ThreadPoolExecutor

VERIF = os.path.dirname(os.path.dirname(os.path.abspath(__file__)))
COQ = os.path.join(VERIF, "coq")
HARNESS = os.path.join(VERIF, "harness")
REPO = os.environ.get("PV_REPO", "/repo")   # override only for experiments on a scratch worktree
GOENV = dict(os.environ, GOFLAGS="-mod=mod", GOPROXY="off", GOSUMDB="off",
             GOTOOLCHAIN="local", CGO_ENABLED=os.environ.get("CGO_ENABLED", "0"))

V_AGREE, V_VIOLATION, V_DRIFT, V_UNMODELLED = 0, 1, 2, 3
V_KNOWN_BASE = 10

FORBIDDEN = re.compile(
    r"\b(Admitted|admit|Axiom|Axioms|Parameter|Parameters|Conjecture|Conjectures|"
    r"Abort All|bypass_check|Unset Guard Checking|Unset Positivity Checking|"
    r"Unset Universe Checking|Admit Obligations|type-in-type|impredicative-set)\b")


def log(*a):
    print(*a, file=sys.stderr, flush=True)


# ---------------------------------------------------------------- Gallina emitters

def cq_bytes(b):
    """A Go byte string as the Gallina term (B "...").  Returns bytes."""
    if isinstance(b, str):
        b = b.encode("utf-8")
    return b'(B "' + b.replace(b'"', b'""') + b'")'


def cq_list(items):
    return b"[" + b"; ".join(items) + b"]"


def cq_opt(x):
    return b"None" if x is None else b"(Some " + x + b")"


def cq_bool(b):
    return b"true" if b else b"false"


def cq_nat(n):
    assert 0 <= n < 5000, n
    return str(n).encode()


def cq_Z(n):
    return ("(%d)%%Z" % n).encode()


def cq_N(n):
    return ("%d%%N" % n).encode()


def cq_pair(a, b):
    return b"(" + a + b", " + b + b")"


def hx(b):
    if isinstance(b, str):
        b = b.encode("utf-8")
    return b.hex()


def unhx(s):
    return bytes.fromhex(s)


# ---------------------------------------------------------------- building

class BuildError(Exception):
    def __init__(self, what, logtext):
        super().__init__(what)
        self.what = what
        self.logtext = logtext


def _lock():
    f = open(os.path.join(COQ, ".lock"), "w")
    fcntl.flock(f, fcntl.LOCK_EX)
    return f


def regenerate_tables():
    """tools/extract: /repo source -> coq/Gen/Tables.v, coq/Gen/Sigs.v.  The program writes every generated
    file itself, each only when its text changes, and none at all when one table cannot be extracted."""
    src = os.path.join(VERIF, "tools", "extract")
    if not os.path.exists(os.path.join(src, "main.go")):
        return
    out = subprocess.run(["go", "run", ".", "-o", os.path.join(COQ, "Gen"), REPO], cwd=src, env=GOENV,
                         capture_output=True, timeout=300)
    if out.returncode != 0:
        raise BuildError("tools/extract failed (a table / signature / constant no longer has the expected plain shape?)",
                         out.stderr.decode(errors="replace"))


COQPROJECT_HEAD = """-Q . PV
-arg -w -arg -notation-overridden,-deprecated-syntactic-definition,-deprecated
"""


def write_coqproject():
    """_CoqProject lists every .v file below coq/ (sorted); rewritten only when the set changes."""
    files = []
    for root, _, fns in os.walk(COQ):
        for fn in fns:
            if fn.endswith(".v"):
                files.append(os.path.relpath(os.path.join(root, fn), COQ))
    text = COQPROJECT_HEAD + "\n".join(sorted(files)) + "\n"
    cp = os.path.join(COQ, "_CoqProject")
    if not os.path.exists(cp) or open(cp).read() != text:
        with open(cp, "w") as f:
            f.write(text)


def coq_make(targets, timeout=1800):
    """Full .vo build of the given targets (and what they depend on)."""
    lk = _lock()
    try:
        regenerate_tables()
        mk = os.path.join(COQ, "Makefile")
        cp = os.path.join(COQ, "_CoqProject")
        write_coqproject()
        if not os.path.exists(mk) or os.path.getmtime(mk) < os.path.getmtime(cp):
            subprocess.run(["coq_makefile", "-f", "_CoqProject", "-o", "Makefile"], cwd=COQ,
                           check=True, capture_output=True)
        t0 = time.time()
        p = subprocess.run(["make", "-j16"] + targets, cwd=COQ, capture_output=True, timeout=timeout)
        text = (p.stdout + p.stderr).decode(errors="replace")
        if p.returncode != 0:
            m = re.search(r'File "\./([^"]+)", line (\d+)', text)
            where = "%s:%s" % (m.group(1), m.group(2)) if m else "unknown"
            raise BuildError("Coq build failed at " + where, text[-4000:])
        return time.time() - t0
    finally:
        lk.close()


def build_harness(tmp, race=False):
    shutil.copy(os.path.join(REPO, "go.sum"), os.path.join(HARNESS, "go.sum"))
    out = os.path.join(tmp, "pugrun-race" if race else "pugrun")
    env = dict(GOENV)
    cmd = ["go", "build", "-tags", "verif", "-o", out]
    if REPO != "/repo":   # experiments on a scratch worktree: same sources, other replace target
        mf = os.path.join(tmp, "alt.mod")
        with open(mf, "w") as f:
            f.write(open(os.path.join(HARNESS, "go.mod")).read().replace("=> /repo", "=> " + REPO))
        shutil.copy(os.path.join(REPO, "go.sum"), os.path.join(tmp, "alt.sum"))
        cmd.append("-modfile=" + mf)
    if race:
        cmd.insert(2, "-race")
        env["CGO_ENABLED"] = "1"
    p = subprocess.run(cmd + ["."], cwd=HARNESS, env=env, capture_output=True, timeout=900)
    if p.returncode != 0:
        raise BuildError("harness does not build against /repo working tree",
                         (p.stdout + p.stderr).decode(errors="replace")[-4000:])
    return out


def run_harness(binary, engine, cases, timeout=1200, env=None, cwd=None):
    p = subprocess.run([binary, engine], input=json.dumps(cases).encode(), capture_output=True,
                       timeout=timeout, env=env, cwd=cwd)
    if p.returncode != 0:
        raise BuildError("harness run failed (%s)" % engine, p.stderr.decode(errors="replace")[-4000:])
    return json.loads(p.stdout)


# ---------------------------------------------------------------- judging inside Coq

def _coqc(path, timeout):
    cmd = "ulimit -s unlimited 2>/dev/null; exec coqc -q -Q %s PV %s" % (COQ, path)
    return subprocess.run(["bash", "-c", cmd], capture_output=True, timeout=timeout,
                          cwd=os.path.dirname(path))


def judge_in_coq(judge_module, terms, tmp, shard=250, timeout=900, judge_fn="judge", tag="J"):
    """terms: list of Gallina case terms (bytes).  Returns list of verdict codes (ints)."""
    if not terms:
        return []
    shards = [terms[i:i + shard] for i in range(0, len(terms), shard)]
    paths = []
    for si, sh in enumerate(shards):
        path = os.path.join(tmp, "%s_%d.v" % (tag, si))
        with open(path, "wb") as f:
            f.write(b"From PV Require Import Base.Bytes Run.Verdict %s.\n" % judge_module.encode())
            for i, t in enumerate(sh):
                f.write(b"Definition c%d := " % i + t + b".\n")
            f.write(b"Definition R := Eval vm_compute in [" +
                    b"; ".join(b"%s c%d" % (judge_fn.encode(), i) for i in range(len(sh))) + b"].\n")
            f.write(b"Print R.\n")
        paths.append(path)

    def one(path):
        p = _coqc(path, timeout)
        text = (p.stdout + p.stderr).decode(errors="replace")
        if p.returncode != 0:
            raise BuildError("judging failed in Coq: " + os.path.basename(path), text[-3000:])
        m = re.search(r"R\s*=\s*\[(.*?)\]\s*:\s*list nat", text, re.S)
        if not m:
            raise BuildError("cannot read verdicts", text[-2000:])
        body = m.group(1).strip()
        return [int(x) for x in re.findall(r"\d+", body)]

    with ThreadPoolExecutor(max_workers=16) as ex:
        res = list(ex.map(one, paths))
    codes = [c for r in res for c in r]
    if len(codes) != len(terms):
        raise BuildError("verdict count mismatch", "%d != %d" % (len(codes), len(terms)))
    return codes


def coq_eval(judge_module, term, expr, tmp, timeout=300):
    """Evaluate expr (mentions c) on one case; returns Coq's printed text (diagnostic only)."""
    path = os.path.join(tmp, "E_%d.v" % random.randrange(1 << 30))
    with open(path, "wb") as f:
        f.write(b"From PV Require Import Base.Bytes Run.Verdict %s.\n" % judge_module.encode())
        f.write(b"Definition c := " + term + b".\n")
        f.write(b"Eval vm_compute in (" + expr.encode() + b").\n")
    try:
        p = _coqc(path, timeout)
    except subprocess.TimeoutExpired:
        return "<timeout>"
    return (p.stdout + p.stderr).decode(errors="replace")[-6000:]


def theorem_names(prop_file):
    txt = open(os.path.join(COQ, prop_file)).read()
    return re.findall(r"^\s*(?:Theorem|Lemma|Corollary)\s+([A-Za-z0-9_']+)", txt, re.M)


def print_assumptions(prop_module, names, tmp):
    """Re-checks that the property theorems exist in the compiled development and
    returns {theorem: Print Assumptions text}."""
    path = os.path.join(tmp, "PA.v")
    with open(path, "w") as f:
        f.write("From PV Require Import %s.\n" % prop_module)
        for n in names:
            f.write('Check %s.\nPrint Assumptions %s.\n' % (n, n))
    p = _coqc(path, 600)
    text = (p.stdout + p.stderr).decode(errors="replace")
    if p.returncode != 0:
        raise BuildError("property theorems do not check: " + prop_module, text[-3000:])
    # split output per theorem: each Check prints "name\n : type", each PA prints a block
    res = {}
    blocks = re.split(r"(?m)^(?=[A-Za-z0-9_']+\s*\n?\s*:)", text)
    cur = None
    for n in names:
        res[n] = None
    # simpler: sequentially scan
    pos = 0
    for i, n in enumerate(names):
        m = re.search(r"(?m)^%s\b" % re.escape(n), text[pos:])
        if not m:
            continue
        start = pos + m.start()
        nxt = len(text)
        if i + 1 < len(names):
            m2 = re.search(r"(?m)^%s\b" % re.escape(names[i + 1]), text[start + 1:])
            if m2:
                nxt = start + 1 + m2.start()
        blk = text[start:nxt]
        if "Closed under the global context" in blk:
            res[n] = "Closed under the global context"
        else:
            k = blk.find("Axioms:")
            res[n] = blk[k:].strip() if k >= 0 else blk.strip()[-800:]
        pos = start + 1
    return res


def coqchk(prop_module, timeout=3000):
    """independent re-check of the compiled property file and everything it depends on (thorough tier)"""
    lk = _lock()
    try:
        t0 = time.time()
        try:
            p = subprocess.run(["coqchk", "-silent", "-o", "-Q", ".", "PV", "PV." + prop_module], cwd=COQ,
                               capture_output=True, timeout=timeout)
        except subprocess.TimeoutExpired:
            return {"ok": False, "tail": "coqchk timed out after %d s" % timeout}
        text = (p.stdout + p.stderr).decode(errors="replace")
        m = re.search(r"CONTEXT SUMMARY.*", text, re.S)
        summary = re.sub(r"\s+", " ", m.group(0)) if m else text[-600:]
        axioms = re.search(r"\* Axioms:(.*?)\* Constants", summary)
        return {"ok": p.returncode == 0, "wall_s": round(time.time() - t0, 1), "summary": summary[:1500],
                "axioms": axioms.group(1).strip() if axioms else None, "tail": text[-600:] if p.returncode else ""}
    finally:
        lk.close()


def dependency_cone(targets):
    """the .v files the given .vo targets are built from (coqdep -sort), relative to coq/"""
    vs = [t[:-1] if t.endswith(".vo") else t for t in targets]
    try:
        p = subprocess.run(["coqdep", "-Q", ".", "PV", "-sort"] + vs, cwd=COQ, capture_output=True, timeout=120)
        files = [f[2:] if f.startswith("./") else f for f in p.stdout.decode().split() if f.endswith(".v")]
        if p.returncode == 0 and files:
            return files
    except Exception:
        pass
    return None


def forbidden_scan(targets=None):
    """forbidden constructs in the sources of the dependency cone of `targets` (whole development when None)"""
    hits = []
    cone = dependency_cone(targets) if targets else None
    if cone is not None:
        paths = [os.path.join(COQ, f) for f in cone]
    else:
        paths = [os.path.join(root, fn) for root, _, files in os.walk(COQ) for fn in files if fn.endswith(".v")]
    for p in paths:
        if not os.path.exists(p):
            continue
        txt = open(p, errors="replace").read()
        # drop comments (non-nested approximation is enough: we never nest)
        txt2 = re.sub(r"\(\*.*?\*\)", "", txt, flags=re.S)
        for m in FORBIDDEN.finditer(txt2):
            hits.append("%s: %s" % (os.path.relpath(p, COQ), m.group(0)))
    return hits


# ---------------------------------------------------------------- known findings

def load_known(prop_id):
    """KNOWN_FINDINGS.txt lines: finding: property=Cxx id=F-.. class=<n> <text> | fixed: ..."""
    path = os.path.join(VERIF, "KNOWN_FINDINGS.txt")
    res = {}
    if not os.path.exists(path):
        return res
    for line in open(path):
        line = line.strip()
        if not line.startswith("finding:"):
            continue
        m = re.match(r"finding:\s+property=(\S+)\s+id=(\S+)\s+class=(\d+)\s+(.*)", line)
        if m and m.group(1) == prop_id:
            res[int(m.group(3))] = (m.group(2), m.group(4))
    return res


# ---------------------------------------------------------------- the generic check

class Prop:
    """Base class; each property module subclasses it."""
    id = None
    engine = None             # harness sub-command
    judge_module = None       # e.g. "Run.Judge_C17"
    prop_module = None        # e.g. "Props.C17"
    extra_props = []          # further property files of the same property: [("Props/C02Fuel.v", "Props.C02Fuel")]
    prop_file = None          # e.g. "Props/C17.v"
    coq_targets = None
    sizes = {"quick": 200, "thorough": 5000}
    shard = 250
    rule = ""
    design_ref = ""
    trusted = []
    assumptions = []
    not_yet_proved = []
    needs_race = False

    def generate(self, rng, n, tier):
        raise NotImplementedError

    def emit(self, case, obs):
        raise NotImplementedError

    def nontrivial(self, case, obs):
        return True

    def sample(self, case, obs):
        return case

    def shrink(self, case):
        return []

    def model_expr(self):
        return None   # Gallina expression over c giving the model's output (diagnostic)

    def run(self, binary, cases, tmp, tier):
        return run_harness(binary, self.engine, cases)

    def extra(self, binary, tmp, tier, rng, ev):
        """Hook for additional observation-only streams; returns list of violation dicts."""
        return []

    def corpus(self):
        d = os.path.join(VERIF, "corpus", self.id)
        res = []
        if os.path.isdir(d):
            for fn in sorted(os.listdir(d)):
                if fn.endswith(".json"):
                    doc = json.load(open(os.path.join(d, fn)))
                    res.append(doc["case"] if "case" in doc else doc)
        return res

    def distribution(self, cases, obss):
        return {}


def case_hash(case):
    return hashlib.sha1(json.dumps(case, sort_keys=True).encode()).hexdigest()


def write_replay(prop, seed, idx, case, obs, verdict, note, extra=None):
    d = os.path.join(VERIF, "replays")
    os.makedirs(d, exist_ok=True)
    path = os.path.join(d, "%s-seed%d-%s.json" % (prop.id, seed, idx))
    doc = {"property": prop.id, "seed": seed, "index": idx, "verdict": verdict,
           "what": note, "case": case, "observation": obs}
    if extra:
        doc.update(extra)
    with open(path, "w") as f:
        json.dump(doc, f, indent=1)
    return path


def evaluate(prop, binary, cases, tmp, tier, tag="J"):
    obss = prop.run(binary, cases, tmp, tier)
    terms = [prop.emit(c, o) for c, o in zip(cases, obss)]
    codes = judge_in_coq(prop.judge_module, terms, tmp, shard=prop.shard, tag=tag)
    return obss, terms, codes


def shrink_case(prop, binary, case, tmp, tier, want, budget_s):
    """Greedy delta debugging: keep any smaller candidate with the same verdict class."""
    t0 = time.time()
    cur = case
    improved = True
    rounds = 0
    while improved and time.time() - t0 < budget_s:
        improved = False
        cands = list(prop.shrink(cur))[:200]
        if not cands:
            break
        try:
            obss, terms, codes = evaluate(prop, binary, cands, tmp, tier, tag="S%d" % rounds)
        except BuildError:
            break
        rounds += 1
        for c, code in zip(cands, codes):
            if code == want:
                cur = c
                improved = True
                break
    return cur


def run_check(prop, tier, seed, replay=None):
    t0 = time.time()
    ev = {"property_id": prop.id, "tier": tier, "seed": seed, "level": "proof",
          "coverage": {}, "assumptions": list(prop.assumptions), "wall_s": 0.0, "violations": 0}
    cov = ev["coverage"]
    violations = []      # (replay_path, suffix)
    known_lines = []
    tmp = tempfile.mkdtemp(prefix="pv_%s_" % prop.id)
    rc = 0
    try:
        # ---- 1. proof obligations
        names = theorem_names(prop.prop_file)
        extra = [(m, theorem_names(f)) for f, m in prop.extra_props]
        obligations = len(names) + sum(len(ns) for _, ns in extra) + 1      # + "no forbidden construct in the development"
        discharged = 0
        proof_broken = None
        try:
            bt = coq_make(prop.coq_targets)
            cov["coq_build_s"] = round(bt, 1)
            pa = print_assumptions(prop.prop_module, names, tmp)
            for m, ns in extra:
                pa.update(print_assumptions(m, ns, tmp))
            names = names + [n for _, ns in extra for n in ns]
            discharged = sum(1 for n in names if pa.get(n) is not None)
            cov["print_assumptions"] = pa
            if tier == "thorough" and not os.environ.get("PV_NO_COQCHK"):
                cov["coqchk"] = coqchk(prop.prop_module)
                for m, _ in extra:
                    if cov["coqchk"].get("ok"):
                        more = coqchk(m)
                        cov["coqchk_" + m] = more
                        if not more.get("ok"):
                            cov["coqchk"] = more
                if not cov["coqchk"].get("ok"):
                    proof_broken = ("coqchk rejects the compiled development of " + prop.prop_module, cov["coqchk"].get("tail", ""))
            hits = forbidden_scan(prop.coq_targets)
            if hits:
                proof_broken = ("forbidden construct in the Coq sources: " + "; ".join(hits[:5]), "")
            else:
                discharged += 1
            if discharged != obligations and not proof_broken:
                proof_broken = ("a property theorem is missing from the compiled development", str(pa))
        except BuildError as e:
            proof_broken = (e.what, e.logtext)
        cov["obligations"] = obligations
        cov["discharged"] = discharged
        cov["theorems"] = names
        cov["checker_cmd"] = "make -C coq -j16 %s  (coqc 8.16.1, full .vo build) + Print Assumptions per theorem" % " ".join(prop.coq_targets)
        cov["trusted_base"] = [
            "Coq 8.16.1 kernel and VM (vm_compute); no native_compute; no extraction",
            "axioms per theorem: see coverage.print_assumptions (expected: Closed under the global context)",
            "correspondence harness /verif/harness (Go, built from /repo working tree with -tags verif) and /verif/gen emitters",
        ] + list(prop.trusted)
        if prop.not_yet_proved:
            cov["not_yet_proved"] = list(prop.not_yet_proved)

        # ---- 2. correspondence
        binary = build_harness(tmp, race=prop.needs_race)
        rng = random.Random(seed)
        if replay:
            doc = json.load(open(replay))
            cases = [doc["case"]]
        else:
            n = prop.sizes[tier]
            cases = prop.corpus() + prop.generate(rng, n, tier)
        judge_ok = proof_broken is None or os.path.exists(os.path.join(COQ, prop.judge_module.replace(".", "/") + ".vo"))
        obss, terms, codes = [], [], []
        if judge_ok:
            try:
                # the judge may be stale if the build broke before reaching it: build it alone
                if proof_broken is not None:
                    coq_make([prop.judge_module.replace(".", "/") + ".vo"])
                obss, terms, codes = evaluate(prop, binary, cases, tmp, tier)
            except BuildError as e:
                if proof_broken is None:
                    raise
                log("judge unavailable:", e.what)
                obss = prop.run(binary, cases, tmp, tier)
                codes = []
        known = load_known(prop.id)
        hist = {}
        for c in codes:
            hist[str(c)] = hist.get(str(c), 0) + 1
        cov["verdicts"] = {"agree": hist.get("0", 0), "violation": hist.get("1", 0),
                           "drift": hist.get("2", 0), "unmodelled": hist.get("3", 0),
                           "known": sum(v for k, v in hist.items() if int(k) >= V_KNOWN_BASE)}
        cov["evaluations"] = len(cases)
        seen = set()
        nt = 0
        for c, o in zip(cases, obss):
            h = case_hash(c)
            if h in seen:
                continue
            seen.add(h)
            if prop.nontrivial(c, o):
                nt += 1
        cov["distinct_nontrivial"] = nt
        cov["rule"] = prop.rule
        cov["samples"] = [prop.sample(c, o) for c, o in list(zip(cases, obss))[:3]]
        cov["distribution"] = prop.distribution(cases, obss)
        cov["design_ref"] = prop.design_ref

        budget = 60 if tier == "quick" else 600
        viol_idx = [i for i, c in enumerate(codes) if c == V_VIOLATION]
        drift_idx = [i for i, c in enumerate(codes) if c == V_DRIFT]
        unknown_known = [i for i, c in enumerate(codes) if c >= V_KNOWN_BASE and (c - V_KNOWN_BASE) not in known]
        viol_idx += unknown_known  # a "known" class that is not listed in KNOWN_FINDINGS.txt is a violation
        for k in sorted({c - V_KNOWN_BASE for c in codes if c >= V_KNOWN_BASE and (c - V_KNOWN_BASE) in known}):
            fid, text = known[k]
            known_lines.append("KNOWN-FINDING: property=%s %s %s" % (prop.id, fid, text))

        def diag(i, case=None, term=None):
            ex = prop.model_expr()
            if not ex:
                return None
            t = term if term is not None else terms[i]
            return coq_eval(prop.judge_module, t, ex, tmp)

        if viol_idx:
            i = viol_idx[0]
            small = shrink_case(prop, binary, cases[i], tmp, tier, codes[i], budget) if not replay else cases[i]
            so, st, sc = evaluate(prop, binary, [small], tmp, tier, tag="F")
            path = write_replay(prop, seed, i, small, so[0], "violation",
                                "implementation output contradicts the property's oracle on an in-domain case",
                                {"model_says": diag(i, term=st[0]), "all_violating_indices": viol_idx[:50]})
            violations.append((path, ""))
        elif drift_idx or proof_broken:
            # SEARCH: a focused, larger stream judged by the oracle
            found = None
            if judge_ok and not replay:
                for rnd in range(3 if tier == "quick" else 10):
                    rng2 = random.Random((seed + 1) * 1000003 + rnd)
                    more = prop.generate(rng2, prop.sizes[tier] * 3, tier)
                    try:
                        o2, t2, c2 = evaluate(prop, binary, more, tmp, tier, tag="X%d" % rnd)
                    except BuildError:
                        break
                    cov["evaluations"] += len(more)
                    bad = [j for j, c in enumerate(c2) if c == V_VIOLATION]
                    if bad:
                        j = bad[0]
                        small = shrink_case(prop, binary, more[j], tmp, tier, V_VIOLATION, budget)
                        so, st, sc = evaluate(prop, binary, [small], tmp, tier, tag="F")
                        found = write_replay(prop, seed, "search%d-%d" % (rnd, j), small, so[0], "violation",
                                             "found by the search that follows a broken proof or correspondence",
                                             {"model_says": coq_eval(prop.judge_module, st[0], prop.model_expr(), tmp) if prop.model_expr() else None})
                        break
                    if time.time() - t0 > (240 if tier == "quick" else 1800):
                        break
            if found:
                violations.append((found, ""))
            elif proof_broken:
                path = write_replay(prop, seed, "proof", None, None, "proof-obligation-broken",
                                    proof_broken[0], {"log": proof_broken[1],
                                                      "theorems": names, "searched_cases": cov["evaluations"]})
                violations.append((path, " no-failing-input-found"))
            else:
                i = drift_idx[0]
                small = shrink_case(prop, binary, cases[i], tmp, tier, V_DRIFT, budget) if not replay else cases[i]
                so, st, sc = evaluate(prop, binary, [small], tmp, tier, tag="F")
                path = write_replay(prop, seed, i, small, so[0], "correspondence-broken",
                                    "implementation and model %s disagree; the property's oracle still accepts the implementation's output on every case searched" % prop.judge_module,
                                    {"model_says": diag(i, term=st[0]), "drifting_indices": drift_idx[:50],
                                     "searched_cases": cov["evaluations"]})
                violations.append((path, " no-failing-input-found"))

        # ---- 3. property-specific observation streams (race detector, watchdogs, ...)
        if not replay:
            for v in prop.extra(binary, tmp, tier, rng, ev):
                path = write_replay(prop, seed, v.get("index", "extra"), v.get("case"), v.get("observation"),
                                    "violation", v.get("what", ""))
                violations.append((path, ""))
    except BuildError as e:
        log("CHECK ERROR:", e.what)
        log(e.logtext)
        ev["coverage"]["error"] = e.what
        rc = 2
    finally:
        shutil.rmtree(tmp, ignore_errors=True)
    ev["violations"] = len(violations)
    ev["wall_s"] = round(time.time() - t0, 2)
    cov.setdefault("evaluations", 0)
    cov.setdefault("distinct_nontrivial", 0)
    cov.setdefault("obligations", 1)
    cov.setdefault("discharged", 0)
    cov.setdefault("checker_cmd", "make")
    cov.setdefault("trusted_base", [])
    cov.setdefault("samples", [])
    cov.setdefault("rule", prop.rule)
    # experiments against a scratch worktree (PV_REPO) must not overwrite the evidence of /repo itself
    evdir = os.path.join(VERIF, "evidence") if REPO == "/repo" else tempfile.gettempdir()
    os.makedirs(evdir, exist_ok=True)
    with open(os.path.join(evdir, ("" if REPO == "/repo" else "pv_scratch_evidence_") + prop.id + ".json"), "w") as f:
        json.dump(ev, f, indent=1, default=str)
    for l in known_lines:
        print(l)
    for path, suffix in violations:
        print("VIOLATION property=%s replay=%s%s" % (prop.id, path, suffix))
    if violations:
        return 1
    if rc == 0:
        print("OK property=%s tier=%s cases=%d verdicts=%s obligations=%d/%d wall=%.1fs" % (
            prop.id, tier, cov.get("evaluations", 0), json.dumps(cov.get("verdicts", {})),
            cov.get("discharged", 0), cov.get("obligations", 0), ev["wall_s"]))
    return rc
