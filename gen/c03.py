# C03 — mixins bind arguments, attributes and block content per call.
import tgen
from core import CoreProp, ser, de
from c02 import has_kind

BODY_KINDS = {'text': 3, 'buf': 3, 'tag': 2, 'if': 1, 'each': 1}


class C03(CoreProp):
    id = "C03"
    prop_module = "Props.C03"
    prop_file = "Props/C03.v"
    coq_targets = ["Props/C03.vo", "Run/Judge_Core.vo", "Props/Tables.vo"]
    sizes = {"quick": 350, "thorough": 10000}
    shard = 24
    design_ref = "DESIGN.md section 6/C03"
    rule = ("1-4 mixin definitions (0-3 parameters; bodies printing parameters, page data, attributes.<name>, caller-local "
            "names (which must be invisible), placing `block` 0, 1 or 2 times, inside a loop of the body, and forwarding it to "
            "another mixin through that call's own block) and a main part calling them repeatedly: in each-loops with a block "
            "that reads the loop variable and caller locals that change between calls, nested calls inside blocks, bounded "
            "recursion driven by a counter argument with the block forwarded through every level, missing and surplus "
            "arguments, attributes on calls (also spread onto a tag with &attributes); rendered with two data values; "
            "non-trivial = at least one call with a non-empty block or at least two calls of one mixin; distinct by SHA-1")
    trusted = [
        "M = Pug/Compile.v (transform_mixin.go: define mixin_<n> prologue, __freeze + template call, block_<n>_<k> numbering), "
        "Tmpl/Exec.v (walkTemplate after repair 40255c5: latest binding of the block name made by a shallower frame, binding "
        "kept; callee frame = globals only; __freeze), Tmpl/Runtime.v (__op__map_params, __tryindex): hand-written model "
        "compared with the real engine on every case",
        "S = Spec/Sem.v: closure semantics (a call evaluates arguments and attributes in the caller's environment; the body "
        "sees page data, parameters, attributes and block = closure over the caller's environment and the caller's own block)",
    ]
    assumptions = [
        "blocks only read caller variables (in-place writes from block content go through a Go slice shared with the caller "
        "frame; not modelled, not generated)",
        "argument / attribute expressions are in the C01 core subset and domain; mixins are defined once, before use",
        "a loop variable is not read after its loop (the engine keeps the last element, pug scopes it to the loop: F-C02-f)",
    ]
    not_yet_proved = [
        "C03_program: exec (parse (compile p)) = Spec.Sem.sem_run p for all programs with mixins (closure semantics) as ONE "
        "theorem: proved are the frame discipline of the executor for every program (only the executing frame changes; a "
        "call leaves exactly the frames it found; bindings survive calls), what a mixin body sees, where a block runs, the "
        "lookup rules for repeated / nested / recursive calls, positional parameters; their composition with Pug/Compile.v "
        "(the __freeze / template lowering) and Spec/Sem.v rests on the correspondence run, judged against BOTH M and S",
    ]

    # ---------------------------------------------------------------- generation
    def mixin_body(self, g, rng, idx, params, ptypes, callable_, depth, genv):
        """body of mixin number idx; callable_: list of (name, nparams) it may call"""
        env = genv.copy()
        for p, t in zip(params, ptypes):
            env.types[p] = t
        out = []
        n = rng.choice([1, 2, 3, 4])
        uses_block = 0
        for _ in range(n):
            k = rng.random()
            if k < 0.22 and params:
                out.append(('code', [('expr', ('id', rng.choice(params)))], True, True))
            elif k < 0.32:
                out.append(('code', [('expr', ('dot', ('id', b"attributes"), rng.choice([b"title", b"id", b"k"])))], True, True))
            elif k < 0.40:
                # a caller-local name: must not be visible inside the mixin
                out.append(('text', b"["))
                out.append(('code', [('expr', ('id', rng.choice([b"v1", b"v2", b"cv9"])))], True, True))
                out.append(('text', b"]"))
            elif k < 0.58:
                out.append(('mixinblock',))
                uses_block += 1
            elif k < 0.66:
                out.append(('each', g.fresh(b"j"), None, ('arr', [('num', 1), ('num', 2)][:rng.choice([1, 2])]),
                            [('text', b"<"), ('mixinblock',), ('text', b">")]))
                uses_block += 1
            elif k < 0.74:
                out.append(('tag', rng.choice(tgen.TAGS), rng.random() < 0.5, [], [b"attributes"] if rng.random() < 0.4 else [],
                            [('mixinblock',)] if rng.random() < 0.5 else [('text', b"t")]))
            elif k < 0.86 and callable_ and depth > 0:
                cn, cp = rng.choice(callable_)
                args = [('id', rng.choice(params)) if params and rng.random() < 0.6 else g.lit(rng.choice(['num', 'str']))
                        for _ in range(rng.choice([cp, cp, max(0, cp - 1), cp + 1]))]
                # forward our own block through the inner call's block, or give it a fresh one, or none
                kk = rng.random()
                if kk < 0.45:
                    blk = [('text', b"{"), ('mixinblock',), ('text', b"}")]
                elif kk < 0.7:
                    blk = [('text', b"in:"), ('code', [('expr', ('id', rng.choice(params)))], True, True)] if params else [('text', b"in")]
                else:
                    blk = []
                out.append(('call', cn, args, [], blk))
            elif k < 0.93 and params and ptypes[0] == 'num':
                out.append(('cond', ('bin', '>', ('id', params[0]), ('num', 1)), [('text', b"big")], ('block', [('text', b"small")])))
            else:
                out.extend(g.nodes(env, 1, 1, BODY_KINDS))
        return out

    def generate(self, rng, n, tier):
        cases = []
        for i in range(n):
            g = tgen.TGen(rng, offdomain=0.0, max_depth=2)
            data, genv = g.data()
            nodes = []
            mixins = []          # (name, params, ptypes)
            for mi in range(rng.choice([1, 2, 2, 3, 4])):
                name = b"m%d" % (mi + 1)
                np_ = rng.choice([0, 1, 1, 2, 2, 3])
                params = [b"p%d" % (j + 1) for j in range(np_)]
                ptypes = [rng.choice(['num', 'str']) for _ in params]
                body = self.mixin_body(g, rng, mi, params, ptypes, [(m[0], len(m[1])) for m in mixins], 2, genv)
                nodes.append(('mixin', name, params, body))
                mixins.append((name, params, ptypes))
            if rng.random() < 0.25:
                # bounded recursion with the block forwarded through every level
                nodes.append(('mixin', b"rec", [b"n"],
                              [('code', [('expr', ('id', b"n"))], True, True),
                               ('cond', ('bin', '>', ('id', b"n"), ('num', 0)),
                                [('call', b"rec", [('bin', '-', ('id', b"n"), ('num', 1))], [],
                                  [('text', b"("), ('mixinblock',), ('text', b")")] if rng.random() < 0.7 else [])],
                                ('block', [('mixinblock',)]))]))
                mixins.append((b"rec", [b"n"], ['num']))
            env = genv.copy()
            # caller locals
            nodes.append(('code', [('vars', [('var', b"v1", g.lit('str'))])], False, False))
            env.types[b"v1"] = 'str'
            if rng.random() < 0.6:
                nodes.append(('code', [('vars', [('var', b"v2", ('bin', '+', ('id', b"n"), ('num', 1)))])], False, False))
                env.types[b"v2"] = 'num'

            def call(env, depth):
                name, params, ptypes = rng.choice(mixins)
                if name == b"rec":
                    args = [('num', rng.choice([0, 1, 2, 3]))]
                else:
                    k = rng.choice([len(params), len(params), len(params), max(0, len(params) - 1), len(params) + 1])
                    args = []
                    for j in range(k):
                        t = ptypes[j] if j < len(ptypes) else 'str'
                        args.append(g.expr(env, t, rng.choice([0, 0, 1, 2])))
                attrs = []
                if rng.random() < 0.4:
                    for an in rng.sample([b"title", b"id", b"k", b"class"], rng.choice([1, 2])):
                        attrs.append((an, g.expr(env, 'str', rng.choice([0, 1])), True))
                kk = rng.random()
                blk = []
                own = None
                if kk < 0.65 and rng.random() < 0.3:
                    # the block content declares a variable of its own and prints it after whatever it calls
                    own = g.fresh(b"bz")
                    blk.append(('code', [('vars', [('var', own, g.lit(rng.choice(['num', 'str'])))])], False, False))
                if kk < 0.65:
                    for _ in range(rng.choice([1, 2, 3])):
                        r = rng.random()
                        if r < 0.45:
                            loc = [x for x in env.types if x.startswith((b"v", b"it", b"ix")) and env.types[x] in ('num', 'str', 'bool')]
                            blk.append(('code', [('expr', ('id', rng.choice(loc)) if loc else g.any_scalar(env, 1))], True, True))
                        elif r < 0.65:
                            blk.append(('text', rng.choice([b"B", b"x y", b"-"])))
                        elif r < 0.8 and depth > 0:
                            blk.append(call(env, depth - 1))
                        else:
                            blk.extend(g.nodes(env, 1, 1, BODY_KINDS))
                if own is not None:
                    blk.append(('text', b"~"))
                    blk.append(('code', [('expr', ('id', own))], True, True))
                return ('call', name, args, attrs, blk)

            for _ in range(rng.choice([1, 2, 3, 4])):
                k = rng.random()
                if k < 0.35:
                    nodes.append(call(env, 2))
                elif k < 0.6:
                    # calls in a loop; the block reads the loop variable
                    it = g.fresh(b"it")
                    inner = env.copy()
                    coll = rng.choice([('id', b"xs"), ('id', b"ws"), ('arr', [('num', 1), ('num', 2), ('num', 3)])])
                    inner.types[it] = 'str' if coll == ('id', b"ws") else 'num'
                    nodes.append(('each', it, None, coll, [call(inner, 1)] + ([call(inner, 1)] if rng.random() < 0.3 else [])))
                elif k < 0.75:
                    # the same call site semantics with a caller local changed between calls
                    nodes.append(call(env, 1))
                    nodes.append(('code', [('expr', ('assign', ('id', b"v1"), g.lit('str')))], False, False))
                    nodes.append(call(env, 1))
                elif k < 0.85:
                    nodes.append(('cond', g.test_expr(env), [call(env, 1)], ('block', [call(env, 1)]) if rng.random() < 0.5 else None))
                else:
                    nodes.extend(g.nodes(env, 1, 1, BODY_KINDS))
            d2, _ = g.data()
            d2 = {k: d2.get(k, v) for k, v in data.items()}
            cases.append({"nodes": ser(nodes), "datas": [ser(data), ser(d2)]})
        return cases

    def nontrivial(self, case, obs):
        nodes = de(case["nodes"])
        calls = []

        def walk(ns):
            for n in ns:
                if not isinstance(n, tuple):
                    continue
                if n[0] == 'call' and len(n) == 5:
                    calls.append(n)
                for x in n[1:]:
                    if isinstance(x, list):
                        walk([y for y in x if isinstance(y, tuple)])
                    elif isinstance(x, tuple) and x and x[0] in ('block', 'cond'):
                        walk([x])
        walk(nodes)
        names = [c[1] for c in calls]
        return any(c[4] for c in calls) or len(names) != len(set(names))


PROP = C03()
