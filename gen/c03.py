# C03 — mixins bind arguments, attributes and block content per call.
import json
import tgen
import tmpl
from common import cq_list, cq_bytes, cq_opt, hx, unhx
from core import CoreProp, ser, de, obsm_coq, FUNCS
from c02 import has_kind

BODY_KINDS = {'text': 3, 'buf': 3, 'tag': 2, 'if': 1, 'each': 1}


class C03(CoreProp):
    id = "C03"
    prop_module = "Props.C03"
    prop_file = "Props/C03.v"
    engine = "C03"               # harness/c03.go: the TC runner with a small stack limit
    coq_targets = ["Props/C03.vo", "Run/Judge_Core.vo", "Props/Tables.vo"]
    sizes = {"quick": 520, "thorough": 3000}
    shard = 24
    design_ref = "DESIGN.md section 6/C03"
    rule = ("five streams.  GENERAL (30 %): 1-4 mixin definitions (0-3 parameters; bodies printing parameters, page data, "
            "attributes.<name>, caller-local names (which must be invisible), placing `block` 0, 1 or 2 times, inside a loop of "
            "the body, and forwarding it to another mixin through that call's own block - alone or among other nodes) and a main "
            "part calling them repeatedly: in each-loops with a block that reads the loop variable and caller locals that change "
            "between calls, nested calls inside blocks, bounded recursion driven by a counter argument with the block forwarded "
            "through every level, missing and surplus arguments, attributes on calls (also spread onto a tag with &attributes).  "
            "SHAPES (22 %): call-site shapes inside a recursive mixin (recursion direct or through a trampoline mixin, depth 1-4 "
            "or data driven): its body holds IN RANDOM ORDER a guarded recursive call whose block content reads the mixin's own "
            "parameters / a body-local variable (alone, next to `block`, inside a further call, only `block`, or empty), one or two "
            "forwarding calls to box mixins (block content only `block`; `block` among other nodes; forwarding again inside the "
            "forwarded block, i.e. pure forwarding at every level; boxes that forward to other boxes), direct placements of "
            "`block`, prints, and calls without block content of a probe mixin that tests `block`; called from the main part "
            "with blocks reading caller locals / loop variables, with calls of the same recursive mixin inside the block, "
            "without block, and in loops.  ATTRSTATE (15 %): 1-3 mixins whose bodies ASSIGN into their attributes object "
            "(`- attributes.k = e`: always, depending on an argument, depending on page data) and read it back before and "
            "after (attributes.k printed / tested, &attributes(attributes) on a tag), nested calls made after storing, and mixins "
            "that only read; the main part calls them 2-7 times in one render with and without attributes, with different, "
            "falsy and missing arguments, in loops and branches; the second data value of the case flips the page data the "
            "bodies depend on; every data value is rendered twice on the same engine.  PAGEDATA (19 %): caller locals that HAVE THE NAME OF A PAGE-DATA KEY: the page assigns to keys "
            "of its data (`- s = \"Local\"`, `- s = s || \"Default\"`, `- n = n + 1`, `- p = !p`, `- var s = ...`) as its very "
            "first statement, after 0-3 `- var` declarations, inside and after page-level each-loops and branches (all of which "
            "grow the page's variable stack), prints them, passes them as arguments and in block content, and calls 1-3 reader "
            "mixins (also nested, from block content, in loops) whose bodies print / test those keys and must show the PAGE DATA; "
            "block content passed by the page also WRITES a key (`- t = \"bob\"` as the block's first statement; that key is "
            "then read by mixin bodies and by that block only); readers with a parameter named like a key; a mixin that assigns "
            "a key itself and then calls a reader.  LITARGS (14 %): calls written with LITERALS ONLY (`+la1([\"a\", \"b\"], \"x\")`, "
            "`+la2({k: \"a\", n: 1}, \"y\")(id=\"lit\")`, array and object literals among the arguments, literal attributes, with and "
            "without block content, surplus arguments) of 1-3 mixins whose bodies CHANGE what they were given (`- var u = l.push(x)`, "
            "l.pop(), `- l.k = l.k + x`, `- l.z = x`, `- l.n = l.n + 1`, `- attributes.title = x`: always, depending on an argument, "
            "depending on page data) and read it before and after (each over l, l.join, l.length, l.k, attributes.k printed / "
            "tested); the SAME call site is executed repeatedly: in each-loops over literals and page data (0-5 rounds), in the "
            "body of a wrapper mixin that is called 2-3 times or in a loop, at every level of a recursive mixin (depth 1-3), as a "
            "nested call of a mutating body, next to calls of the same mixins whose second argument is a loop variable or page "
            "data; and every data value is rendered TWICE ON THE SAME ENGINE (harness c03RunAgain: results d1, d1', d2, d2', each "
            "judged as a render of its own), so every call site of the compiled template runs again in a later render: each "
            "execution must get fresh argument and attributes objects.  SIBLINGS: 30 % of the cases of EVERY stream are not loaded alone: 1-3 other "
            "page files are written next to the page under test (60 % in its directory, else in a directory below / above / "
            "elsewhere; the page itself in template/page, in sec/ or in sec/deep/) that define mixins OF THE SAME NAMES with "
            "other bodies, parameter lists and block use (the page's own definitions twisted: bodies rotated among the names, "
            "parameters reversed / extended, `block` dropped or added; or an independently generated page of the same stream, "
            "whose mixins are named alike; or of another stream; some cut down to definitions only); one full load "
            "compiles them all, in TWO directory layouts (the page's entry listed before / after every sibling's entry by the "
            "Readdir(-1) call of compileDir - entries are renamed until the read-back listing says so), and the page is rendered "
            "with every data value in both: each result is judged as the page loaded alone (S and M know no siblings).  "
            "EVERY case is rendered with two data values, one after the other on fresh engines in ONE "
            "harness process of its own (so state kept at package level survives from the first render into the second, and "
            "a failing case is a complete replay); the ATTRSTATE and LITARGS cases without siblings render each data value twice "
            "on its engine (state kept in the engine or keyed by the parsed template survives too); a process that exceeds 12 s / 3 GB / 64 MB of stack is class 'crash'.  "
            "non-trivial = at least one call with a non-empty block or at least two calls of one mixin; distinct by SHA-1; "
            "coverage.distribution.sibling_cases counts the sibling cases and the listing orders realised")
    trusted = [
        "M = Pug/Compile.v (transform_mixin.go: define mixin_<n> prologue, __freeze + template call for EVERY call with block "
        "content, block_<n>_<k> numbering), Tmpl/Exec.v (walkTemplate after repair 40255c5: latest binding of the block name "
        "made by a shallower frame, binding kept; callee frame = the frame's globals only, which no statement changes; "
        "__freeze), Tmpl/Runtime.v (__op__map_params "
        "allocating a new Map per call, Map.__assign, Keys memoisation, __tryindex), Models/PageDir.v (Engine.compileDir: one "
        "compiler state per FILE; the per-directory variant refuted): hand-written model compared with the real "
        "engine on every case",
        "S = Spec/Sem.v: closure semantics (a call evaluates arguments and attributes in the caller's environment; the body "
        "sees page data, parameters, a freshly allocated attributes object and block = closure over the caller's environment "
        "and the caller's own block; `- attributes.k = e` updates that object only; a page-level assignment to a name that "
        "is a data key changes the caller's environment, never what bodies see); S is given the page under test alone - "
        "sibling files have no meaning in it",
        "each case runs in its own harness process (gen/c03.py run): state surviving between CASES is not explored, state "
        "surviving between the two renders, the two directory layouts, the repeated render on one engine (streams attrstate, "
        "litargs) and the many executions of one call site within a render is",
        "the directory listing order is the file system's: harness/c03.go renames sibling entries until Readdir(-1) lists the "
        "page before / after them and reports whether it managed (distribution.sibling_cases.both_listing_orders_realised)",
    ]
    assumptions = [
        "block content writes a caller variable only as its own first statement, with a value that does not read that name, "
        "and the page does not read or write that name outside such blocks (the write goes through a Go slice shared with "
        "the caller frame and is visible to the caller afterwards - as in pug; S and M run block content on a copy of the "
        "caller's variables, so they agree with the engine on everything but a later read by the caller, which is not "
        "generated); what mixin bodies see after such a write IS generated and judged",
        "argument / attribute expressions are in the C01 core subset and domain; mixins are defined once per file, before use; "
        "a page calls only mixins it defines itself (what a call of an undefined mixin does is not part of the property)",
        "a loop variable is not read after its loop (the engine keeps the last element, pug scopes it to the loop: F-C02-f)",
        "`block` as a VALUE is only tested in mixins that are never given block content (S has no value for a given block: "
        "pug's is a function, the engine's a block name; both are truthy)",
        "bodies that spread `attributes` assign only names that sort after every name given at a call site, in sorted order "
        "(S keeps insertion order, Map.Keys sorts an unordered map on first use: the same sequence under this restriction); "
        "bodies that read by name assign any name; `attributes` is not iterated with each (objects grown by assignment: "
        "finding class fl_obj_grown of C02)",
        "the renders of a case (also the two on one engine) are sequential; concurrent renders sharing state are C08/C14's subject",
        "LITARGS: arrays are changed with push / pop inside a `- var u = ...` declaration (the value of a bare expression "
        "statement is printed by the engine: C01/C20's subject; S flags every push - the flag only matters where the engine "
        "departs from S, and there the case is a violation unless M departs the same way), objects by assignment to existing "
        "and new keys that are read by name only (never iterated); a caller's variable holding an array is not passed to a "
        "mutating body (sharing between caller and callee is JavaScript's reference semantics, C07's subject)",
        "sibling files load when they are alone (the harness checks each and leaves out one that does not: a file that "
        "cannot be compiled makes the whole load fail, for every page - C13/C17's subject); siblings are never rendered",
    ]
    not_yet_proved = [
        "C03_program: exec (parse (compile p)) = Spec.Sem.sem_run p for all programs with mixins (closure semantics) as ONE "
        "theorem: proved are the frame discipline of the executor for every program (only the executing frame changes; a "
        "call leaves exactly the frames it found; bindings survive calls; the page data of a frame is constant, whatever it "
        "assigns), what a mixin body sees - also after any statements of the caller -, where a block runs, the "
        "lookup rules for repeated / nested / recursive calls, positional parameters, freshness of the attributes object of "
        "every call (M's heap; that literal ARGUMENT arrays / objects are fresh at every execution of a call site is M's and "
        "S's evaluation of the literal at each call, compared with the engine by the litargs stream, not a theorem of its own), that a pure-forwarding call site is lowered with a wrapper block of its own, and that the "
        "template a page compiles to does not depend on the other files of the load nor on their order; their "
        "composition with the rest of Pug/Compile.v (the __freeze / template lowering of arbitrary block content) and "
        "Spec/Sem.v rests on the correspondence run, judged against BOTH M and S",
    ]

    # ---------------------------------------------------------------- generation
    def mixin_body(self, g, rng, idx, params, ptypes, callable_, depth, genv):
        """body of mixin number idx; callable_: list of (name, nparams, parameter types) it may call"""
        env = genv.copy()
        for p, t in zip(params, ptypes):
            env.types[p] = t
        out = []
        n = rng.choice([1, 2, 3, 4])
        uses_block = 0
        for _ in range(n):
            k = rng.random()
            if k < 0.22 and params:
                out.append(('code', [('expr', ('id', rng.choice(params)))], True, True))
            elif k < 0.32:
                out.append(('code', [('expr', ('dot', ('id', b"attributes"), rng.choice([b"title", b"id", b"k"])))], True, True))
            elif k < 0.40:
                # a caller-local name: must not be visible inside the mixin
                out.append(('text', b"["))
                out.append(('code', [('expr', ('id', rng.choice([b"v1", b"v2", b"cv9"])))], True, True))
                out.append(('text', b"]"))
            elif k < 0.58:
                out.append(('mixinblock',))
                uses_block += 1
            elif k < 0.66:
                out.append(('each', g.fresh(b"j"), None, ('arr', [('num', 1), ('num', 2)][:rng.choice([1, 2])]),
                            [('text', b"<"), ('mixinblock',), ('text', b">")]))
                uses_block += 1
            elif k < 0.74:
                out.append(('tag', rng.choice(tgen.TAGS), rng.random() < 0.5, [], [b"attributes"] if rng.random() < 0.4 else [],
                            [('mixinblock',)] if rng.random() < 0.5 else [('text', b"t")]))
            elif k < 0.86 and callable_ and depth > 0:
                cn, cp, ct = rng.choice(callable_)
                args = []
                for j in range(rng.choice([cp, cp, max(0, cp - 1), cp + 1])):
                    # an argument of the type the callee's body uses the parameter at (a number passed where the body
                    # concatenates strings is C01's finding class, not this property's subject)
                    want = ct[j] if j < len(ct) else rng.choice(['num', 'str'])
                    same = [p_ for p_, t_ in zip(params, ptypes) if t_ == want]
                    args.append(('id', rng.choice(same)) if same and rng.random() < 0.6 else g.lit(want))
                # forward our own block through the inner call's block, or give it a fresh one, or none
                kk = rng.random()
                if kk < 0.2:
                    blk = [('mixinblock',)]            # nothing but the own block
                elif kk < 0.45:
                    blk = [('text', b"{"), ('mixinblock',), ('text', b"}")]
                elif kk < 0.7:
                    blk = [('text', b"in:"), ('code', [('expr', ('id', rng.choice(params)))], True, True)] if params else [('text', b"in")]
                else:
                    blk = []
                out.append(('call', cn, args, [], blk))
            elif k < 0.93 and params and ptypes[0] == 'num':
                out.append(('cond', ('bin', '>', ('id', params[0]), ('num', 1)), [('text', b"big")], ('block', [('text', b"small")])))
            else:
                out.extend(g.nodes(env, 1, 1, BODY_KINDS))
        return out

    # four streams (shares of the run); on top of them, SIBLING_SHARE of the cases of every stream get sibling files
    STREAMS = (("general", 0.30), ("shapes", 0.22), ("attrstate", 0.15), ("pagedata", 0.19), ("litargs", 0.14))
    SIBLING_SHARE = 0.3
    only_stream = None

    def generate(self, rng, n, tier):
        cases = []
        for i in range(n):
            k = rng.random()
            stream = "general"
            acc = 0.0
            for name, share in self.STREAMS:
                acc += share
                if k < acc:
                    stream = name
                    break
            if self.only_stream:
                stream = self.only_stream
            case = self.gen_stream(rng, stream)
            if rng.random() < self.SIBLING_SHARE:
                case = self.add_siblings(case, rng)
            cases.append(case)
        return cases

    def gen_stream(self, rng, stream):
        if stream == "shapes":
            return self.gen_shapes(rng)
        if stream == "attrstate":
            return self.gen_attrstate(rng)
        if stream == "pagedata":
            return self.gen_pagedata(rng)
        if stream == "litargs":
            return self.gen_litargs(rng)
        return self.gen_general(rng)

    # ---------------------------------------------------------------- stream "general"
    def gen_general(self, rng):
        g = tgen.TGen(rng, offdomain=0.0, max_depth=2)
        data, genv = g.data()
        nodes = []
        mixins = []          # (name, params, ptypes)
        for mi in range(rng.choice([1, 2, 2, 3, 4])):
            name = b"m%d" % (mi + 1)
            np_ = rng.choice([0, 1, 1, 2, 2, 3])
            params = [b"p%d" % (j + 1) for j in range(np_)]
            ptypes = [rng.choice(['num', 'str']) for _ in params]
            body = self.mixin_body(g, rng, mi, params, ptypes, [(m[0], len(m[1]), m[2]) for m in mixins], 2, genv)
            nodes.append(('mixin', name, params, body))
            mixins.append((name, params, ptypes))
        if rng.random() < 0.25:
            # bounded recursion with the block forwarded through every level
            nodes.append(('mixin', b"rec", [b"n"],
                          [('code', [('expr', ('id', b"n"))], True, True),
                           ('cond', ('bin', '>', ('id', b"n"), ('num', 0)),
                            [('call', b"rec", [('bin', '-', ('id', b"n"), ('num', 1))], [],
                              [('text', b"("), ('mixinblock',), ('text', b")")] if rng.random() < 0.7 else [])],
                            ('block', [('mixinblock',)]))]))
            mixins.append((b"rec", [b"n"], ['num']))
        env = genv.copy()
        # caller locals
        nodes.append(('code', [('vars', [('var', b"v1", g.lit('str'))])], False, False))
        env.types[b"v1"] = 'str'
        if rng.random() < 0.6:
            nodes.append(('code', [('vars', [('var', b"v2", ('bin', '+', ('id', b"n"), ('num', 1)))])], False, False))
            env.types[b"v2"] = 'num'

        def call(env, depth):
            name, params, ptypes = rng.choice(mixins)
            if name == b"rec":
                args = [('num', rng.choice([0, 1, 2, 3]))]
            else:
                k = rng.choice([len(params), len(params), len(params), max(0, len(params) - 1), len(params) + 1])
                args = []
                for j in range(k):
                    t = ptypes[j] if j < len(ptypes) else 'str'
                    args.append(g.expr(env, t, rng.choice([0, 0, 1, 2])))
            attrs = []
            if rng.random() < 0.4:
                for an in rng.sample([b"title", b"id", b"k", b"class"], rng.choice([1, 2])):
                    attrs.append((an, g.expr(env, 'str', rng.choice([0, 1])), True))
            kk = rng.random()
            blk = []
            own = None
            if kk < 0.65 and rng.random() < 0.3:
                # the block content declares a variable of its own and prints it after whatever it calls
                own = g.fresh(b"bz")
                blk.append(('code', [('vars', [('var', own, g.lit(rng.choice(['num', 'str'])))])], False, False))
            if kk < 0.65:
                for _ in range(rng.choice([1, 2, 3])):
                    r = rng.random()
                    if r < 0.45:
                        loc = [x for x in env.types if x.startswith((b"v", b"it", b"ix")) and env.types[x] in ('num', 'str', 'bool')]
                        blk.append(('code', [('expr', ('id', rng.choice(loc)) if loc else g.any_scalar(env, 1))], True, True))
                    elif r < 0.65:
                        blk.append(('text', rng.choice([b"B", b"x y", b"-"])))
                    elif r < 0.8 and depth > 0:
                        blk.append(call(env, depth - 1))
                    else:
                        blk.extend(g.nodes(env, 1, 1, BODY_KINDS))
            if own is not None:
                blk.append(('text', b"~"))
                blk.append(('code', [('expr', ('id', own))], True, True))
            return ('call', name, args, attrs, blk)

        for _ in range(rng.choice([1, 2, 3, 4])):
            k = rng.random()
            if k < 0.35:
                nodes.append(call(env, 2))
            elif k < 0.6:
                # calls in a loop; the block reads the loop variable
                it = g.fresh(b"it")
                inner = env.copy()
                coll = rng.choice([('id', b"xs"), ('id', b"ws"), ('arr', [('num', 1), ('num', 2), ('num', 3)])])
                inner.types[it] = 'str' if coll == ('id', b"ws") else 'num'
                nodes.append(('each', it, None, coll, [call(inner, 1)] + ([call(inner, 1)] if rng.random() < 0.3 else [])))
            elif k < 0.75:
                # the same call site semantics with a caller local changed between calls
                nodes.append(call(env, 1))
                nodes.append(('code', [('expr', ('assign', ('id', b"v1"), g.lit('str')))], False, False))
                nodes.append(call(env, 1))
            elif k < 0.85:
                nodes.append(('cond', g.test_expr(env), [call(env, 1)], ('block', [call(env, 1)]) if rng.random() < 0.5 else None))
            else:
                nodes.extend(g.nodes(env, 1, 1, BODY_KINDS))
        d2, _ = g.data()
        d2 = {k: d2.get(k, v) for k, v in data.items()}
        return {"nodes": ser(nodes), "datas": [ser(data), ser(d2)], "stream": "general"}

    # ---------------------------------------------------------------- stream "shapes"
    # Call-site shapes inside recursive mixins.  The lowering gives every call site ONE block name and the
    # executor resolves a placed block by name, so what a call shows depends on which other call sites of the
    # same frame have already bound their block: a recursive mixin (direct, or through a trampoline mixin) whose
    # body holds, in random order, a recursive call with block content that reads the mixin's own parameters /
    # variables, forwarding calls to other mixins (block content = nothing but `block`, or `block` among other
    # nodes, also forwarding again inside the forwarded block), direct placements of `block`, and prints.
    def gen_shapes(self, rng):
        g = tgen.TGen(rng, offdomain=0.0, max_depth=1)
        data, genv = g.data()
        P = lambda e, esc=True: ('code', [('expr', e)], esc, True)
        T = lambda s: ('text', s)
        BLK = ('mixinblock',)
        nodes = []
        # --- box mixins: they place the block they are given (once or twice), some print a parameter around it
        boxes = []
        for bi in range(rng.choice([1, 2, 2, 3])):
            name = b"bx%d" % (bi + 1)
            params = [b"t"] if rng.random() < 0.4 else []
            k = rng.random()
            if k < 0.45:
                body = [('tag', rng.choice(tgen.TAGS), rng.random() < 0.5, [], [], [BLK])]
            elif k < 0.65:
                body = [T(b"["), BLK, T(b"]")]
            elif k < 0.8:
                body = [BLK, T(b"|"), BLK]
            else:
                body = [BLK]
            if params:
                body.insert(rng.choice([0, len(body)]), P(('id', b"t")))
            if boxes and rng.random() < 0.35:
                # a box that forwards on to an earlier box
                inner = rng.choice(boxes)
                fb = [BLK] if rng.random() < 0.6 else [T(b"<"), BLK, T(b">")]
                body = [('call', inner[0], [g.lit('str')] if inner[1] else [], [], fb)] + ([T(b".")] if rng.random() < 0.5 else [])
                if params:
                    body.append(P(('id', b"t")))
            nodes.append(('mixin', name, params, body))
            boxes.append((name, params))
        # --- probe: tells whether it was given a block; only ever called without block content
        probe = rng.random() < 0.35
        if probe:
            nodes.append(('mixin', b"pb", [b"a"],
                          [('cond', ('id', b"block"), [T(b"B+"), BLK], ('block', [T(b"B-"), P(('id', b"a"))])), BLK]))

        def box_call(blk, argsrc):
            bn, bp = rng.choice(boxes)
            return ('call', bn, [argsrc()] if bp else [], [], blk)

        # --- the recursive mixin
        rparams = [b"n"] + ([b"a"] if rng.random() < 0.6 else [])
        own = [('id', b"n")] + ([('id', b"a")] if len(rparams) > 1 else [])
        body_head = []
        if rng.random() < 0.4:
            body_head.append(('code', [('vars', [('var', b"w", ('bin', rng.choice(['*', '+']), ('id', b"n"), ('num', rng.choice([2, 10]))))])], False, False))
            own.append(('id', b"w"))
        rd = lambda: rng.choice(own)
        via = rng.random() < 0.3            # recursion through a trampoline mixin

        def reads(k):
            out = []
            for _ in range(k):
                if rng.random() < 0.5:
                    out.append(('tag', rng.choice([b"b", b"i", b"em"]), True, [], [], [P(rd())]))
                else:
                    out.append(P(rd()))
            return out

        def rec_block():
            """block content of the recursive call"""
            k = rng.random()
            if k < 0.40:
                return reads(rng.choice([1, 1, 2]))
            if k < 0.55:
                b = reads(1) + [BLK]
                rng.shuffle(b)
                return b
            if k < 0.67:
                return [BLK]
            if k < 0.82:
                # the block content itself calls a mixin
                inner = rng.choice([reads(1), [BLK], reads(1) + [BLK]])
                return [box_call(inner, rd)] + (reads(1) if rng.random() < 0.5 else [])
            if k < 0.9:
                return [T(b"("), BLK, T(b")")]
            return []

        def forward_block():
            """block content of a forwarding call"""
            k = rng.random()
            if k < 0.5:
                return [BLK]
            if k < 0.65:
                return [box_call([BLK], rd)]            # pure forwarding at two levels
            if k < 0.8:
                b = [BLK] + reads(1)
                rng.shuffle(b)
                return b
            if k < 0.9:
                return [T(b"{"), BLK, T(b"}")]
            return reads(1)

        def rec_call():
            nxt = ('bin', '-', ('id', b"n"), ('num', 1))
            args = [nxt]
            if len(rparams) > 1:
                args.append(rng.choice([('id', b"a"), ('bin', '+', ('id', b"a"), ('str', b"'")), ('id', b"a"), g.lit('str')]))   # `a` stays a string
            elif rng.random() < 0.15:
                args.append(g.lit('str'))           # surplus argument
            attrs = [(b"k", rd(), True)] if rng.random() < 0.2 else []
            c = ('call', b"tr" if via else b"rc", args, attrs, rec_block())
            alt = None
            if rng.random() < 0.25:
                alt = ('block', [rng.choice([BLK, T(b"end"), box_call([BLK], rd)])])
            return ('cond', ('bin', '>', ('id', b"n"), ('num', 0)), [c], alt)

        elems = [rec_call()]
        if rng.random() < 0.15:
            elems.append(rec_call())
        # the output grows like fan^depth: two recursive calls, or boxes that place their block twice, get depth <= 2
        wide = len(elems) > 1 or any(n[0] == 'mixin' and n[3].count(BLK) > 1 for n in nodes)
        depths = [1, 1, 2, 2] if wide else [1, 2, 2, 3, 3, 4]
        for _ in range(rng.choice([1, 1, 1, 2])):
            elems.append(box_call(forward_block(), rd))
        for _ in range(rng.choice([0, 1, 1, 2])):
            k = rng.random()
            if k < 0.4:
                elems.append(('tag', rng.choice([b"i", b"u", b"s"]), True, [], [], [P(rd())]))
            elif k < 0.7:
                elems.append(BLK)
            elif k < 0.85:
                elems.append(P(('dot', ('id', b"attributes"), b"k")))
            elif probe:
                elems.append(('call', b"pb", [rd()], [], []))
            else:
                elems.append(T(b";"))
        rng.shuffle(elems)
        nodes.append(('mixin', b"rc", rparams, body_head + elems))
        if via:
            tparams = [b"x"] + ([b"y"] if len(rparams) > 1 else [])
            targs = [('id', p) for p in tparams]
            fb = rng.choice([[BLK], [BLK], [T(b"/"), BLK], [BLK, P(('id', b"x"))]])
            tbody = [('call', b"rc", targs, [], fb)]
            if rng.random() < 0.4:
                tbody.insert(rng.choice([0, 1]), box_call([BLK], lambda: ('id', b"x")))
            nodes.append(('mixin', b"tr", tparams, tbody))
        # --- main part
        env = genv.copy()
        nodes.append(('code', [('vars', [('var', b"v1", g.lit('str'))])], False, False))
        env.types[b"v1"] = 'str'

        def top_call(env, depth):
            args = [('num', min(rng.choice(depths), 2 + 2 * depth))]       # a call inside a block: depth <= 2
            if rng.random() < 0.12 and not wide and depth > 0:
                args = [('dot', ('id', b"xs"), b"length")]               # data driven: 0..5 levels
            if len(rparams) > 1 and rng.random() < 0.85:
                args.append(g.expr(env, 'str', rng.choice([0, 0, 1])))
            k = rng.random()
            if k < 0.5:
                loc = [x for x in env.types if x.startswith((b"v", b"it")) and env.types[x] in ('num', 'str')]
                blk = [rng.choice([T(b"top"), P(('id', rng.choice(loc))), ('tag', b"q", True, [], [], [P(('id', rng.choice(loc)))])])]
            elif k < 0.65 and depth > 0:
                blk = [top_call(env, depth - 1)]
            elif k < 0.8:
                blk = [box_call([T(b"T")], lambda: g.lit('str'))]
            else:
                blk = []
            attrs = [(b"k", g.expr(env, 'str', 0), True)] if rng.random() < 0.25 else []
            return ('call', b"rc", args, attrs, blk)

        for _ in range(rng.choice([1, 1, 2, 3])):
            k = rng.random()
            if k < 0.6:
                nodes.append(top_call(env, 1))
            elif k < 0.8:
                it = g.fresh(b"it")
                inner = env.copy()
                inner.types[it] = 'num'
                nodes.append(('each', it, None, rng.choice([('id', b"xs"), ('arr', [('num', 1), ('num', 2)])]), [top_call(inner, 0)]))
            elif k < 0.9:
                nodes.append(('code', [('expr', ('assign', ('id', b"v1"), g.lit('str')))], False, False))
                nodes.append(top_call(env, 0))
            elif probe:
                nodes.append(('call', b"pb", [g.lit('str')], [], []))
            else:
                nodes.append(box_call([T(b"plain"), P(('id', b"v1"))], lambda: g.lit('str')))
        d2, _ = g.data()
        d2 = {k: d2.get(k, v) for k, v in data.items()}
        return {"nodes": ser(nodes), "datas": [ser(data), ser(d2)], "stream": "shapes"}

    # ---------------------------------------------------------------- stream "attrstate"
    # The attributes object of a call is that call's own: mixin bodies ASSIGN into it (`- attributes.k = e`,
    # unconditionally or depending on a parameter / on page data) and read it back (attributes.k, &attributes on a
    # tag) before and after; the main part calls these mixins several times in one render, with and without
    # attributes and with different arguments, next to mixins that only read.  Nothing a body stored may show in
    # another call, in a nested call, or in the second render of the case (same process).
    def gen_attrstate(self, rng):
        g = tgen.TGen(rng, offdomain=0.0, max_depth=1)
        data, genv = g.data()
        P = lambda e, esc=True: ('code', [('expr', e)], esc, True)
        T = lambda s: ('text', s)
        AT = lambda k: ('dot', ('id', b"attributes"), k)
        CALLKEYS = [b"id", b"k"]                 # names given at call sites
        SETKEYS = [b"title", b"type"]            # names assigned by bodies that also spread (they sort after CALLKEYS)
        nodes = []
        mixins = []                              # (name, nparams, writes)

        def show(spread_ok):
            k = rng.random()
            if k < 0.35 and spread_ok:
                return ('tag', rng.choice([b"span", b"a", b"li"]), True, [], [b"attributes"], [T(b"s")])
            key = rng.choice(CALLKEYS + SETKEYS)
            if k < 0.7:
                return ('tag', rng.choice([b"em", b"b"]), True, [], [], [P(AT(key))])
            if k < 0.85:
                return ('cond', AT(key), [T(b"+" + key)], ('block', [T(b"-" + key)]))
            return P(AT(key))

        for mi in range(rng.choice([1, 2, 2, 3])):
            name = b"f%d" % (mi + 1)
            np_ = rng.choice([1, 2, 2])
            params = [b"p%d" % (j + 1) for j in range(np_)]
            writes = mi == 0 or rng.random() < 0.6
            body = []
            spread = rng.random() < 0.6
            if rng.random() < 0.5:
                body.append(show(spread))            # a read BEFORE anything is stored
            if writes:
                keys = sorted(rng.sample(SETKEYS, rng.choice([1, 1, 2]))) if spread else rng.sample(CALLKEYS + SETKEYS, rng.choice([1, 2]))
                for key in keys:
                    val = rng.choice([('id', params[0]), ('bin', '+', ('str', b"w-"), ('id', params[0])), g.lit('str'), ('id', params[-1])])
                    st = ('code', [('expr', ('assign', AT(key), val))], False, False)
                    k = rng.random()
                    if k < 0.3:
                        body.append(st)
                    elif k < 0.6:
                        body.append(('cond', ('id', params[-1]), [st], None))                       # depends on an argument
                    elif k < 0.85:
                        body.append(('cond', ('id', rng.choice([b"p", b"p", b"s", b"n"])), [st], None))  # depends on page data
                    else:
                        body.append(('cond', ('bin', '==', ('id', params[0]), g.lit('str')), [st], ('block', [T(b"~")])))
            if mixins and rng.random() < 0.5:
                # a nested call, with or without attributes of its own, after this body stored something
                cn, cp, _ = rng.choice(mixins)
                cargs = [('id', rng.choice(params)) for _ in range(rng.choice([cp, cp, max(0, cp - 1)]))]
                cattrs = [(rng.choice(CALLKEYS), ('id', params[0]), True)] if rng.random() < 0.3 else []
                body.append(('call', cn, cargs, cattrs, []))
            for _ in range(rng.choice([1, 2])):
                body.append(show(spread))
            body.append(P(('id', params[0])))
            nodes.append(('mixin', name, params, body))
            mixins.append((name, np_, writes))
        env = genv.copy()

        def call(env, arg0=None):
            name, np_, _ = rng.choice(mixins)
            k = rng.choice([np_, np_, np_, max(0, np_ - 1)])
            args = []
            for j in range(k):
                r = rng.random()
                if j == 0 and arg0 is not None and r < 0.6:
                    args.append(arg0)
                elif r < 0.5:
                    args.append(g.lit('str'))
                elif r < 0.7:
                    args.append(rng.choice([('str', b""), ('num', 0), ('bool', False), ('num', 1), ('bool', True)]))
                else:
                    args.append(g.expr(env, 'str', 0))
            attrs = []
            if rng.random() < 0.35:
                for an in rng.sample(CALLKEYS, rng.choice([1, 1, 2])):
                    attrs.append((an, g.expr(env, 'str', 0), True))
            return ('call', name, args, attrs, [])

        for _ in range(rng.choice([2, 3, 3, 4, 5])):
            k = rng.random()
            if k < 0.7:
                nodes.append(call(env))
            elif k < 0.85:
                it = g.fresh(b"it")
                inner = env.copy()
                coll = rng.choice([('id', b"ws"), ('arr', [('str', b"a"), ('str', b""), ('str', b"c")])])
                inner.types[it] = 'str'
                nodes.append(('each', it, None, coll, [call(inner, ('id', it))]))
            else:
                nodes.append(('cond', ('id', rng.choice([b"p", b"s"])), [call(env)], ('block', [call(env)])))
        d2, _ = g.data()
        d2 = {k: d2.get(k, v) for k, v in data.items()}
        r = rng.random()
        if r < 0.5:
            # the second render takes the other branches
            d2[b"p"] = not data[b"p"]
            if rng.random() < 0.5:
                d2[b"s"] = b"" if data[b"s"] else b"x"
                d2[b"n"] = 0 if data[b"n"] else 1
        elif r < 0.7:
            data[b"p"], d2[b"p"] = True, False
            data[b"s"], d2[b"s"] = b"on", b""
            data[b"n"], d2[b"n"] = 7, 0
        return {"nodes": ser(nodes), "datas": [ser(data), ser(d2)], "stream": "attrstate", "again": True}

    # ---------------------------------------------------------------- stream "litargs"
    # Every execution of a call evaluates its arguments and attributes anew: a call written with LITERALS only
    # (`+tags(["a", "b"], "x")(id="lit")`, `+row({k: "a", n: 1}, "y")`) hands the body fresh arrays / objects each time
    # it runs.  The bodies here CHANGE what they were given (`- l.push(x)`, `- l.pop()`, `- l.k = l.k + x`,
    # `- l.z = x`, `- l.n = l.n + 1`, `- attributes.title = x`; always, depending on an argument, depending on page
    # data) and read it before and after; the main part runs the SAME call site many times: in each-loops over
    # literals and page data, inside a wrapper mixin that is itself called repeatedly, at every level of a recursive
    # mixin, next to calls of the same mixin whose arguments hold a variable.  The harness renders every data value
    # TWICE ON THE SAME ENGINE (the case's "again" flag), so a call site also runs again in a later render of the same
    # compiled template.  Nothing one execution did to its arguments may show in another.
    def gen_litargs(self, rng):
        g = tgen.TGen(rng, offdomain=0.0, max_depth=1)
        data, genv = g.data()
        P = lambda e, esc=True: ('code', [('expr', e)], esc, True)
        X = lambda e: ('code', [('expr', e)], False, False)
        T = lambda s: ('text', s)
        AT = lambda k: ('dot', ('id', b"attributes"), k)
        L = ('id', b"l")
        LD = lambda k: ('dot', L, k)
        BLK = ('mixinblock',)
        WORDS = [b"a", b"b", b"c", b"dd", b"e"]
        W = lambda: ('str', rng.choice(WORDS))
        nodes = []
        mixins = []                              # (name, kind, places_block)

        def guard(st, x_is):
            k = rng.random()
            if k < 0.55:
                return st
            if k < 0.75:
                return ('cond', ('id', rng.choice([b"p", b"p", b"s", b"n"])), [st], None)      # depends on page data
            return ('cond', ('bin', '==', ('id', b"x"), ('str', x_is)), [st], ('block', [T(b"~")]))  # on an argument

        x_is = rng.choice(WORDS)

        def lit_call_of(m, var, blk_src=None):
            """a call of mixin m whose arguments and attributes are literals (var: an expression used for the
            second argument instead - the neighbouring, variable-argument call)"""
            name, kind, places = m
            if kind == 'arr':
                first = ('arr', [W() for _ in range(rng.choice([2, 2, 3, 4]))])
            elif kind == 'obj':
                first = ('obj', [(b"k", W()), (b"n", ('num', rng.choice([0, 1, 7])))] + ([(b"z", ('str', b""))] if rng.random() < 0.3 else []))
            else:
                first = rng.choice([W(), ('arr', [W()]), ('num', 1)])
            args = [first, var if var is not None else ('str', x_is) if rng.random() < 0.5 else W()]
            if rng.random() < 0.1:
                args.append(W())               # surplus argument
            attrs = []
            if rng.random() < (0.6 if kind == 'attr' else 0.25):
                for an in rng.sample([b"id", b"k"], rng.choice([1, 1, 2])):
                    attrs.append((an, W(), True))
            blk = []
            if places and rng.random() < 0.6:
                blk = [rng.choice([T(b"B"), blk_src if blk_src is not None else T(b"blk")])]
            return ('call', name, args, attrs, blk)

        for mi in range(rng.choice([1, 2, 2, 3])):
            name = b"la%d" % (mi + 1)
            kind = rng.choice(['arr', 'arr', 'obj', 'obj', 'attr'])
            reads, muts = [], []
            if kind == 'arr':
                reads = [None,                       # each over l: see rd
                         lambda: P(('call', ('dot', L, b"join"), [('str', rng.choice([b"-", b","]))])),
                         lambda: P(LD(b"length"))]
                # `- var u = l.push(x)`: a bare `- l.push(x)` is an expression statement, whose value the engine prints
                # (C01/C20's subject); the declaration keeps the statement silent
                V = lambda e: ('code', [('vars', [('var', g.fresh(b"u"), e)])], False, False)
                muts = [lambda: V(('call', ('dot', L, b"push"), [('id', b"x")])),
                        lambda: V(('call', ('dot', L, b"push"), [('id', b"x")])),
                        lambda: V(('call', ('dot', L, b"push"), [W()])),
                        lambda: V(('call', ('dot', L, b"pop"), []))]
            elif kind == 'obj':
                reads = [lambda: ('tag', rng.choice([b"em", b"b"]), True, [], [], [P(LD(b"k"))]),
                         lambda: P(LD(b"n")),
                         lambda: ('cond', LD(b"z"), [T(b"+z"), P(LD(b"z"))], ('block', [T(b"-z")])),
                         lambda: P(LD(b"k"))]
                muts = [lambda: X(('assign', LD(b"k"), ('bin', '+', LD(b"k"), ('id', b"x")))),
                        lambda: X(('assign', LD(b"k"), ('id', b"x"))),
                        lambda: X(('assign', LD(b"z"), ('id', b"x"))),
                        lambda: X(('assign', LD(b"n"), ('bin', '+', LD(b"n"), ('num', 1))))]
            else:
                reads = [lambda: ('tag', rng.choice([b"em", b"b"]), True, [], [], [P(AT(rng.choice([b"id", b"title"])))]),
                         lambda: ('cond', AT(b"title"), [T(b"+t")], ('block', [T(b"-t")])),
                         lambda: P(AT(rng.choice([b"id", b"k", b"title"])))]
                muts = [lambda: X(('assign', AT(b"title"), ('id', b"x"))),
                        lambda: X(('assign', AT(rng.choice([b"id", b"k"])), ('bin', '+', ('str', b"w-"), ('id', b"x")))),
                        lambda: X(('assign', AT(b"title"), W()))]
            body = []

            def rd():
                f = rng.choice(reads)
                if kind == 'arr' and f is reads[0]:
                    v = g.fresh(b"e")
                    return ('each', v, None, L, [('tag', rng.choice([b"b", b"i"]), True, [], [], [P(('id', v))])])
                return f()
            if rng.random() < 0.75:
                body.append(rd())                    # a read BEFORE the body changed anything
            for _ in range(rng.choice([1, 1, 2])):
                body.append(guard(rng.choice(muts)(), x_is))
            if mixins and rng.random() < 0.35:
                # a nested call written with literals only, made by every execution of this body
                body.append(lit_call_of(rng.choice(mixins), None))
            for _ in range(rng.choice([1, 2])):
                body.append(rd())
            places = rng.random() < 0.3
            if places:
                body.insert(rng.randrange(len(body) + 1), BLK)
            body.append(T(b";"))
            nodes.append(('mixin', name, [b"l", b"x"], body))
            mixins.append((name, kind, places))
        # a wrapper mixin: its body holds literal call sites and is executed repeatedly
        wrap = rng.random() < 0.45
        if wrap:
            wbody = [T(b"[")] + [lit_call_of(rng.choice(mixins), None) for _ in range(rng.choice([1, 1, 2]))] + [T(b"]")]
            nodes.append(('mixin', b"wr", [b"a"], wbody + ([P(('id', b"a"))] if rng.random() < 0.5 else [])))
        # a recursive mixin: the literal call site runs at every level
        rec = rng.random() < 0.35
        if rec:
            rb = [lit_call_of(rng.choice(mixins), None),
                  ('cond', ('bin', '>', ('id', b"n"), ('num', 0)), [('call', b"rp", [('bin', '-', ('id', b"n"), ('num', 1))], [], [])], None)]
            if rng.random() < 0.5:
                rb.reverse()
            nodes.append(('mixin', b"rp", [b"n"], rb))
        env = genv.copy()

        def loop(body_of):
            it = g.fresh(b"it")
            coll = rng.choice([('arr', [('num', 1), ('num', 2)]), ('arr', [('num', 1), ('num', 2), ('num', 3)]), ('id', b"xs"), ('id', b"ws"),
                               ('arr', [('str', b"a"), ('str', b"b")])])
            return ('each', it, None, coll, body_of(('id', it), coll in (('id', b"xs"),) or (coll[0] == 'arr' and coll[1][0][0] == 'num')))

        repeated = 0
        for _ in range(rng.choice([2, 2, 3, 4])):
            k = rng.random()
            if k < 0.40:
                def body_of(itv, isnum):
                    out = [lit_call_of(rng.choice(mixins), None, P(itv))]
                    if rng.random() < 0.3:
                        out.append(lit_call_of(rng.choice(mixins), itv if not isnum and rng.random() < 0.7 else None))
                    return out
                nodes.append(loop(body_of))
                repeated += 1
            elif k < 0.55 and wrap:
                if rng.random() < 0.5:
                    nodes.append(loop(lambda itv, isnum: [('call', b"wr", [itv], [], [])]))
                else:
                    for _ in range(rng.choice([2, 3])):
                        nodes.append(('call', b"wr", [W()], [], []))
                repeated += 1
            elif k < 0.70 and rec:
                nodes.append(('call', b"rp", [('num', rng.choice([1, 2, 2, 3]))], [], []))
                repeated += 1
            elif k < 0.85:
                nodes.append(lit_call_of(rng.choice(mixins), None))
            else:
                # the neighbouring call: the second argument is a page-data value
                nodes.append(lit_call_of(rng.choice(mixins), ('id', rng.choice([b"s", b"t"]))))
        if not repeated:
            nodes.append(loop(lambda itv, isnum: [lit_call_of(rng.choice(mixins), None)]))
        d2, _ = g.data()
        d2 = {k: d2.get(k, v) for k, v in data.items()}
        if rng.random() < 0.5:
            d2[b"p"] = not data[b"p"]
        return {"nodes": ser(nodes), "datas": [ser(data), ser(d2)], "stream": "litargs", "again": True}

    # ---------------------------------------------------------------- stream "pagedata"
    # "A mixin body sees the page data but not the caller's local variables" when the caller's local variable HAS
    # THE NAME OF A PAGE-DATA KEY: the page gives a key of its data a value of its own (`- s = "Local"`,
    # `- s = s || "Default"`, `- n = n + 1`, `- var s = ...`), at any point of the main part - as the very first
    # statement, after 0-3 `- var` declarations / inside and after page-level loops (which grow the page's variable
    # stack), inside branches - and then calls mixins whose bodies read that key.  The page itself, the arguments of
    # its calls and the block content it passes see the page's value; every mixin body - called directly, nested,
    # from block content, in a loop - sees the page data.  Block content passed by the page may also WRITE a key
    # (`- t = "bob"` as its first statement): that is a write to the caller's variable, no mixin body may see it
    # either.  Mixin parameters named like a data key, and mixin bodies that assign a key themselves before calling
    # another mixin, are the neighbouring situations (the name then is the callee's own).
    def gen_pagedata(self, rng):
        g = tgen.TGen(rng, offdomain=0.0, max_depth=1)
        data, genv = g.data()
        P = lambda e, esc=True: ('code', [('expr', e)], esc, True)
        T = lambda s: ('text', s)
        A = lambda name, e: ('code', [('expr', ('assign', ('id', name), e))], False, False)
        V = lambda name, e: ('code', [('vars', [('var', name, e)])], False, False)
        BLK = ('mixinblock',)
        KT = {b"s": 'str', b"t": 'str', b"n": 'num', b"m": 'num', b"p": 'bool'}
        # keys only block content writes: page-level code never reads or writes them (S and M run block content on a
        # copy of the caller's variables, the engine and pug on the variables themselves: see `assumptions`)
        blockkeys = rng.sample([b"s", b"t", b"n", b"m"], rng.choice([0, 1, 1]))
        pagekeys = [k for k in KT if k not in blockkeys]
        penv = genv.copy()
        for k in blockkeys:
            del penv.types[k]
        nodes = []

        def read(k):
            """a body reads page-data key k"""
            if KT[k] == 'bool':
                return ('cond', ('id', k), [T(b"+" + k)], ('block', [T(b"-" + k)]))
            r = rng.random()
            if r < 0.5:
                return ('tag', rng.choice([b"b", b"i", b"em", b"p"]), True, [], [], [P(('id', k))])
            if r < 0.8:
                return P(('id', k))
            return ('cond', ('id', k), [P(('id', k))], ('block', [T(b"no-" + k)]))

        mixins = []          # (name, params, places_block)
        for mi in range(rng.choice([1, 2, 2, 3])):
            name = b"rd%d" % (mi + 1)
            r = rng.random()
            params = [] if r < 0.4 else [b"a"] if r < 0.75 else [rng.choice([b"s", b"n"])]     # a parameter named like a data key
            body = []
            if params:
                body.append(P(('id', params[0])))
            for _ in range(rng.choice([1, 2, 2, 3])):
                body.append(read(rng.choice(list(KT))))
            for k in blockkeys:
                if rng.random() < 0.7:
                    body.append(read(k))
            places = rng.random() < 0.6
            if places:
                body.insert(rng.randrange(len(body) + 1), BLK)
                if rng.random() < 0.25:
                    body.append(BLK)
            if mixins and rng.random() < 0.45:
                cn, cp, cb = rng.choice(mixins)
                cargs = []
                if cp:
                    cargs = [('id', params[0])] if params and rng.random() < 0.5 else [g.lit(KT.get(cp[0], 'str'))]
                cblk = [BLK] if places and cb and rng.random() < 0.5 else []
                body.insert(rng.randrange(len(body) + 1), ('call', cn, cargs, [], cblk))
            nodes.append(('mixin', name, params, body))
            mixins.append((name, params, places))
        if rng.random() < 0.3:
            # a mixin that gives a key a value of its own and then calls a reader: the reader sees the page data
            k = rng.choice(list(KT))
            cn, cp, _ = rng.choice(mixins)
            nodes.append(('mixin', b"wr", [],
                          [A(k, g.lit(KT[k])), read(k), ('call', cn, [g.lit(KT.get(cp[0], 'str'))] if cp else [], [], []), read(k)]))
            mixins.append((b"wr", [], False))

        def value(k, env):
            t = KT[k]
            r = rng.random()
            if t == 'str':
                if r < 0.35:
                    return g.lit('str')
                if r < 0.55:
                    return ('bin', '+', ('id', k), ('str', rng.choice([b"!", b"-x", b"."])))
                if r < 0.75:
                    return ('bin', '||', ('id', k), ('str', b"Default"))
                return g.expr(env, 'str', rng.choice([0, 0, 1]))
            if t == 'num':
                if r < 0.4:
                    return g.lit('num')
                if r < 0.8:
                    return ('bin', rng.choice(['+', '*']), ('id', k), ('num', rng.choice([1, 2, 10])))
                return g.expr(env, 'num', 0)
            return ('bool', r < 0.5) if r < 0.7 else ('un', '!', ('id', k))

        counter = [0]

        def assign(env):
            k = rng.choice(pagekeys)
            if rng.random() < 0.15:
                return V(k, value(k, env))              # `- var s = ...` for a key of the page data
            return A(k, value(k, env))

        def call(env, depth=1):
            name, params, places = rng.choice(mixins)
            args = []
            if params and rng.random() < 0.85:
                t = KT.get(params[0], 'str')
                loc = [x for x in env.types if env.types[x] == t and (x in pagekeys or x.startswith((b"v", b"it")))]
                args.append(('id', rng.choice(loc)) if loc and rng.random() < 0.6 else g.lit(t))
            attrs = [(b"k", g.expr(env, 'str', 0), True)] if rng.random() < 0.15 else []
            blk = []
            r = rng.random()
            if r < 0.7:
                if blockkeys and rng.random() < 0.55:
                    bk = rng.choice(blockkeys)
                    blk.append(A(bk, g.lit(KT[bk])))        # block content writes a key: first statement of the block
                    if rng.random() < 0.7:
                        blk.append(P(('id', bk)))
                for _ in range(rng.choice([0, 1, 1, 2])):
                    rr = rng.random()
                    if rr < 0.6:
                        k = rng.choice([x for x in pagekeys if KT[x] != 'bool'])
                        blk.append(rng.choice([P(('id', k)), ('tag', b"q", True, [], [], [P(('id', k))])]))
                    elif rr < 0.8 and depth > 0:
                        blk.append(call(env, depth - 1))
                    else:
                        blk.append(T(rng.choice([b"B", b"-"])))
            return ('call', name, args, attrs, blk)

        def stmt(env, depth):
            r = rng.random()
            if r < 0.30:
                return [assign(env)]
            if r < 0.42:
                counter[0] += 1
                v = b"v%d" % counter[0]
                t = rng.choice(['str', 'num'])
                out = [V(v, g.expr(env, t, rng.choice([0, 0, 1])))]
                env.types[v] = t
                return out
            if r < 0.52:
                k = rng.choice([x for x in pagekeys if KT[x] != 'bool'])
                return [('tag', b"h1", True, [], [], [P(('id', k))])]
            if r < 0.82 or depth == 0:
                return [call(env)]
            if r < 0.92:
                it = g.fresh(b"it")
                inner = env.copy()
                coll = rng.choice([('id', b"xs"), ('arr', [('num', 1), ('num', 2)]), ('arr', [('num', 7)])])
                inner.types[it] = 'num'
                body = []
                for _ in range(rng.choice([1, 2])):
                    body += stmt(inner, 0)
                return [('each', it, None, coll, body)]
            body = []
            for _ in range(rng.choice([1, 2])):
                body += stmt(env.copy(), 0)
            alt = ('block', stmt(env.copy(), 0)) if rng.random() < 0.4 else None
            return [('cond', ('id', b"p") if b"p" in env.types and rng.random() < 0.6 else g.test_expr(env), body, alt)]

        env = penv.copy()
        main = []
        early = rng.random()
        if early < 0.4:
            main.append(assign(env))                    # before anything grew the page's variable stack
        elif early < 0.55 and blockkeys:
            places = [m for m in mixins if m[2]]
            if places:
                bk = rng.choice(blockkeys)
                name, params, _ = rng.choice(places)
                main.append(('call', name, [g.lit(KT.get(params[0], 'str'))] if params else [], [],
                             [A(bk, g.lit(KT[bk])), P(('id', bk))]))
        for _ in range(rng.choice([2, 3, 4, 5, 6])):
            main += stmt(env, 1)
        main.append(call(env))
        nodes += main
        d2, _ = g.data()
        d2 = {k: d2.get(k, v) for k, v in data.items()}
        return {"nodes": ser(nodes), "datas": [ser(data), ser(d2)], "stream": "pagedata"}

    # ---------------------------------------------------------------- sibling files
    # A page is never loaded alone: the full load compiles every file below template/page.  A case with siblings
    # puts 1-3 other pages next to the page under test - in its directory, in a directory below, in the directory
    # above, in another directory - that define mixins OF THE SAME NAMES with other bodies, parameter lists and
    # block use: (a) the page's own definitions twisted (bodies rotated among the names, parameters reversed or
    # extended, `block` dropped or added, a marker text added), (b) an independently generated page of the same stream
    # (the streams name their mixins alike: m1.., rec / bx1.., rc, tr, pb / f1.. / rd1.., wr), (c) a page of another
    # stream; a sibling may be cut down to its definitions (an include file).  The harness loads the lot in two
    # directory layouts (the page listed before / after all its siblings by Readdir) and renders the page with every
    # data value in both: every result must be what the page means by itself (S knows nothing of siblings).
    SIB_NAMES = ["about", "basket", "card", "index", "list", "zeta", "a", "m0", "u", "news"]

    def twisted(self, nodes, rng):
        defs = [n for n in nodes if n[0] == 'mixin']
        if not defs:
            return [('mixin', b"m1", [], [('text', b"sib")])]
        BLK = ('mixinblock',)
        bodies = [d[3] for d in defs]
        rot = rng.randrange(1, len(defs)) if len(defs) > 1 else 0
        out = []
        for i, d in enumerate(defs):
            body = list(bodies[(i + rot) % len(defs)])
            params = list(d[2])
            k = rng.random()
            if k < 0.3:
                params = params[::-1] if len(params) > 1 else [b"zz"] + params
            elif k < 0.5:
                params = [b"zz"] + params
            k = rng.random()
            if k < 0.3:
                body = [n for n in body if n != BLK] or [('text', b"nb")]
            elif k < 0.5:
                body = body + [BLK]
            if rot == 0 or rng.random() < 0.5:
                body = [('text', b"~sib~")] + body
            out.append(('mixin', d[1], params, body))
        if rng.random() < 0.5:
            out += [n for n in nodes if n[0] != 'mixin']           # the page's own main part, over the twisted definitions
        return out

    def add_siblings(self, case, rng):
        nodes = de(case["nodes"])
        stream = case["stream"]
        tdir = rng.choice(["", "", "", "sec/", "sec/deep/"])
        names = list(self.SIB_NAMES)
        rng.shuffle(names)
        sibs = []
        for i in range(rng.choice([1, 1, 2, 2, 3])):
            k = rng.random()
            if k < 0.45:
                snodes = self.twisted(nodes, rng)
            elif k < 0.85:
                snodes = de(self.gen_stream(rng, stream)["nodes"])
            else:
                snodes = de(self.gen_stream(rng, rng.choice([n for n, _ in self.STREAMS]))["nodes"])
            if rng.random() < 0.3:
                snodes = [n for n in snodes if n[0] == 'mixin'] or snodes
            k = rng.random()
            if k < 0.6:
                d = tdir                                 # the page's own directory
            elif k < 0.75:
                d = tdir + "sub/"                        # below
            elif k < 0.9 and tdir:
                d = tdir[:tdir[:-1].rfind("/") + 1]      # above
            else:
                d = "oth/"
            sibs.append([d + names[i], ser(snodes)])
        case = {k: v for k, v in case.items() if k != "again"}      # the two layouts take the place of the repeated render
        return dict(case, tname=tdir + "t", sibs=sibs)

    def harness_case(self, case):
        nodes, datas = de(case["nodes"]), [de(d) for d in case["datas"]]
        tname = case.get("tname", "t")
        hc = {"files": {hx(tname): hx(tmpl.pug_file(nodes))}, "render": hx(tname),
              "datas": [tmpl.data_go(d) for d in datas], "debug": False}
        if case.get("sibs"):
            hc["sibs"] = {hx(n): hx(tmpl.pug_file(de(ns))) for n, ns in case["sibs"]}
        elif case.get("again"):
            hc["again"] = True               # every data value twice on the same engine (harness/c03.go c03RunAgain)
        return hc

    def emit(self, case, obs):
        """the Coq case holds the page under test only (siblings mean nothing to S or M); a case with siblings was
        rendered in two layouts, so its data values are listed twice, in the order of the harness' results"""
        nodes, datas = de(case["nodes"]), [de(d) for d in case["datas"]]
        if case.get("sibs"):
            res = obs["prod"].get("res") or []
            key = lambda r: (r.get("class"), r.get("out", ""))
            n = len(datas)
            if obs["prod"].get("load") == "ok" and len(res) == 2 * n and [key(r) for r in res[:n]] == [key(r) for r in res[n:]]:
                # the second layout gave, byte for byte, the results of the first: the judge is a function of (page,
                # data value, result), so judging them once is judging both
                obs = dict(obs, prod=dict(obs["prod"], res=res[:n]))
            else:
                datas = datas + datas
        elif case.get("again"):
            # every data value was rendered twice on one engine: results d1, d1', d2, d2'
            res = obs["prod"].get("res") or []
            key = lambda r: (r.get("class"), r.get("out", ""))
            n = len(datas)
            if obs["prod"].get("load") == "ok" and len(res) == 2 * n and all(key(res[2 * i]) == key(res[2 * i + 1]) for i in range(n)):
                obs = dict(obs, prod=dict(obs["prod"], res=res[0::2]))      # the repeat gave the same bytes: judged once
            else:
                datas = [d for d in datas for _ in (0, 1)]
        return (b"{| c_nodes := " + cq_list([tmpl.pug_coq(n) for n in nodes])
                + b"; c_datas := " + cq_list([tmpl.data_coq(d) for d in datas])
                + b"; c_funcs := " + cq_list([cq_bytes(f) for f in FUNCS])
                + b"; c_prod := " + obsm_coq(obs["prod"], len(datas))
                + b"; c_debug := " + cq_opt(None) + b" |}")

    def sample(self, case, obs):
        d = super().sample(case, obs)
        if case.get("sibs"):
            d["rendered"] = case.get("tname", "t")
            d["siblings"] = {n: json.loads(tmpl.pug_file(de(ns)).decode("utf-8", "replace")) for n, ns in case["sibs"]}
            d["layouts"] = obs.get("layouts")
            d["go_output"] = [unhx(r.get("out", "")).decode("utf-8", "replace")[:300] if r.get("class") == "ok" else r.get("class")
                              for r in (obs["prod"].get("res") or [])]
        return d

    # ---------------------------------------------------------------- running
    CASE_TIMEOUT_S = 12
    CASE_MEM_BYTES = 3 << 30
    OUT_CAP = 100000             # bytes of one render kept (the generator bounds recursion fan-out and depth: outputs stay below 10 kB)

    def run(self, binary, cases, tmp, tier):
        """every case in a harness process of its own (8 at a time): whatever state the package keeps between
        renders can only come from the case's own two renders, so a failing case is its own, complete replay.
        A process that does not end in 12 s or outgrows 3 GB of address space (a broken frame discipline can make
        a render recurse without end) is killed and observed as class 'crash'
        (runner C03 = TC with a 64 MB goroutine stack limit, harness/c03.go)."""
        import json
        import resource
        import subprocess
        from concurrent.futures import ThreadPoolExecutor

        def limit():
            resource.setrlimit(resource.RLIMIT_AS, (self.CASE_MEM_BYTES, self.CASE_MEM_BYTES))

        # the template directories the harness writes live below the check's own scratch directory: a process that is
        # killed cannot remove them, the driver removes `tmp`
        import os
        scratch = os.path.join(tmp, "c03tmp")
        os.makedirs(scratch, exist_ok=True)
        env = dict(os.environ, TMPDIR=scratch)

        def one(case):
            crash = {"prod": {"load": "crash", "code": "", "res": []}, "debug": None}
            try:
                p = subprocess.run([binary, self.engine], input=json.dumps([self.harness_case(case)]).encode(),
                                   capture_output=True, timeout=self.CASE_TIMEOUT_S, preexec_fn=limit, env=env)
            except subprocess.TimeoutExpired:
                return crash
            if p.returncode != 0:
                return crash
            o = json.loads(p.stdout)[0]
            for r in o["prod"].get("res") or []:
                if len(r.get("out", "")) > 2 * self.OUT_CAP:      # hex: an output that long is wrong anyway
                    r["out"] = r["out"][:2 * self.OUT_CAP]
            return o

        with ThreadPoolExecutor(max_workers=8) as ex:
            return list(ex.map(one, cases))

    # ---------------------------------------------------------------- shrinking
    @staticmethod
    def terminating(nodes):
        """every cycle of the mixin call graph goes through a call that stands under `if p > k` (k >= 0, p the first
        parameter of the enclosing mixin) and passes `p - 1` first: what the generator produces, and what a shrinking
        step must keep (dropping the guard or the decrement makes a template that never ends, for pug as well)"""
        defs = {}
        for n in nodes:
            if n[0] == 'mixin':
                defs[n[1]] = n
        edges = {name: set() for name in defs}

        def walk(ns, owner, p0, guarded):
            for n in ns:
                if not isinstance(n, tuple) or not n:
                    continue
                k = n[0]
                if k == 'call':
                    dec = guarded and n[2] and n[2][0] == ('bin', '-', ('id', p0), ('num', 1))
                    if not dec:
                        edges[owner].add(n[1])
                    walk(n[4], owner, p0, guarded)
                elif k == 'cond':
                    t = n[1]
                    g = (isinstance(t, tuple) and len(t) == 4 and t[0] == 'bin' and t[1] == '>' and t[2] == ('id', p0)
                         and t[3][0] == 'num' and t[3][1] >= 0)
                    walk(n[2], owner, p0, guarded or g)
                    if n[3] is not None:
                        walk([n[3]], owner, p0, guarded)
                elif k == 'block':
                    walk(n[1], owner, p0, guarded)
                elif k == 'tag':
                    walk(n[5], owner, p0, guarded)
                elif k == 'each':
                    walk(n[4], owner, p0, guarded)
                elif k == 'while':
                    walk(n[2], owner, p0, guarded)
                elif k == 'case':
                    for _, body in n[2]:
                        walk(body, owner, p0, guarded)

        for name, d in defs.items():
            walk(d[3], name, d[2][0] if d[2] else None, False)
        state = {}

        def cyclic(v):
            if state.get(v) == 1:
                return True
            if state.get(v) == 2 or v not in edges:
                return False
            state[v] = 1
            for w in edges[v]:
                if cyclic(w):
                    return True
            state[v] = 2
            return False
        return not any(cyclic(v) for v in list(edges))

    def shrink(self, case):
        nodes = de(case["nodes"])
        cands = []

        # fewer recursion levels: a literal first argument of a call outside the mixin definitions, lowered by one
        def lower(ns):
            for i, n in enumerate(ns):
                if n[0] == 'call':
                    if n[2] and n[2][0][0] == 'num' and n[2][0][1] >= 2:
                        yield ns[:i] + [n[:2] + ([('num', n[2][0][1] - 1)] + n[2][1:],) + n[3:]] + ns[i + 1:]
                    for b in lower(n[4]):
                        yield ns[:i] + [n[:4] + (b,)] + ns[i + 1:]
                elif n[0] == 'each':
                    for b in lower(n[4]):
                        yield ns[:i] + [n[:4] + (b,)] + ns[i + 1:]
        # a mixin definition together with every call of it
        def without(ns, name):
            out = []
            for n in ns:
                if n[0] in ('mixin', 'call') and n[1] == name:
                    continue
                if n[0] == 'mixin':
                    n = n[:3] + (without(n[3], name),)
                elif n[0] == 'call':
                    n = n[:4] + (without(n[4], name),)
                elif n[0] == 'tag':
                    n = n[:5] + (without(n[5], name),)
                elif n[0] == 'each':
                    n = n[:4] + (without(n[4], name),)
                elif n[0] == 'cond':
                    n = (n[0], n[1], without(n[2], name), None if n[3] is None else without([n[3]], name)[0] if without([n[3]], name) else None)
                elif n[0] == 'block':
                    n = ('block', without(n[1], name))
                out.append(n)
            return out
        # fewer files: no siblings at all (then the defect is the page's own), one sibling less, siblings cut down to
        # their definitions
        sibs = case.get("sibs") or []
        if sibs:
            bare = {k: v for k, v in case.items() if k not in ("sibs", "tname")}
            cands.append(bare)
            if len(sibs) > 1:
                for i in range(len(sibs)):
                    cands.append(dict(case, sibs=sibs[:i] + sibs[i + 1:]))
            for i, (sn, sv) in enumerate(sibs):
                sn_ = de(sv)
                defs = [n for n in sn_ if n[0] == 'mixin']
                if defs and len(defs) < len(sn_):
                    cands.append(dict(case, sibs=sibs[:i] + [[sn, ser(defs)]] + sibs[i + 1:]))
                if len(defs) > 1 and len(defs) == len(sn_):
                    for j in range(len(defs)):
                        cands.append(dict(case, sibs=sibs[:i] + [[sn, ser(defs[:j] + defs[j + 1:])]] + sibs[i + 1:]))
            if case.get("tname", "t") != "t" and all("/" not in n or n.startswith(case["tname"][:-1]) for n, _ in sibs):
                pre = case["tname"][:-1]
                cands.append(dict(case, tname="t", sibs=[[n[len(pre):] if n.startswith(pre) else n, v] for n, v in sibs]))
        for n in nodes:
            if n[0] == 'mixin':
                cands.append(dict(case, nodes=ser(without(nodes, n[1]))))
        for c in lower(nodes):
            cands.append(dict(case, nodes=ser(c)))
        cands += list(super().shrink(case))
        return [c for c in cands if self.terminating(de(c["nodes"]))]

    def distribution(self, cases, obss):
        d = super().distribution(cases, obss)
        streams = {}
        for c in cases:
            s = c.get("stream", "corpus")
            streams[s] = streams.get(s, 0) + 1
        d["streams"] = streams
        # cases with sibling files, and in how many of them the harness got the two directory listing orders it wanted
        withs = [(c, o) for c, o in zip(cases, obss) if c.get("sibs")]
        both = 0
        for c, o in withs:
            ls = o.get("layouts") or []
            if len(ls) == 2 and ls[0].get("t_before_all") and ls[1].get("t_after_all"):
                both += 1
        d["sibling_cases"] = {"cases": len(withs), "sibling_files": sum(len(c["sibs"]) for c, _ in withs),
                              "both_listing_orders_realised": both,
                              "siblings_not_loading_alone_dropped": sum(o.get("dropped", 0) for _, o in withs),
                              "page_in_subdirectory": sum(1 for c, _ in withs if "/" in c.get("tname", "t"))}
        return d

    def nontrivial(self, case, obs):
        nodes = de(case["nodes"])
        calls = []

        def walk(ns):
            for n in ns:
                if not isinstance(n, tuple):
                    continue
                if n[0] == 'call' and len(n) == 5:
                    calls.append(n)
                for x in n[1:]:
                    if isinstance(x, list):
                        walk([y for y in x if isinstance(y, tuple)])
                    elif isinstance(x, tuple) and x and x[0] in ('block', 'cond'):
                        walk([x])
        walk(nodes)
        names = [c[1] for c in calls]
        return any(c[4] for c in calls) or len(names) != len(set(names))


PROP = C03()
