# C08 — concurrent renders on one engine vs the same renders one at a time (race detector on).
# A call is (template, data, context); the context reaches the template through context-aware template functions.
import json
import os
import subprocess
from common import *
import tmpl

# ------------------------------------------------------------------ fixed templates (pug AST via gen/tmpl.py)
I = lambda x: ('id', x)
N = lambda n: ('num', n)
S = lambda s: ('str', s)


def code(*stmts):
    return ('code', list(stmts), False, False)


def buf(e, inline=True):
    return ('code', [('expr', e)], True, inline)


def tag(name, kids, attrs=(), inline=False):
    return ('tag', name, inline, list(attrs), [], list(kids))


def text(s):
    return ('text', s)


def var(x, e):
    return ('vars', [('var', x, e)])


def assign(l, r):
    return ('expr', ('assign', l, r))


def call(recv, m, *args):
    return ('call', ('dot', recv, m), list(args))


def fcall(f, *args):
    return ('call', I(f), list(args))


ZERO = ('bin', '+', N(0), N(0))   # a computed 0 (a literal initialiser would be a Go-native int, see F-C20-f)

TEMPLATES = {
    # loop with index, a running sum (variable mutation across iterations), escaped data
    "loop": [
        code(var(b"total", ZERO)),
        tag(b"ul", [('each', b"v", b"i", I(b"items"), [
            code(assign(I(b"total"), ('bin', '+', I(b"total"), I(b"v")))),
            tag(b"li", [buf(I(b"i")), text(b"="), buf(I(b"v"))]),
        ])]),
        tag(b"p", [text(b"sum "), buf(I(b"total")), text(b" of "), buf(('dot', I(b"items"), b"length"))]),
        tag(b"b", [buf(I(b"title"))]),
    ],
    # mixin with arguments and a block that reads the caller's variables, called in a loop
    "mixins": [
        ('mixin', b"card", [b"ttl", b"n"], [
            tag(b"div", [tag(b"h2", [buf(I(b"ttl"))]), tag(b"i", [buf(('bin', '*', I(b"n"), N(2)))]), ('mixinblock',)],
                attrs=[(b"class", S(b"card"), True)])]),
        ('each', b"it", None, I(b"cards"), [
            ('call', b"card", [('dot', I(b"it"), b"name"), ('dot', I(b"it"), b"qty")], [], [
                tag(b"span", [text(b"for "), buf(I(b"user")), text(b"/"), buf(('dot', I(b"it"), b"name"))])]),
        ]),
        ('call', b"card", [S(b"last"), N(21)], [], []),
    ],
    # array push / sort / join, string building
    "mutate": [
        code(var(b"acc", ('arr', []))),
        code(var(b"k", ZERO)),
        ('each', b"v", None, I(b"xs"), [
            code(('expr', call(I(b"acc"), b"push", ('bin', '*', I(b"v"), N(3))))),
            code(assign(I(b"k"), ('bin', '+', I(b"k"), N(1)))),
        ]),
        code(('expr', call(I(b"acc"), b"sort"))),
        tag(b"p", [buf(call(I(b"acc"), b"join", S(b",")))]),
        tag(b"p", [buf(I(b"k")), text(b" "), buf(('dot', I(b"acc"), b"length"))]),
        code(var(b"w", I(b"word"))),
        code(assign(I(b"w"), ('bin', '+', I(b"w"), S(b"!")))),
        code(assign(I(b"w"), ('bin', '+', I(b"w"), I(b"w")))),
        tag(b"q", [buf(I(b"w"))]),
    ],
    # $global: the per-render map shared between a template and its mixins
    "glob": [
        ('mixin', b"bump", [b"by"], [
            code(assign(('dot', I(b"global"), b"count"), ('bin', '+', ('dot', I(b"global"), b"count"), I(b"by")))),
            tag(b"s", [buf(('dot', I(b"global"), b"count"))])]),
        code(assign(('dot', I(b"global"), b"count"), I(b"start"))),
        code(assign(('dot', I(b"global"), b"who"), I(b"user"))),
        ('each', b"d", None, I(b"deltas"), [('call', b"bump", [I(b"d")], [], [])]),
        tag(b"p", [buf(('dot', I(b"global"), b"count")), text(b" by "), buf(('dot', I(b"global"), b"who"))]),
    ],
    # template functions from the shared function table: Math, JSON, Object
    "funcs": [
        tag(b"p", [buf(call(I(b"Math"), b"max", I(b"a"), I(b"b"))), text(b" "), buf(call(I(b"Math"), b"min", I(b"a"), I(b"b"))),
                   text(b" "), buf(call(I(b"Math"), b"ceil", ('bin', '/', I(b"a"), N(4))))]),
        tag(b"pre", [buf(call(I(b"JSON"), b"stringify", I(b"obj")))]),
        tag(b"u", [buf(call(call(I(b"Object"), b"keys", I(b"obj")), b"join", S(b"|")))]),
        code(var(b"merged", call(I(b"Object"), b"assign", ('obj', [(b"z", N(1))]), I(b"obj")))),
        tag(b"pre", [buf(call(I(b"JSON"), b"stringify", I(b"merged")))]),
    ],
    # while / if / case / attributes
    "ctl": [
        code(var(b"i", ZERO)),
        ('while', ('bin', '<', I(b"i"), I(b"n")), [
            ('cond', ('bin', '==', ('bin', '%', I(b"i"), N(2)), N(0)), [tag(b"e", [buf(I(b"i"))])],
             ('block', [tag(b"o", [buf(I(b"i"))])])),
            code(assign(I(b"i"), ('bin', '+', I(b"i"), N(1)))),
        ]),
        ('case', I(b"kind"), [(S(b"a"), [text(b"is-a")]), (S(b"b"), [text(b"is-b")]), (None, [text(b"other")])]),
        tag(b"a", [buf(I(b"label"))], attrs=[(b"href", I(b"url"), True), (b"class", S(b"lnk"), True)]),
    ],
    "sub/page": [
        ('doctype', b"html"),
        tag(b"html", [tag(b"body", [tag(b"h1", [buf(I(b"title"))]),
                                    ('each', b"v", None, I(b"items"), [tag(b"p", [buf(I(b"v"))])])])]),
    ],
    # data-dependent execution error: JSON.parse of the data (an execution panic when it is not JSON)
    "fail": [
        tag(b"p", [text(b"before")]),
        tag(b"p", [buf(('dot', call(I(b"JSON"), b"parse", I(b"word")), b"k"))]),
    ],
    # ---- templates whose output depends on the CONTEXT of the render, through the harness's context-aware
    # template functions (harness/c08ctx.go): who() / cnum(x) / cget(k) / alive() / Req.user() / Req.plus(x)
    # answer from the call's context, meet() is a bare stagger point
    # straight line: several different functions, some used twice
    "ctx/line": [
        tag(b"p", [buf(fcall(b"who")), text(b"|"), buf(fcall(b"cnum", I(b"a"))), text(b"|"), buf(fcall(b"meet")),
                   text(b"|"), buf(fcall(b"who")), text(b"|"), buf(fcall(b"cget", I(b"key"))), text(b"|"),
                   buf(fcall(b"alive")), text(b"|"), buf(call(I(b"Req"), b"user")), text(b"|"),
                   buf(fcall(b"cnum", N(1000)))]),
        tag(b"b", [buf(I(b"title"))]),
    ],
    # context functions called in a loop, mixed with data and a running sum
    "ctx/loop": [
        code(var(b"total", ZERO)),
        tag(b"ul", [('each', b"v", b"i", I(b"items"), [
            code(assign(I(b"total"), ('bin', '+', I(b"total"), fcall(b"cnum", I(b"v"))))),
            tag(b"li", [buf(fcall(b"who")), text(b":"), buf(fcall(b"cnum", I(b"v"))), text(b":"),
                        buf(fcall(b"cget", ('bin', '+', S(b"k"), ('bin', '%', I(b"i"), N(4))))), buf(fcall(b"meet"))]),
        ])]),
        tag(b"p", [buf(I(b"total")), text(b" for "), buf(call(I(b"Req"), b"user")), text(b" "), buf(fcall(b"alive"))]),
    ],
    # context functions inside a mixin, in the mixin's block and in attributes
    "ctx/mixin": [
        ('mixin', b"badge", [b"k"], [
            tag(b"span", [buf(fcall(b"cget", I(b"k"))), text(b"@"), buf(fcall(b"who")), ('mixinblock',)],
                attrs=[(b"title", fcall(b"who"), True)])]),
        ('each', b"k", None, I(b"keys"), [
            ('call', b"badge", [I(b"k")], [], [
                tag(b"i", [buf(call(I(b"Req"), b"plus", I(b"n"))), text(b"/"), buf(I(b"k"))])]),
        ]),
        ('call', b"badge", [S(b"k0")], [], []),
        tag(b"q", [buf(fcall(b"who")), buf(fcall(b"meet")), buf(fcall(b"alive"))]),
    ],
}
TNAMES = sorted(TEMPLATES)
CTX_TNAMES = [t for t in TNAMES if t.startswith("ctx/")]
FILES = {hx(k): hx(tmpl.pug_file(TEMPLATES[k])) for k in TNAMES}

WORDS = [b"ab", b"x", b"Hello", b"<b>&\"'", b"", b"z9", b"\xc3\xa9t\xc3\xa9", b"a&b", b"</script>", b"k1 k2"]
CLASS_CODE = {"not_found": 1, "exec_panic": 2, "load_error": 3, "ctx_error": 4, "error": 5}
CHUNK = 32   # Models/Sched.v chunk_len


def gen_data(rng, t):
    ints = lambda lo, hi: [rng.randint(-20, 99) for _ in range(rng.randint(lo, hi))]
    w = lambda: rng.choice(WORDS)
    if t == "loop":
        return {b"items": ints(0, 8), b"title": w()}
    if t == "mixins":
        return {b"user": w(), b"cards": [{b"name": w(), b"qty": rng.randint(0, 50)} for _ in range(rng.randint(0, 5))]}
    if t == "mutate":
        return {b"xs": ints(0, 8), b"word": w()}
    if t == "glob":
        return {b"start": rng.randint(0, 100), b"user": w(), b"deltas": ints(0, 6)}
    if t == "funcs":
        return {b"a": rng.randint(0, 99), b"b": rng.randint(0, 99),
                b"obj": {b"k": w(), b"n": rng.randint(0, 9), b"l": ints(0, 3)}}
    if t == "ctl":
        return {b"n": rng.randint(0, 8), b"kind": rng.choice([b"a", b"b", b"c"]), b"label": w(),
                b"url": rng.choice([b"/x?a=1&b=2", b"/", b"/p/" + w()])}
    if t == "sub/page":
        return {b"title": w(), b"items": [w() for _ in range(rng.randint(0, 5))]}
    if t == "fail":
        return {b"word": rng.choice([b'{"k": 7}', b'{"k": "v"}', b"{bad", b""])}
    if t == "ctx/line":
        return {b"a": rng.randint(0, 99), b"key": rng.choice(CTX_KEYS), b"title": w()}
    if t == "ctx/loop":
        return {b"items": ints(1, 8)}
    if t == "ctx/mixin":
        return {b"keys": [rng.choice(CTX_KEYS) for _ in range(rng.randint(0, 5))], b"n": rng.randint(0, 50)}
    return {b"x": 1}   # a template that is not loaded: not_found


CTX_KEYS = [b"k0", b"k1", b"k2", b"k3", b"none"]
USERS = [b"alice", b"bob", b"carol", b"dave", b"eve", b"<mallory>", b"a&b", b"\xc3\xa9ve", b""]


def gen_ctx(rng, ratelimit, tag):
    """What one job's context carries.  `tag` makes the contexts of one case pairwise different."""
    user = rng.choice(USERS) + (b"#%d" % tag if rng.random() < 0.8 else b"")
    kv = [[hx(k), hx(rng.choice(WORDS) + b"~" + user)] for k in CTX_KEYS[:4] if rng.random() < 0.8]
    # a context that is already over: only without a rate limit (with one, Render's select between the
    # semaphore and ctx.Done() is a coin toss when both are ready, which is outside what is compared here)
    over = ratelimit == 0 and rng.random() < 0.12
    return {"user": hx(user), "num": rng.randint(-50, 5000), "kv": kv, "over": over}


def res_term(r):
    if r["class"] == "ok":
        return b"(inl " + cq_bytes(unhx(r["out"])) + b")"
    return b"(inr %d)" % CLASS_CODE.get(r["class"], 9)


def steps_needed(r):
    if r["class"] != "ok":
        return 1
    return (len(unhx(r["out"])) + CHUNK - 1) // CHUNK + 1


class C08(Prop):
    id = "C08"
    engine = "C08"
    judge_module = "Run.Judge_C08"
    prop_module = "Props.C08"
    prop_file = "Props/C08.v"
    coq_targets = ["Props/C08.vo", "Run/Judge_C08.vo"]
    needs_race = True
    # one case = one engine and rounds x goroutines concurrent renders (quick: about 2 000 renders)
    sizes = {"quick": 40, "thorough": 1200}
    shard = 8
    design_ref = "DESIGN.md section 6 C08, section 10"
    rule = ("one case = one production-mode engine with 11 loaded templates (loops, mixins with blocks, variable "
            "mutation, array push/sort, $global, Math/JSON/Object, while/case/attributes, a data-dependent execution "
            "error, and three templates ctx/* whose output depends on the CONTEXT of the render through the harness's "
            "context-aware template functions who/cnum/cget/alive/Req.user/Req.plus supplied via Engine.FuncProvider), "
            "1-8 distinct jobs (template, data, context: user, number, string table, sometimes already cancelled), "
            "N in {2, 8, 32} goroutines released by a barrier, each call with its own freshly built data value and its "
            "own context value, 2-5 rounds, harness built with -race. Two shapes: 'ctx' (about 45% of the cases): "
            "overlapping renders of the SAME context-dependent template (sometimes 2-3 of them) that differ in their "
            "context and partly in their data; 'mixed': all templates. Deliberate staggering (85% of the ctx cases, 60% "
            "of the mixed ones; the rest is a free-running storm): every provider call (the engine is in the middle of "
            "resolving a function), every call of a harness function and the moment between Render returning its "
            "reader and the caller reading it is a stagger point at which the call, following a plan drawn from the "
            "case, passes, yields, or is held until the OTHER renders have passed 1-13 further points (bounded by 2 ms; "
            "released at once when nobody else is running), so renders really sit inside each other's function "
            "resolution and unread results; coverage.distribution.stagger reports points/holds/released/timeouts and "
            "the largest number of renders seen in flight at once. Every concurrent result is compared with the result "
            "of the same (template, data, context) rendered alone before and after the storm; non-trivial = at least "
            "two concurrent calls and every job rendered alone first; distinct by SHA-1 of the case. Small batches "
            "(replay, shrinking candidates, final run of a shrunk witness) are attempted up to 40 times and the first "
            "attempt that differs is the observation")
    trusted = [
        "PARTIAL: absence of data races is the Go race detector's observation on the code executed by this run "
        "(harness built with -race, GORACE log collected per case); it is not a theorem",
        "the theorems are about logical interference for step functions that satisfy the footprint discipline "
        "(view_preserved/view_determines, reads_only); that Engine.Render's memory accesses have these footprints "
        "is what the race detector and the output comparison observe",
        "the judge instantiates 'what one render does' with the result observed when the same (template, data, "
        "context) was rendered alone on the same engine (replay machine, theorem C08_replay_model_is_sequential)",
        "context-aware template functions: Models/Sched.v Part 2c models findFunction's bind-per-use (theorems "
        "C08_context_functions_*); that the Go code binds per use and keeps nothing bound in shared state is observed "
        "by the context storms, not proved about the Go source",
        "the harness's own template functions and stagger points (harness/c08ctx.go) are trusted test code: they "
        "answer only from the context they were bound to; their bookkeeping is mutex-protected and bounded in time",
        "Go scheduler: the interleavings that occur are whatever the runtime produces on this machine, steered by the "
        "stagger plans; the schedule under which the model runs is drawn by the generator (the theorems hold for "
        "every schedule)",
    ]
    assumptions = [
        "data-race freedom of Go memory is observed (race detector on executed code), not proved",
        "claim restricted to loaded templates in production mode (Engine.Debug = false); debug mode reloads on "
        "every Render (C08_debug_mode_reads_only_refuted) and is reported as an observation only",
        "sync.RWMutex provides mutual exclusion as modelled in Models/Sched.v Part 3 (trusted Go runtime)",
        "template functions supplied by the application are themselves free of cross-call state; the harness's are",
        "an already cancelled context is only used without a rate limit (with one, Render's select between the "
        "semaphore and ctx.Done() is a scheduler coin toss, which is not what C08 compares)",
    ]
    not_yet_proved = [
        "the correspondence for context-aware functions is by output comparison only: the judge does not run the "
        "Part 2c machine (cstep) on the harness's cases, and no statement about the Go source of findFunction is proved",
    ]

    # ---------------------------------------------------------------- generation
    def generate(self, rng, n, tier):
        cases = []
        for _ in range(n):
            ratelimit = rng.choice([0, 0, 0, 8, 2])
            kind = rng.random()
            jobs = []
            if kind < 0.45:
                # CONTEXT STORM: overlapping renders of one context-dependent template (sometimes two or three)
                # that differ in their context (and sometimes in their data)
                shape = "ctx"
                tpls = rng.sample(CTX_TNAMES, rng.choice([1, 1, 1, 2, 3]))
                njobs = rng.choice([2, 2, 3, 4, 6, 8])
                base = {t: gen_data(rng, t) for t in tpls}
                for k in range(njobs):
                    t = tpls[k % len(tpls)]
                    d = base[t] if rng.random() < 0.5 else gen_data(rng, t)   # same data, other context
                    jobs.append({"tpl": hx(t), "data": tmpl.data_go(d), "ctx": gen_ctx(rng, ratelimit, k)})
            else:
                # MIXED STORM: all templates, context-dependent or not
                shape = "mixed"
                njobs = rng.choice([1, 2, 3, 4, 6, 8])
                for k in range(njobs):
                    r = rng.random()
                    if r < 0.06:
                        t = "nope/missing"
                    elif r < 0.16:
                        t = "fail"
                    else:
                        t = rng.choice([x for x in TNAMES if x != "fail"])
                    jobs.append({"tpl": hx(t), "data": tmpl.data_go(gen_data(rng, t)),
                                 "ctx": gen_ctx(rng, ratelimit, k)})
            ngo = rng.choice([2, 2, 8, 8, 8, 32, 32])
            mode = rng.random()
            if mode < 0.2 and shape == "mixed":
                calls = [rng.randrange(njobs)] * ngo          # everybody renders the same job
            else:
                calls = [rng.randrange(njobs) for _ in range(ngo)]
                if shape == "ctx":                            # at least two different contexts meet
                    calls[0], calls[1] = 0, 1
            # deliberate staggering inside the harness's template functions (0 = none: free-running storm)
            stagger = 0 if rng.random() < (0.15 if shape == "ctx" else 0.4) else rng.randrange(1, 1 << 40)
            cases.append({"files": FILES, "jobs": jobs, "calls": calls, "rounds": rng.randint(2, 5),
                          "debug": False, "ratelimit": ratelimit, "stagger": stagger, "shape": shape,
                          "sseed": rng.randrange(1 << 30)})
        return cases

    # ---------------------------------------------------------------- running (race detector log, crash isolation)
    def _run_batch(self, binary, cases, tmp, tag):
        prefix = os.path.join(tmp, "race_%s_%d" % (tag, self._seq()))
        env = dict(os.environ, GORACE="halt_on_error=0 exitcode=0 log_path=%s" % prefix, PV_RACE_LOG=prefix,
                   TMPDIR=tmp)   # the harness's scratch engines die with the check's directory even if it crashes
        slim = [{k: v for k, v in c.items() if k not in ("sseed", "shape")} for c in cases]
        p = subprocess.run([binary, self.engine], input=json.dumps(slim).encode(), capture_output=True,
                           timeout=3000, env=env)
        if p.returncode == 0:
            try:
                return json.loads(p.stdout), None
            except ValueError:
                pass
        return None, (p.stderr.decode(errors="replace")[-3000:] or "exit %d" % p.returncode)

    _n = 0

    def _seq(self):
        C08._n += 1
        return C08._n

    def _run_isolating(self, binary, cases, tmp):
        obss, err = self._run_batch(binary, cases, tmp, "all")
        if obss is None:
            # the process died (e.g. "fatal error: concurrent map writes"): isolate per case
            obss = []
            for c in cases:
                o, err1 = self._run_batch(binary, [c], tmp, "one")
                if o is None:
                    if "harness error" in err1 or "bad input" in err1:
                        raise BuildError("harness run failed (C08)", err1)
                    obss.append({"crashed": True, "stderr": err1, "load": "ok", "seq": [], "seq_after": [],
                                 "conc": [], "races": 0, "go_equal": False, "race_build": True, "procs": 0})
                else:
                    obss.append(o[0])
        return obss

    def run(self, binary, cases, tmp, tier, attempts=None):
        obss = self._run_isolating(binary, cases, tmp)
        # A case is a recipe for histories, not one history: which interleaving happens is the Go scheduler's
        # choice.  Small batches (a replay, the candidates of a shrinking step, the final run of a shrunk witness)
        # are therefore attempted several times, and the observation kept for a case is the first attempt in which
        # anything differed (harness flag go_equal; the verdict is still the Coq judge's, on that observation).
        # The main stream (40+ cases) is attempted once.
        if attempts is None:
            attempts = max(1, min(40, 48 // max(1, len(cases))))
        for _ in range(attempts - 1):
            again = [i for i, o in enumerate(obss) if o.get("go_equal") and not o.get("races") and not o.get("crashed")]
            if not again:
                break
            for i, o in zip(again, self._run_isolating(binary, [cases[i] for i in again], tmp)):
                if not o.get("go_equal") or o.get("races") or o.get("crashed"):
                    obss[i] = o
        for o in obss:
            if not o.get("crashed") and not o.get("race_build"):
                raise BuildError("C08 harness was not built with -race", "")
            if not o.get("crashed") and o.get("load") != "ok":
                raise BuildError("C08 fixed templates do not load", json.dumps(o)[:2000])
        return obss

    # ---------------------------------------------------------------- Gallina term
    def emit(self, case, obs):
        import random as _random
        seq = obs.get("seq") or []
        rounds = []
        for ri, conc in enumerate(obs.get("conc") or []):
            calls = case["calls"]
            sched = []
            for g, j in enumerate(calls):
                sched += [g] * (steps_needed(seq[j]) + 1)
            r = _random.Random(case.get("sseed", 0) * 7 + ri)
            style = r.random()
            if style < 0.7:
                r.shuffle(sched)                      # an arbitrary interleaving
            elif style < 0.85:
                sched.sort(key=lambda g: -g)          # one render at a time, last call first
            # else: one render at a time, in call order
            rounds.append(b"{| calls := " + cq_list([cq_pair(cq_nat(j), res_term(x)) for j, x in zip(calls, conc)]) +
                          b"; sched := " + cq_list([cq_nat(g) for g in sched]) + b" |}")
        return (b"{| seq := " + cq_list([res_term(x) for x in seq]) +
                b"; seq_after := " + cq_list([res_term(x) for x in (obs.get("seq_after") or [])]) +
                b"; rounds := " + cq_list(rounds) +
                b"; races := " + cq_nat(min(obs.get("races", 0), 1000)) +
                b"; crashed := " + cq_bool(bool(obs.get("crashed"))) + b" |}")

    def model_expr(self):
        return "(map (model_round c) (rounds c), oracle08 c, agree08 c)"

    # ---------------------------------------------------------------- evidence
    def nontrivial(self, case, obs):
        return len(case["calls"]) >= 2 and case["rounds"] >= 1 and len(obs.get("seq") or []) == len(case["jobs"])

    def sample(self, case, obs):
        return {"goroutines": len(case["calls"]), "rounds": case["rounds"], "ratelimit": case["ratelimit"],
                "shape": case.get("shape", "corpus"), "staggered": bool(case.get("stagger")),
                "stagger": obs.get("stagger"),
                "jobs": [unhx(j["tpl"]).decode() for j in case["jobs"]], "calls": case["calls"][:16],
                "contexts": [{"user": unhx(j["ctx"]["user"]).decode("utf-8", "replace"), "num": j["ctx"]["num"],
                              "over": j["ctx"]["over"]} for j in case["jobs"] if j.get("ctx")][:8],
                "sequential_classes": [r["class"] for r in (obs.get("seq") or [])],
                "first_sequential_output": (unhx(obs["seq"][0]["out"]).decode("utf-8", "replace")[:200]
                                            if obs.get("seq") else None),
                "go_all_equal": obs.get("go_equal"), "race_reports": obs.get("races"),
                "gomaxprocs": obs.get("procs")}

    def distribution(self, cases, obss):
        d = {"goroutines": {}, "concurrent_renders": 0, "sequential_renders": 0, "templates": {}, "job_classes": {},
             "race_reports": 0, "crashed": 0, "go_unequal_cases": 0, "ratelimit": {}, "race_build": True, "gomaxprocs": 0,
             "shapes": {}, "staggered_cases": 0, "context_dependent_renders": 0, "cancelled_context_renders": 0,
             "rounds_with_same_template_under_different_contexts": 0,
             "stagger": {"points": 0, "holds": 0, "released": 0, "timeouts": 0, "max_inside": 0}}
        for c, o in zip(cases, obss):
            sh = c.get("shape", "corpus")
            d["shapes"][sh] = d["shapes"].get(sh, 0) + 1
            d["staggered_cases"] += bool(c.get("stagger"))
            nr = len(o.get("conc") or [])
            by_tpl = {}
            for g in c["calls"]:
                j = c["jobs"][g]
                if unhx(j["tpl"]).startswith(b"ctx/"):
                    d["context_dependent_renders"] += nr
                    by_tpl.setdefault(j["tpl"], set()).add(json.dumps(j.get("ctx"), sort_keys=True))
                if (j.get("ctx") or {}).get("over"):
                    d["cancelled_context_renders"] += nr
            if any(len(v) > 1 for v in by_tpl.values()):
                d["rounds_with_same_template_under_different_contexts"] += nr
            st = o.get("stagger") or {}
            for k in ("points", "holds", "released", "timeouts"):
                d["stagger"][k] += st.get(k, 0)
            d["stagger"]["max_inside"] = max(d["stagger"]["max_inside"], st.get("max_inside", 0))
            n = str(len(c["calls"]))
            d["goroutines"][n] = d["goroutines"].get(n, 0) + 1
            d["concurrent_renders"] += len(c["calls"]) * len(o.get("conc") or [])
            d["sequential_renders"] += 2 * len(c["jobs"])
            for g in c["calls"]:
                t = unhx(c["jobs"][g]["tpl"]).decode()
                d["templates"][t] = d["templates"].get(t, 0) + c["rounds"]
            for r in (o.get("seq") or []):
                d["job_classes"][r["class"]] = d["job_classes"].get(r["class"], 0) + 1
            d["race_reports"] += o.get("races", 0)
            d["crashed"] += bool(o.get("crashed"))
            d["go_unequal_cases"] += not o.get("go_equal")
            rl = str(c["ratelimit"])
            d["ratelimit"][rl] = d["ratelimit"].get(rl, 0) + 1
            d["race_build"] = d["race_build"] and bool(o.get("race_build"))
            d["gomaxprocs"] = max(d["gomaxprocs"], o.get("procs", 0))
        return d

    # ---------------------------------------------------------------- shrinking
    def shrink(self, case):
        calls, jobs = case["calls"], case["jobs"]
        if not case.get("stagger"):
            # a free-running storm: first try the same case with deliberate staggering, which makes the
            # overlaps (and so the witness) far more repeatable
            yield dict(case, stagger=(case.get("sseed", 0) << 8) | 1)
        if case["rounds"] > 1:
            yield dict(case, rounds=1)
            yield dict(case, rounds=case["rounds"] - 1)
        if len(calls) > 2:
            yield dict(case, calls=calls[:len(calls) // 2])
            yield dict(case, calls=calls[len(calls) // 2:])
            yield dict(case, calls=calls[:-1])
        used = sorted(set(calls))
        if len(used) < len(jobs):   # drop unused jobs
            remap = {j: i for i, j in enumerate(used)}
            yield dict(case, jobs=[jobs[j] for j in used], calls=[remap[j] for j in calls])
        for j in used:              # everybody renders one job
            if len(used) > 1:
                yield dict(case, calls=[j] * len(calls))
        if case["ratelimit"]:
            yield dict(case, ratelimit=0)

    # ---------------------------------------------------------------- debug mode: observed, not judged
    def extra(self, binary, tmp, tier, rng, ev):
        n = 6 if tier == "quick" else 60
        cases = self.generate(rng, n, tier)
        for c in cases:
            c["debug"] = True
            c["jobs"] = [j for j in c["jobs"]]
        obs = {"cases": 0, "concurrent_renders": 0, "unequal_renders": 0, "race_reports": 0, "crashed": 0,
               "first_race_report": None, "unequal_classes": {}}
        try:
            obss = self.run(binary, cases, tmp, tier, attempts=1)
        except BuildError as e:
            obs["error"] = e.what
            obss = []
        for c, o in zip(cases, obss):
            obs["cases"] += 1
            obs["crashed"] += bool(o.get("crashed"))
            obs["race_reports"] += o.get("races", 0)
            if o.get("race_report") and not obs["first_race_report"]:
                obs["first_race_report"] = o["race_report"][:2500]
            for conc in (o.get("conc") or []):
                for g, r in zip(c["calls"], conc):
                    obs["concurrent_renders"] += 1
                    s = o["seq"][g]
                    if r["class"] != s["class"] or r["out"] != s["out"]:
                        obs["unequal_renders"] += 1
                        k = "%s->%s" % (s["class"], r["class"])
                        obs["unequal_classes"][k] = obs["unequal_classes"].get(k, 0) + 1
        obs["note"] = ("debug mode (Engine.Debug = true) reloads templates on every Render; outside C08's claim "
                       "(see C10); reported, never judged")
        ev["coverage"]["debug_mode_observation"] = obs
        return []


PROP = C08()
